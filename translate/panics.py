#!/usr/bin/env python3
"""
Panic-site inventory for C14: every `unwrap()`, `expect(`, `panic!`, `unreachable!`, `assert!`,
`todo!`, `unimplemented!`, every std method that panics on a bad index, length or zero size
(`swap_remove`, `split_at`, `split_off`, `copy_from_slice`, `remove(<n>)`, `insert(<n>, ..)`, `drain`,
`chunks`, `windows`, `step_by`, `rotate_*`, `*_unchecked`) and every index / slice expression in non-test, non-doc source of the
crate, compared with the hand-kept classification translate/panic_sites.json.

usage: panics.py <repo> <generated-dir> [--dump]
Writes <generated-dir>/PanicSites.lean (the inventory with each site's class).  A site without a
classification gets class `unclassified` (the theorem in Props/C14.lean rejects it).  A site is identified by
file, function and statement text; a statement that moved to another function of its file keeps its class.
"""
import json
import os
import re
import sys

repo, outdir = sys.argv[1], sys.argv[2]
here = os.path.dirname(os.path.abspath(__file__))
known = json.load(open(os.path.join(here, "panic_sites.json")))
CALL = re.compile(r"\.unwrap\(\)|\.expect\(|\bpanic!|\bunreachable!|\bassert!|\bassert_eq!|\bassert_ne!|\btodo!|\bunimplemented!"
                  # std methods that panic on a bad index / length / zero size
                  r"|\.swap_remove\(|\.split_at\(|\.split_at_mut\(|\.split_off\(|\.copy_from_slice\(|\.clone_from_slice\("
                  r"|\.remove\(\s*\d|\.insert\(\s*\d|\.drain\(\s*[^)\s]|\.chunks\(|\.chunks_exact\(|\.windows\(|\.step_by\("
                  r"|\.rotate_left\(|\.rotate_right\(|_unchecked\(|\.unwrap_unchecked\(")
# index / slice expressions: identifier or call result followed by [ ... ] (not attributes, not array types/literals)
INDEX = re.compile(r"[\w\)\]]\[(?!\s*\])[^\]]*\]")

sites = []
for base, _, files in sorted(os.walk(os.path.join(repo, "src"))):
    for fn in sorted(files):
        if not fn.endswith(".rs") or fn == "verif_hooks.rs":
            continue
        path = os.path.join(base, fn)
        rel = os.path.relpath(path, repo)
        text = open(path).read()
        cut = text.find("#[cfg(test)]")
        if cut >= 0:
            text = text[:cut]
        func = "?"
        for ln, line in enumerate(text.split("\n"), 1):
            code = line.split("//")[0]
            st = code.strip()
            m = re.search(r"\bfn\s+(\w+)", code)
            if m:
                func = m.group(1)
            if not st or st.startswith("#[") or st.startswith("///") or st.startswith("//!"):
                continue
            kinds = []
            if CALL.search(code):
                kinds.append("call")
            for im in INDEX.finditer(code):
                frag = im.group(0)
                # skip generic array types like `[u8]` after `&` or `:` handled by the lookbehind; skip attribute-like
                if re.match(r"[\w\)\]]\[\s*\.\.\s*\]", frag) or True:
                    kinds.append("index")
                    break
            # string/format literals are not code: drop matches that lie inside quotes only
            if kinds:
                unq = re.sub(r'"(?:[^"\\]|\\.)*"', '""', code)
                kinds = [k for k in kinds if (k == "call" and CALL.search(unq)) or (k == "index" and INDEX.search(unq))]
            for k in kinds:
                sites.append({"file": rel, "fn": func, "kind": k, "text": " ".join(st.split())})

KEYWORDS = {"let", "mut", "ref", "if", "else", "match", "return", "for", "in", "while", "loop", "as", "fn", "pub", "self", "Self",
            "true", "false", "move", "break", "continue", "where", "impl", "use", "crate", "super", "dyn", "unsafe", "const", "static"}


def same_text(a, b):
    """the statement text, whatever ends it (`;` at the end of a statement, `,` in an argument list, nothing)"""
    return a.rstrip(";, ") == b.rstrip(";, ")


def shape(text):
    """The statement with the names of values blanked: an identifier that is not a keyword, not a path segment
    (`a::b`), not called (`f(`, `m!`), not a generic (`T<`), and not a field or method (after `.`) becomes `_`.
    Types, functions, methods, fields, literals and the structure of the expression stay."""
    out, i = [], 0
    for m in re.finditer(r"[A-Za-z_][A-Za-z0-9_]*", text):
        out.append(text[i:m.start()])
        i = m.end()
        w = m.group(0)
        before = text[:m.start()].rstrip()
        after = text[m.end():].lstrip()
        keep = (w in KEYWORDS or before.endswith(".") or before.endswith("::") or after.startswith("(") or after.startswith("::")
                or after.startswith("!") or after.startswith("<") or w[0].isupper())
        out.append(w if keep else "_")
    out.append(text[i:])
    return "".join(out)


classified = []
for s in sites:
    cls = "unclassified"
    for k in known:
        if k["file"] == s["file"] and k["fn"] == s["fn"] and k["text"] == s["text"]:
            cls = k["class"]
            break
    if cls == "unclassified":
        # the same statement in another function of the same file (code moved into a helper, a function
        # renamed): it keeps its classification if all classified statements of that text in the file agree
        same = {k["class"] for k in known if k["file"] == s["file"] and same_text(k["text"], s["text"])}
        if len(same) == 1:
            cls = same.pop()
    if cls == "unclassified":
        # ... and the same statement with other names for its local variables (see `shape`)
        same = {k["class"] for k in known if k["file"] == s["file"] and same_text(shape(k["text"]), shape(s["text"]))}
        if len(same) == 1:
            cls = same.pop()
    classified.append(dict(s, **{"class": cls}))

if "--dump" in sys.argv:
    print(json.dumps(classified, indent=1))
    sys.exit(0)

def lit(s):
    return '"' + s.replace("\\", "\\\\").replace('"', '\\"') + '"'

os.makedirs(outdir, exist_ok=True)
with open(os.path.join(outdir, "PanicSites.lean"), "w") as f:
    f.write("/- GENERATED by translate/panics.py from /repo/src on every run; do not edit. -/\n")
    f.write("namespace InToto.Generated\n\n")
    f.write("inductive SiteClass where\n  | proved        -- a theorem shows the model of this code never takes the panicking branch\n"
            "  | unreachable   -- guarded by a check a few lines above / an invariant of the type (argued in panic_sites.json)\n"
            "  | callerContract -- only reachable through an argument the *caller* (not an attacker) chooses\n"
            "  | libraryTotal  -- the called library function cannot fail on the value passed\n"
            "  | unclassified\n  deriving DecidableEq, Repr\n\n")
    f.write("structure PanicSite where\n  file : String\n  fn : String\n  kind : String\n  text : String\n  cls : SiteClass\n  deriving Repr\n\n")
    f.write("def panicSites : List PanicSite := [\n")
    f.write(",\n".join("  { file := %s, fn := %s, kind := %s, text := %s, cls := .%s }" %
                       (lit(s["file"]), lit(s["fn"]), lit(s["kind"]), lit(s["text"]), s["class"]) for s in classified))
    f.write("\n]\n\nend InToto.Generated\n")
un = [s for s in classified if s["class"] == "unclassified"]
print("panics: %d sites, %d unclassified" % (len(classified), len(un)))
for s in un[:20]:
    print("  unclassified:", s["file"], s["fn"], s["text"])
