#!/usr/bin/env python3
"""
Source-to-Lean translator for C19: the wire schemas of the attestation formats (field names after
`rename`, optionality, `flatten`, `deny_unknown_fields`) and the version string tables, read from
src/models/statement/*.rs and src/models/predicate/*.rs.

usage: schema.py <repo> <generated-dir>      writes <generated-dir>/Schema.lean
Fails closed: a struct or table it cannot parse makes it exit non-zero.
"""
import os
import re
import sys

repo, outdir = sys.argv[1], sys.argv[2]


def chars(s):
    return "[" + ", ".join("'%s'" % (c.replace("\\", "\\\\").replace("'", "\\'")) for c in s) + "]"


def strip_tests(text):
    cut = text.find("#[cfg(test)]")
    return text[:cut] if cut >= 0 else text


structs = []
for sub in ("statement", "predicate"):
    d = os.path.join(repo, "src", "models", sub)
    for fn in sorted(os.listdir(d)):
        if not fn.endswith(".rs"):
            continue
        text = strip_tests(open(os.path.join(d, fn)).read())
        for m in re.finditer(r"((?:#\[[^\]]*\]\s*|///[^\n]*\n\s*)*)pub struct (\w+)\s*\{", text):
            attrs, name = m.group(1), m.group(2)
            if "Deserialize" not in attrs:
                continue
            depth, k = 1, m.end()
            while k < len(text) and depth:
                depth += {"{": 1, "}": -1}.get(text[k], 0)
                k += 1
            body = text[m.end():k - 1]
            deny = "deny_unknown_fields" in attrs
            fields = []
            pending = ""
            for line in body.split("\n"):
                line = line.strip()
                if not line or line.startswith("//"):
                    continue
                if line.startswith("#["):
                    pending += line
                    continue
                fm = re.match(r"(?:pub(?:\([^)]*\))?\s+)?(\w+)\s*:\s*(.+?),?$", line)
                if not fm:
                    print("schema.py: cannot parse field line %r in %s" % (line, name))
                    sys.exit(1)
                fname, fty = fm.group(1), fm.group(2).rstrip(",")
                rn = re.search(r'rename\s*=\s*"([^"]+)"', pending)
                wire = rn.group(1) if rn else fname
                fields.append((wire, not fty.startswith("Option<"), "flatten" in pending, fty, 'skip_serializing_if = "Option::is_none"' in pending))
                pending = ""
            structs.append((name, deny, fields))

if not structs:
    print("schema.py: no structs found")
    sys.exit(1)

# ---------------------------------------------------------------- field types
struct_names = {n for n, _, _ in structs}
# newtype wrappers around String that serialise as the string itself
newtypes = set()
for sub in ("statement", "predicate"):
    d = os.path.join(repo, "src", "models", sub)
    for fn in sorted(os.listdir(d)):
        if fn.endswith(".rs"):
            text = strip_tests(open(os.path.join(d, fn)).read())
            newtypes.update(re.findall(r"pub struct (\w+)\(pub String\);", text))
# types modelled elsewhere (Model/Wire.lean, Model/Codec.lean, Model/Time.lean, the version tables)
EXTERNAL = {
    "BTreeMap<VirtualTargetPath, TargetDescription>": "artifacts",
    "Command": "command",
    "ByProducts": "byproducts",
    "PredicateVer": "predicateVer",
    "PredicateWrapper": "predicate",
    "TimeStamp": "time",
}


def fty(t):
    t = t.strip()
    if t in ("String",) or t in newtypes:
        return "FTy.str"
    if t == "bool":
        return "FTy.bool"
    if t == "usize":
        return "FTy.usize"
    if t in ("HashMap<String, String>", "BTreeMap<String, String>"):
        return "FTy.strMap"
    m = re.match(r"Option<(.*)>$", t)
    if m:
        return "(FTy.opt %s)" % fty(m.group(1))
    m = re.match(r"Vec<(.*)>$", t)
    if m:
        return "(FTy.list %s)" % fty(m.group(1))
    if t in struct_names:
        return "(FTy.ref %s)" % chars(t)
    if t in EXTERNAL:
        return "(FTy.ext %s)" % chars(EXTERNAL[t])
    print("schema.py: field type %r is not in the type language of the codec model" % t)
    sys.exit(1)


def enum_variants(path, enum):
    text = strip_tests(open(path).read())
    m = re.search(r"pub enum %s\s*\{(.*?)\n\}" % enum, text, re.S)
    if not m:
        print("schema.py: cannot find enum", enum)
        sys.exit(1)
    return m.group(1)


def trial_order(path, ver_enum, wrapper_enum):
    """(version variant, struct type) in the order `<ver_enum>::iter()` tries them"""
    order = re.findall(r"^\s*(\w+),", enum_variants(path, ver_enum), re.M)
    payload = dict(re.findall(r"(\w+)\((\w+)\)", enum_variants(path, wrapper_enum)))
    text = strip_tests(open(path).read())
    # the judge loop must iterate the version enum and take the first success
    # (as a loop that returns at the first success, or as `<ver_enum>::iter().find(..)`, which is the same thing)
    loop_form = re.search(r"for \w+ in %s::iter\(\)\s*\{.{0,400}?if \w+\.is_ok\(\)\s*\{.{0,400}?return Ok\(\w+\)" % ver_enum, text, re.S)
    find_form = re.search(r"%s::iter\(\)\s*\.find\(" % ver_enum, text)
    if not (loop_form or find_form):
        print("schema.py: the version detection loop of %s is not 'first success in declaration order'" % wrapper_enum)
        sys.exit(1)
    out = []
    for v in order:
        if v not in payload or payload[v] not in struct_names:
            print("schema.py: variant %s of %s has no modelled payload" % (v, wrapper_enum))
            sys.exit(1)
        out.append((v, payload[v]))
    return out


# StateV01 is read through its unchecked twin and TryFrom, which must compare the declared predicate
# type with the version of the contained predicate
sv01 = strip_tests(open(os.path.join(repo, "src/models/statement/state_v01.rs")).read())
state_v01_checked = bool(
    re.search(r'try_from\s*=\s*"StateV01Unchecked"', sv01)
    and re.search(r"let contained = raw\.predicate\.clone\(\)\.into_trait\(\)\.version\(\);\s*if raw\.predicate_type != contained\s*\{\s*return Err", sv01))

# `FromMerge::merge`: which expression every member of the built statement is initialised with
rename_of = {}
for sub in ("statement",):
    d = os.path.join(repo, "src", "models", sub)
    for fn in sorted(os.listdir(d)):
        if fn.endswith(".rs"):
            text = strip_tests(open(os.path.join(d, fn)).read())
            for m in re.finditer(r"pub struct (\w+)\s*\{(.*?)\n\}", text, re.S):
                pend, table = "", {}
                for line in m.group(2).split("\n"):
                    line = line.strip()
                    if line.startswith("#["):
                        pend += line
                        continue
                    fm = re.match(r"(?:pub(?:\([^)]*\))?\s+)?(\w+)\s*:", line)
                    if fm:
                        rn = re.search(r'rename\s*=\s*"([^"]+)"', pend)
                        table[fm.group(1)] = rn.group(1) if rn else fm.group(1)
                        pend = ""
                rename_of[m.group(1)] = table
merges = []
for sname, fn in (("StateNaive", "state_naive.rs"), ("StateV01", "state_v01.rs")):
    text = strip_tests(open(os.path.join(repo, "src/models/statement", fn)).read())
    m = re.search(r"impl FromMerge for %s\s*\{.*?Ok\(%s\s*\{(.*?)\}\)" % (sname, sname), text, re.S)
    ver = re.search(r"let version = StatementVer::(\w+)\.into\(\);", text)
    if not m or not ver:
        print("schema.py: cannot read the merge of", sname)
        sys.exit(1)
    rows = []
    for part in m.group(1).split(","):
        part = " ".join(part.split())
        if not part:
            continue
        fm = re.match(r"(\w+)\s*:\s*(.+)$", part)
        if not fm or fm.group(1) not in rename_of.get(sname, {}):
            print("schema.py: cannot read the member initialiser %r of %s::merge" % (part, sname))
            sys.exit(1)
        src = fm.group(2)
        if src == "version":
            src = "StatementVer::%s" % ver.group(1)
        rows.append((rename_of[sname][fm.group(1)], src))
    merges.append((sname, rows))

ptrial = trial_order(os.path.join(repo, "src/models/predicate/mod.rs"), "PredicateVer", "PredicateWrapper")
strial = trial_order(os.path.join(repo, "src/models/statement/mod.rs"), "StatementVer", "StatementWrapper")


def table(path, enum):
    text = strip_tests(open(path).read())
    m = re.search(r"impl TryFrom<String> for %s\s*\{(.*?)\n\}" % enum, text, re.S)
    fwd = re.findall(r'"([^"]*)"\s*=>\s*\{?\s*Ok\(%s::(\w+)\)' % enum, m.group(1), re.S) if m else None
    m2 = re.search(r"impl From<%s> for String\s*\{(.*?)\n\}" % enum, text, re.S)
    back = re.findall(r'%s::(\w+)\s*=>\s*\{?\s*"([^"]*)"\s*\.to_string\(\)' % enum, m2.group(1), re.S) if m2 else None
    if not fwd or not back:
        print("schema.py: cannot parse the string tables of", enum)
        sys.exit(1)
    return fwd, back


pv = table(os.path.join(repo, "src/models/predicate/mod.rs"), "PredicateVer")
sv = table(os.path.join(repo, "src/models/statement/mod.rs"), "StatementVer")

os.makedirs(outdir, exist_ok=True)
with open(os.path.join(outdir, "Schema.lean"), "w") as f:
    f.write("/- GENERATED by translate/schema.py from /repo/src on every run; do not edit. -/\n")
    f.write("namespace InToto.Generated\n\n")
    f.write("/-- the type language of the attestation structs' fields -/\n")
    f.write("inductive FTy where\n  | str | bool | usize | strMap\n  | opt (t : FTy)\n  | list (t : FTy)\n  | ref (name : List Char)\n  | ext (name : List Char)\n  deriving DecidableEq, Repr\n\n")
    f.write("structure FieldSpec where\n  name : List Char\n  required : Bool\n  flatten : Bool\n  ty : FTy\n  skipNone : Bool\n  deriving DecidableEq, Repr\n\n")
    f.write("structure StructSpec where\n  name : List Char\n  denyUnknown : Bool\n  fields : List FieldSpec\n  deriving DecidableEq, Repr\n\n")
    f.write("def schemas : List StructSpec := [\n")
    f.write(",\n".join(
        "  { name := %s, denyUnknown := %s, fields := [\n%s] }" % (
            chars(n), "true" if d else "false",
            ",\n".join("      { name := %s, required := %s, flatten := %s, ty := %s, skipNone := %s }" % (
                chars(w), "true" if r else "false", "true" if fl else "false", fty(t), "true" if sk else "false")
                       for w, r, fl, t, sk in fs))
        for n, d, fs in structs))
    f.write("\n]\n\n")
    for nm, (fwd, back) in (("predicateVer", pv), ("statementVer", sv)):
        f.write("/-- `TryFrom<String>`: accepted string ↦ variant -/\n")
        f.write("def %sOfString : List (List Char × List Char) := [\n%s\n]\n\n" % (nm, ",\n".join("  (%s, %s)" % (chars(s), chars(v)) for s, v in fwd)))
        f.write("/-- `From<..> for String`: variant ↦ string -/\n")
        f.write("def %sToString : List (List Char × List Char) := [\n%s\n]\n\n" % (nm, ",\n".join("  (%s, %s)" % (chars(v), chars(s)) for v, s in back)))
    for nm, tr in (("predicateTrialOrder", ptrial), ("statementTrialOrder", strial)):
        f.write("/-- version detection: (version variant, struct) in the order they are tried -/\n")
        f.write("def %s : List (List Char × List Char) := [\n%s\n]\n\n" % (nm, ",\n".join("  (%s, %s)" % (chars(v), chars(t)) for v, t in tr)))
    f.write("/-- `FromMerge::merge`: (struct, [(member, the expression it is initialised with)]) -/\n")
    f.write("def mergeTable : List (List Char × List (List Char × List Char)) := [\n%s\n]\n\n" % ",\n".join(
        "  (%s, [\n%s])" % (chars(n), ",\n".join("    (%s, %s)" % (chars(a), chars(b)) for a, b in rows)) for n, rows in merges))
    f.write("/-- `StateV01` is decoded through `TryFrom<StateV01Unchecked>`, which rejects a declared predicate type\n    other than the version of the contained predicate -/\n")
    f.write("def stateV01ChecksPredicateType : Bool := %s\n\n" % ("true" if state_v01_checked else "false"))
    f.write("end InToto.Generated\n")
print("schema: %d structs" % len(structs))
