#!/usr/bin/env python3
"""
Structure of the verification pipeline, read from /repo/src/verifylib.rs on every run (C08, C15, C06, C13):

  * the ordered list of stage calls reached from the body of `in_toto_verify` - callee, first argument, whether
    the result is propagated with `?` (or is the tail expression), and the nesting depth of the call
    (0 = straight-line code of the function body: not inside an `if`, `match` arm, loop or closure); a call to a
    function of verifylib.rs that is not a stage of the model (a helper) is replaced by the stage calls of its
    body, so that moving stages into a helper - or adding a helper that calls none - leaves the sequence as it is;
  * the number of `return` statements in that body and what guards them;
  * which pipeline functions `verify_sublayouts` calls (the recursion into `in_toto_verify`).

usage: pipeline.py <repo> <generated-dir>
Writes <generated-dir>/Pipeline.lean.  The theorems in Props/C08.lean and Props/C15.lean state that this
structure is the one the model `Model/Verify.lean` implements (same stages, same order, every stage
unconditional and error-propagating, sub-layouts verified through the full entry point).
"""
import os
import re
import sys

repo, outdir = sys.argv[1], sys.argv[2]
src = open(os.path.join(repo, "src", "verifylib.rs")).read()
cut = src.find("#[cfg(test)]")
if cut >= 0:
    src = src[:cut]


def strip_comments(t):
    t = re.sub(r"//[^\n]*", "", t)
    return re.sub(r"/\*.*?\*/", "", t, flags=re.S)


def body_of(name):
    m = re.search(r"\bfn\s+%s\s*(<[^>]*>)?\s*\(" % re.escape(name), src)
    if not m:
        return None
    i = src.index("{", src.index(")", m.end()))
    # the parameter list may contain braces in types only rarely; find the body's opening brace after `->` clause
    j = i
    depth = 0
    k = j
    while k < len(src):
        if src[k] == "{":
            depth += 1
        elif src[k] == "}":
            depth -= 1
            if depth == 0:
                return strip_comments(src[j + 1:k])
        k += 1
    return None


def fn_names():
    return set(re.findall(r"\bfn\s+(\w+)", src))


FNS = fn_names()


def calls(body):
    """ordered (callee, first argument, propagates, depth) for calls to functions defined in verifylib.rs"""
    out = []
    depth = 0
    i = 0
    while i < len(body):
        c = body[i]
        if c == "{":
            depth += 1
        elif c == "}":
            depth -= 1
        m = re.match(r"(\w+)\s*\(", body[i:])
        if m and (i == 0 or not (body[i - 1].isalnum() or body[i - 1] in "_.:")) and m.group(1) in FNS:
            # matching parenthesis
            k = i + m.end()
            d = 1
            while k < len(body) and d:
                d += body[k] == "("
                d -= body[k] == ")"
                k += 1
            args = body[i + m.end():k - 1]
            first = re.sub(r"[&\s]|mut\b", "", args.split(",")[0]) if args.strip() else ""
            rest = body[k:].lstrip()
            tail = rest == "" or rest.startswith("}") and body[k:].strip() == ""
            out.append((m.group(1), first, rest.startswith("?") or tail, depth))
            i = i + m.end()
            continue
        i += 1
    return out


# the stages of the model (Model/Verify.lean); every other function of verifylib.rs is a helper: a call to a
# helper stands for the stage calls in its body (extracting a few stages into a function, or a pure helper
# that calls no stage, does not change the flattened sequence)
STAGES = {"verify_layout_signatures", "verify_layout_expiration", "load_links_for_layout", "verify_link_signature_thresholds",
          "verify_sublayouts", "verify_all_steps_command_alignment", "verify_threshold_constraints", "reduce_chain_links",
          "verify_all_item_rules", "run_all_inspections", "get_summary_link", "in_toto_verify"}


def flat(name, depth0=0, prop0=True, seen=()):
    """the stage calls reached from the body of `name`, in order, helpers expanded in place"""
    body = body_of(name)
    if body is None or name in seen:
        return []
    cs = calls(body)
    # (the last call of a body is its tail expression when nothing but closing braces follows it)
    if cs:
        last = cs[-1]
        tailtext = body[body.rfind(last[0]):]
        if tailtext.strip().endswith(")") and tailtext.count(";") == 0:
            cs[-1] = (last[0], last[1], True, last[3])
    out = []
    for callee, first, prop, depth in cs:
        if callee in STAGES:
            out.append((callee, first, prop and prop0, depth0 + depth))
        else:
            out.extend(flat(callee, depth0 + depth, prop and prop0, seen + (name,)))
    return out


main = body_of("in_toto_verify")
sub = body_of("verify_sublayouts")
if main is None or sub is None:
    print("pipeline.py: in_toto_verify / verify_sublayouts not found in src/verifylib.rs", file=sys.stderr)
    stages, returns, substages = [], [], []
else:
    stages = flat("in_toto_verify")
    returns = [" ".join(m.group(0).split())[:60] for m in re.finditer(r"\breturn\b[^;]*;", main)]
    substages = flat("verify_sublayouts")
subcalls = [c[0] for c in substages]


def lit(s):
    return '"' + s.replace("\\", "\\\\").replace('"', '\\"') + '"'


os.makedirs(outdir, exist_ok=True)
with open(os.path.join(outdir, "Pipeline.lean"), "w") as f:
    f.write("/- GENERATED by translate/pipeline.py from /repo/src/verifylib.rs on every run; do not edit. -/\n")
    f.write("namespace InToto.Generated\n\n")
    f.write("/-- a call in the body of `in_toto_verify` to a function of verifylib.rs -/\n")
    f.write("structure StageCall where\n  callee : String\n  firstArg : String\n  propagates : Bool\n  depth : Nat\n  deriving DecidableEq, Repr\n\n")
    f.write("def pipelineStages : List StageCall := [\n")
    f.write(",\n".join("  { callee := %s, firstArg := %s, propagates := %s, depth := %d }" % (lit(a), lit(b), "true" if c else "false", d) for a, b, c, d in stages))
    f.write("\n]\n\n")
    f.write("/-- the `return` statements in the body of `in_toto_verify` -/\n")
    f.write("def pipelineReturns : List String := [" + ", ".join(lit(r) for r in returns) + "]\n\n")
    f.write("/-- calls of pipeline functions reached from `verify_sublayouts`, in order -/\n")
    f.write("def sublayoutCalls : List String := [" + ", ".join(lit(c) for c in subcalls) + "]\n\n")
    f.write("def sublayoutStages : List StageCall := [\n")
    f.write(",\n".join("  { callee := %s, firstArg := %s, propagates := %s, depth := %d }" % (lit(a), lit(b), "true" if c else "false", d) for a, b, c, d in substages))
    f.write("\n]\n\n")
    f.write("end InToto.Generated\n")
print("pipeline.py: %d stage calls, %d returns, sub-layout calls %s" % (len(stages), len(returns), subcalls))
