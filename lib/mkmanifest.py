#!/usr/bin/env python3
"""Regenerate MANIFEST.json from lib/props.py (claims) and properties.jsonl (the fixed list)."""
import json
import os
import subprocess
import sys

ROOT = os.path.dirname(os.path.dirname(os.path.abspath(__file__)))
sys.path.insert(0, os.path.join(ROOT, "lib"))
import props  # noqa

ids = [json.loads(l)["id"] for l in open(os.path.join(ROOT, "properties.jsonl"))]
hooks = subprocess.run(["git", "-C", "/repo", "log", "--format=%h %s"], capture_output=True, text=True).stdout.splitlines()
hook_commits = [l.split()[0] for l in hooks if l.split(" ", 1)[1].startswith("verif-hooks")]

checks = []
for pid in ids:
    if pid not in props.PROPS:
        continue
    c = props.PROPS[pid]
    checks.append({
        "property_id": pid,
        "quick_cmd": "./check %s --tier quick" % pid,
        "thorough_cmd": "./check %s --tier thorough" % pid,
        "evidence_file": "evidence/%s.json" % pid,
        "replay_cmd_template": "./check %s --replay {path}" % pid,
        "engine": "lean-proof+correspondence",
        "level_claimed": {
            "category": "proof",
            "text": c["claim"],
            "design_ref": "DESIGN.md section 5, " + pid,
        },
        "level_note": c["level_note"],
        "technique": c["technique"],
    })
na = [{"property_id": pid, "reason": props.NOT_CLAIMED.get(pid, "check not built yet (work in progress, see DESIGN.md 9b); no claim is made")}
      for pid in ids if pid not in props.PROPS]
m = {
    "version": 1,
    "setup_cmd": "./check --setup",
    "hooks": {
        "guard": "cargo feature verif-hooks",
        "enable": "harness/Cargo.toml depends on in-toto by path with features = [\"verif-hooks\"]; `cargo build --offline` in harness/ (done by ./check)",
        "baseline_off_cmd": "cd /repo && cargo test --workspace --no-fail-fast --offline",
        "source_commits": hook_commits,
        "add_only": True,
    },
    "engines": [{
        "name": "lean-proof+correspondence", "path": "check",
        "serves_properties": [c["property_id"] for c in checks],
        "kind_free_text": "Lean 4 theorems about a hand-written executable model (lean/), #print axioms audit, and a differential "
                          "run of the model (compiled driver) against the real code through a Rust harness (harness/) with a direct "
                          "property oracle on the implementation",
    }],
    "checks": checks,
    "not_applicable": na,
    "notes": "All claimed checks share one lake workspace and one harness binary; ./check serialises builds with file locks.",
}
json.dump(m, open(os.path.join(ROOT, "MANIFEST.json"), "w"), indent=1)
print("MANIFEST.json: %d checks, %d not claimed" % (len(checks), len(na)))
