"""Per-property configuration of ./check (what is built, what the evidence says about it)."""

COMMON_ASSUME = [
    "the Lean model is hand-written; its tie to the Rust code is the differential run (sampled, plus the stated exhaustive scopes)",
]

PROPS = {
    "C20": {
        "rule": "ops = pae_pack(type,payload) on generated pairs, pae_unpack on corpus, mutated encodings, random bytes, "
                "huge length fields and an exhaustive alphabet scope; distinct = distinct op line; non-trivial = pack ops and "
                "unpack inputs that carry the 'DSSEv1 ' prefix (get past the prefix guard)",
        "exhaustive_note": "pae_unpack on every byte string up to the length given in generator_notes over the framing alphabet "
                           "{' ',0,1,2,9,+,a} after the prefix (supports the correspondence; the unbounded claims are the theorems)",
        "trusted_base": [
            "str::from_utf8 is a parameter of the model (theorems hold for every predicate); the driver instantiates it with "
            "the RFC 3629 well-formedness test in Model/Utf8.lean",
            "usize is 64 bits; Vec::len() < 2^64 (hypotheses t.length, p.length < 2^64)",
        ],
        "partial": [],
        "assumptions": COMMON_ASSUME + ["trailing bytes after the declared payload are accepted by the code; the property does not forbid it"],
    },
}
