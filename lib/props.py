"""Per-property configuration of ./check (what is built, what the evidence says about it)."""

COMMON_ASSUME = [
    "the Lean model is hand-written; its tie to the Rust code is the differential run (sampled, plus the stated exhaustive scopes)",
]

JSON_TB = [
    "serde_json's text parser, Number representation and string escaper are library code: the model encodes the escaping rule "
    "(DESIGN 9d) and the i64/u64-vs-f64 classification; both are validated differentially",
    "Rust orders String keys bytewise (UTF-8) = code-point order (strLt in the model); exercised with non-BMP keys",
]

PROPS = {
    "C09": {
        "claim": "Given only valid(pub sk)(sign sk) (functional correctness of the primitive, an explicit hypothesis), a block signed by signers with pairwise distinct ids verifies against exactly their keys with threshold = number of signers, for every order of signatures and keys (constructor, builder's sorted map, after the wire) and every hash-map order; accepted blocks only count values the primitive accepts; signature values survive hex. Lean theorems for all signer lists and key types; on the real code: all schemes, 1-4 signers, both construction paths, three JSON layouts, then other keys, same material under the other scheme, and single-bit flips.",
        "level_note": "Trusted: Lean kernel; ring (the negative clauses are sampled, not proved); metadata round trip = C16; same signed text at sign and verify sites = C11.",
        "technique": 'Lean 4 theorems about an executable model + model/implementation correspondence check (differential run with property oracle)',
        "rule": "cases = generated layouts/links x 1-4 signers of every scheme x {Metablock::new, MetablockBuilder} x {compact, pretty, JsonPretty}; ops = vblock with constructed validity for the positive case and each other-key negative; distinct = distinct op; all non-trivial (reach the signature primitive)",
        "trusted_base": ["ring sign/verify: hypothesis hsv for the positive direction; negatives sampled"],
        "partial": ["'does not verify under another key / after a bit flip / under another scheme' are statements about ring: sampled on every case, not proved"],
        "assumptions": COMMON_ASSUME,
    },
    "C10": {
        "lean_modules": ["InTotoModel.Props.C10", "InTotoModel.Props.C10Text"],
        "claim": 'Order-insensitivity (deep member permutations), insensitivity to whitespace and escape spelling of the source text (every spelling of a value is read as that value by the model of the serde_json text reader, Model/JsonText.lean), parse-back by a strict JSON reader and by the model of the serde_json text reader (the canonical and the pretty-printed text read as the same value), injectivity, sortedness, exact integers and rejection of non-integers are Lean theorems over all JSON values (nested-inductive induction, no size bound); model tied to Json::canonicalize by a differential run and oracles (parse-back with serde_json, re-spelled documents).',
        "level_note": 'Trusted: Lean kernel; hand-written model of convert/write; serde_json escaping, number classification and text grammar as library facts (validated differentially).',
        "technique": 'Lean 4 theorems about an executable model + model/implementation correspondence check (differential run with property oracle)',
        "rule": "ops = canon(value) for generated serde_json values (model is shown a shuffled member order half of the time) and "
                "parsej(canonical text) read by the model's strict JSON reader; distinct = distinct op line; non-trivial = value "
                "is not a bare null/bool",
        "exhaustive_note": "thorough tier: every Unicode scalar value appears in a canonicalized string (blocks of 64)",
        "trusted_base": JSON_TB,
        "partial": ["serde_json's text reader is modelled, not verified: the spelling theorems are about Model/JsonText.lean, tied to "
                    "serde_json::from_str by the readtext differential (spelled, edited, numeral and deeply nested texts)"],
        "assumptions": COMMON_ASSUME,
    },
    "C11": {
        "claim": 'signedText v = refCanon v for every JSON value is a Lean theorem about the model of to_signable_text . canonicalize; the model is tied to all three signing/verifying sites and the key-id hash by signature/hash equality probes; an independent Rust OLPC encoder serves as oracle.',
        "level_note": 'Trusted: Lean kernel; my transcription of the reference (OLPC) encoding; ed25519 determinism for the byte-equality probe; model validated differentially.',
        "technique": 'Lean 4 theorems about an executable model + model/implementation correspondence check (differential run with property oracle)',
        "rule": "ops = signed(json of a generated layout/link/key description): the harness signs the model's text with the "
                "same ed25519 key and requires the library's constructor and builder signatures to be identical and verify() to "
                "accept it (so a mismatch of the signed bytes at any of the three sites shows as an answer mismatch); "
                "refcanon(json) cross-checks the harness's independent OLPC encoder with the Lean refCanon; distinct = distinct "
                "op; all are non-trivial (they reach the signature primitive)",
        "exhaustive_note": "",
        "trusted_base": JSON_TB + [
            "the reference encoding is my transcription of securesystemslib's encode_canonical (only backslash and double quote "
            "escaped); written twice independently (Lean refCanon, Rust harness/src/olpc.rs) and compared",
            "ed25519 signatures are deterministic, so equal signatures <=> equal signed bytes up to SHA-512 collisions"],
        "partial": [],
        "assumptions": COMMON_ASSUME,
    },
    "C01": {
        "lean_modules": ["InTotoModel.Props.C01", "InTotoModel.Props.NonVacuity", "InTotoModel.Props.Spec"],
        "claim": "Over all key sets and signature lists (Props/Spec.lean, Lemmas/OwnersOnly.lean): the order of the supplied keys is immaterial, and a signature entry under the id of a key that was not supplied - wherever it stands, whatever it holds - neither helps nor hurts. verify = ok implies: keys non-empty, pairwise distinct intrinsic ids (no alias), the block is a layout, every supplied key has a valid signature attributed to its own id over exactly the block's content, and that content is what all later stages enforce; with the four failure clauses as corollaries. Lean theorems for every environment, iteration order and fuel; tied to in_toto_verify by fault-injected end-to-end scenarios with all key schemes.",
        "level_note": "Trusted: Lean kernel; env.valid abstracts ring + signed-text derivation (C11); 'a post-signing change invalidates the signature' composes with C05 and the unforgeability of the schemes.",
        "technique": "Lean 4 theorems about an executable model + model/implementation correspondence check (differential run with property oracle)",
        "rule": "cases = end-to-end scenarios: a valid layout + link directory (real keys of every scheme, real signatures, optional sub-layouts and inspections) materialised in a scratch directory, usually with one injected fault whose effect is known by construction; ops = verify(scenario with constructed signature validity, observed inspection outcomes) run through the real in_toto_verify with a pinned clock; the model is evaluated under two opposite hash-map iteration orders (delegated evidence visited as the code does) and the sequences of inspection commands are compared in order, in failing runs too; distinct = distinct scenario; all are non-trivial (they get past argument parsing into stage 1)",
        "trusted_base": [
                "ring signature verification = parameter env.valid; clock = env.now (pinned through the verif-hooks clock override); running an inspection = env.run (exit status and recorded link are observed from the real run and handed to the model)",
                "glob() over the link directory is modelled as 'files named <step>.<8 chars>.link, sorted'; a step name that holds pattern syntax (*, ?, [..]) is read as a pattern, as the glob crate does (Model/Glob.lean: file names matched against <step>.????????.link, a rejected pattern is an error)",
                "the rule engine inside the pipeline is Model/Rules.lean (see C03)"
        ],
        "partial": [],
        "assumptions": [
                "the Lean model is hand-written; its tie to the Rust code is the differential run (sampled, plus the stated exhaustive scopes)"
        ]
},
    "C02": {
        "lean_modules": ["InTotoModel.Props.C02", "InTotoModel.Props.NonVacuity", "InTotoModel.Props.Spec"],
        "claim": "Over all populations of the link directory (Props/Spec.lean, Lemmas/OtherFiles.lean): a file named like no evidence of any step, whatever it holds, inserted anywhere into the listing, changes neither verdict nor summary. verify = ok implies that the step names are pairwise distinct (a second step of a name is an error since fix c94147d; the model's stage 4 mirrors it, so the main theorem needs no hypothesis on names any more) and, for every step, max(1,threshold) distinct key ids that are in the step's pubkeys, in the key table, and have a file <step>.<prefix8>.link carrying a signature of that id valid under that key; evidence of unlisted keys and files filed under a prefix none of their signatures carries never count. Lean theorems (induction over the directory listing and the link tables); end-to-end fault injection on the real code. Props/Spec.lean adds both directions at once: c02_success_iff_every_clause_holds - verification succeeds exactly when every clause of the order-free specification Spec/Verify.lean holds (owners signed, unexpired, distinct usable step names, readable evidence, enough counted evidence per step, every counted piece standing for a link, agreement, representatives and rules, inspections and their rules), for every valid family of iteration orders.",
        "level_note": "Trusted: Lean kernel; hypotheses stated in the theorem: distinct step names, key table files keys under their own id (C12), glob-safe step names.",
        "technique": "Lean 4 theorems about an executable model + model/implementation correspondence check (differential run with property oracle)",
        "rule": "cases = end-to-end scenarios: a valid layout + link directory (real keys of every scheme, real signatures, optional sub-layouts and inspections) materialised in a scratch directory, usually with one injected fault whose effect is known by construction; ops = verify(scenario with constructed signature validity, observed inspection outcomes) run through the real in_toto_verify with a pinned clock; the model is evaluated under two opposite hash-map iteration orders (delegated evidence visited as the code does) and the sequences of inspection commands are compared in order, in failing runs too; distinct = distinct scenario; all are non-trivial (they get past argument parsing into stage 1)",
        "trusted_base": [
                "ring signature verification = parameter env.valid; clock = env.now (pinned through the verif-hooks clock override); running an inspection = env.run (exit status and recorded link are observed from the real run and handed to the model)",
                "glob() over the link directory is modelled as 'files named <step>.<8 chars>.link, sorted' for glob-safe step names",
                "the rule engine inside the pipeline is Model/Rules.lean (see C03)"
        ],
        "partial": [
                "step names containing '/' (a pattern that spans directories) are outside the model (answer 'unmodelled'); fuzzed under C14"
        ],
        "assumptions": [
                "the Lean model is hand-written; its tie to the Rust code is the differential run (sampled, plus the stated exhaustive scopes)"
        ]
},
    "C06": {
        "lean_modules": ["InTotoModel.Props.C06", "InTotoModel.Props.NonVacuity", "InTotoModel.Props.Spec"],
        "claim": "verify = ok implies the enforced layout's expiry is not earlier than the clock reading, and the same for every sub-layout that counted as evidence (via the C15 theorem, recursively). Over all moments (Props/Spec.lean, Lemmas/TimeMono.lean): what is accepted at a moment is accepted with the same summary at every earlier moment, and an expired layout is refused at every later one - the moment enters through the comparison with the expiry dates only. The reading of the expires text is modelled too (Model/Time.lean: chrono's RFC 3339 reader, conversion to UTC, truncation to the second, the writer): every notation of an instant - any UTC offset within +-23:59, Z/z, T/t/space, -/U+2212, with or without a fraction, leap seconds - reads as that instant (calendar arithmetic proved by decomposition, no bound on the year inside 0000-9999), instants are ordered as chrono orders them, and the written text reads back. Lean theorems for all clocks, instants and notations; boundary, far past/future and offset-notation scenarios on the real code with the clock hook; the reader/writer model is compared with chrono and with the layout reader on generated, re-notated and edited texts.",
        "level_note": "Trusted: Lean kernel; the hand-written model of chrono's RFC 3339 reader/writer (validated differentially against chrono 0.4.45 and against LayoutMetadata's own (de)serialiser); the clock hook.",
        "technique": "Lean 4 theorems about an executable model + model/implementation correspondence check (differential run with property oracle)",
        "rule": "cases = end-to-end scenarios: a valid layout + link directory (real keys of every scheme, real signatures, optional sub-layouts and inspections) materialised in a scratch directory, usually with one injected fault whose effect is known by construction; ops = verify(scenario with constructed signature validity, observed inspection outcomes) run through the real in_toto_verify with a pinned clock; the model is evaluated under two opposite hash-map iteration orders (delegated evidence visited as the code does) and the sequences of inspection commands are compared in order, in failing runs too; distinct = distinct scenario; all are non-trivial (they get past argument parsing into stage 1)",
        "trusted_base": [
                "ring signature verification = parameter env.valid; clock = env.now (pinned through the verif-hooks clock override); running an inspection = env.run (exit status and recorded link are observed from the real run and handed to the model)",
                "glob() over the link directory is modelled as 'files named <step>.<8 chars>.link, sorted' for glob-safe step names",
                "the rule engine inside the pipeline is Model/Rules.lean (see C03)"
        ],
        "partial": [
                "chrono itself is not verified: Model/Time.lean is a specification-level model of its RFC 3339 reader and writer, tied to it by the rfc3339 / fmttime differential ops"
        ],
        "assumptions": [
                "the Lean model is hand-written; its tie to the Rust code is the differential run (sampled, plus the stated exhaustive scopes)"
        ]
},
    "C07": {
        "lean_modules": ["InTotoModel.Props.C07", "InTotoModel.Props.NonVacuity", "InTotoModel.Props.Spec"],
        "claim": "verify = ok implies that for every step with threshold >= 2 all verified links (sub-layout summaries included) have identical materials and identical products; a single dissenting pair makes the agreement stage fail. Lean theorems; dissent scenarios (digest, path, extra entry) on the real code.",
        "level_note": "Trusted: Lean kernel; artifact maps compared as the code compares them (BTreeMap/HashMap equality = canonical list equality).",
        "technique": "Lean 4 theorems about an executable model + model/implementation correspondence check (differential run with property oracle)",
        "rule": "cases = end-to-end scenarios: a valid layout + link directory (real keys of every scheme, real signatures, optional sub-layouts and inspections) materialised in a scratch directory, usually with one injected fault whose effect is known by construction; ops = verify(scenario with constructed signature validity, observed inspection outcomes) run through the real in_toto_verify with a pinned clock; the model is evaluated under two opposite hash-map iteration orders (delegated evidence visited as the code does) and the sequences of inspection commands are compared in order, in failing runs too; distinct = distinct scenario; all are non-trivial (they get past argument parsing into stage 1)",
        "trusted_base": [
                "ring signature verification = parameter env.valid; clock = env.now (pinned through the verif-hooks clock override); running an inspection = env.run (exit status and recorded link are observed from the real run and handed to the model)",
                "glob() over the link directory is modelled as 'files named <step>.<8 chars>.link, sorted' for glob-safe step names",
                "the rule engine inside the pipeline is Model/Rules.lean (see C03)"
        ],
        "partial": [],
        "assumptions": [
                "the Lean model is hand-written; its tie to the Rust code is the differential run (sampled, plus the stated exhaustive scopes)"
        ]
},
    "C08": {
        "translate": ["pipeline.py"],
        "lean_modules": ["InTotoModel.Props.C08", "InTotoModel.Props.NonVacuity", "InTotoModel.Props.Spec"],
        "claim": "An inspectionStarted event of a layout occurs in the trace only if stages 1-9 of that layout passed; if any of them fails the result is not ok and the trace has no event of that layout; success requires every inspection to have been started and exited 0, and the rule engine to accept every inspection against the extended link table. Lean theorems over the event trace (induction on delegation depth); sentinel-based scenarios on the real code.",
        "level_note": "Trusted: Lean kernel; process spawning, CWD handling, what record_artifacts('.') sees and the link file written afterwards are runtime behaviour: observed, not modelled.",
        "technique": "Lean 4 theorems about an executable model + structure of the pipeline translated from the Rust source on every run + model/implementation correspondence check (differential run with property oracle)",
        "rule": "cases = end-to-end scenarios: a valid layout + link directory (real keys of every scheme, real signatures, optional sub-layouts and inspections) materialised in a scratch directory, usually with one injected fault whose effect is known by construction; ops = verify(scenario with constructed signature validity, observed inspection outcomes) run through the real in_toto_verify with a pinned clock; the model is evaluated under two opposite hash-map iteration orders (delegated evidence visited as the code does) and the sequences of inspection commands are compared in order, in failing runs too; distinct = distinct scenario; all are non-trivial (they get past argument parsing into stage 1)",
        "trusted_base": [
                "translate/pipeline.py: the stage calls of in_toto_verify and the calls inside verify_sublayouts are read from src/verifylib.rs on every run (regex + brace matching over the function bodies); the theorem c08_source_* states they are the model's",
                "ring signature verification = parameter env.valid; clock = env.now (pinned through the verif-hooks clock override); running an inspection = env.run (exit status and recorded link are observed from the real run and handed to the model)",
                "glob() over the link directory is modelled as 'files named <step>.<8 chars>.link, sorted' for glob-safe step names",
                "the rule engine inside the pipeline is Model/Rules.lean (see C03)"
        ],
        "partial": [
                "what an inspection command does to the file system and which files its link records are sampled (C18 covers recording)"
        ],
        "assumptions": [
                "the Lean model is hand-written; its tie to the Rust code is the differential run (sampled, plus the stated exhaustive scopes)"
        ]
},
    "C12": {
        "lean_modules": ["InTotoModel.Props.C12", "InTotoModel.Props.C12Pem", "InTotoModel.Props.C12KeyId"],
        "claim": "The key id is by definition a function of (type, scheme, hash-algorithm list, material); Lean proves that the hashed preimage determines the description (hex, DER wrapper and PEM writer injective - the PEM text the library writes reads back, through a model of the pem crate's reader with canonical base64, as exactly the DER bytes), the SPKI export/import round trip for all three algorithms, re-export of every standard SPKI unchanged, the hex round trip, and that a parsed key table only maps an id to the key with that intrinsic id (discharging the hypothesis of C02/C15). The model's own SHA-256, base64, PEM and DER recompute every key id and SPKI of the key pool and are compared with the library; constructors (raw, DER, PEM, private, JSON) must give equal ids; standard SPKIs must import and re-export unchanged; DER mutations are compared accept/reject.",
        "level_note": "Trusted: Lean kernel; SHA-256 collision resistance for 'distinct keys have distinct ids'; the hand-written model of the pem crate's reader and of canonical base64 (Model/Pem.lean, compared with pem::parse on written and edited texts); derp's DER reader as modelled in readTlv (validated on mutated inputs); openssl-written fixtures as the standard for RSA/ECDSA SPKI.",
        "technique": 'Lean 4 theorems about an executable model + model/implementation correspondence check (differential run with property oracle)',
        "rule": "ops = keyid(type,scheme,algs,material) recomputed by the model for every pool key and constructor variant, spki_enc / spki_dec on exported, standard, fixture and mutated DER, pem_dec on written, CRLF, edited and random-body PEM texts, sha256 on random inputs of all lengths 0..199; oracles on constructors, JSON round trip, key tables filed under wrong ids; distinct = distinct op; non-trivial = DER longer than 10 bytes / every keyid op",
        "trusted_base": ["pem 3.0.6 / base64 0.22 as modelled in Model/Pem.lean (pem_dec differential)", "derp 0.0.15 DER reader/writer modelled in Model/KeyId.lean (differential incl. mutations)", "SHA-256: Model/Sha256.lean is executable and compared with ring; nothing is proved about it"],
        "partial": ["SHA-256 is executable and compared, nothing is proved about it; ring's validation of key material is not modelled"],
        "assumptions": COMMON_ASSUME + ["'the same however obtained' is read as 'a function of the four components': raw-bytes constructors use an absent hash-algorithm list, SPKI/PKCS#8 ones [sha256, sha512], by design of the library"],
    },
    "C13": {
        "lean_modules": ["InTotoModel.Props.C13", "InTotoModel.Props.NonVacuity", "InTotoModel.Props.Spec"],
        "claim": "c13_order_of_the_supplied_keys_does_not_matter: the caller's key map is read as a set. c13_full: for every environment, layout block, caller keys, link directory, name and fuel, and any two families of hash-map iteration orders (each only assumed to return a rearrangement), the model's verification succeeds under one iff it succeeds under the other, with the same summary link; failure is always an error, never a panic, and is order independent too. Proved through all twelve stages (Lemmas/Determinism.lean): loops as order-free filters / all-or-nothing maps, tables of two runs related by 'same keys, values up to permutation', every consumer reads tables by lookup only. The three order-sensitive decisions (signature counting with early exit, agreement with an arbitrary reference link, representative = smallest key id) are separate theorems. Non-vacuity: a concrete scenario (threshold-2 step, delegated sub-layout, MATCH rule, inspection) is kernel-checked to verify under two different orders. The driver evaluates every generated scenario under two opposite orders and the real run is repeated with fresh hash seeds.",
        "level_note": "Trusted: Lean kernel; the model's tie to verifylib.rs is the differential run. c13_complete_result_is_determined: under the iteration orders of the code (steps in layout order, evidence in key-id order - fix 0f00e75 - all hash-map iterations arbitrary) the complete result is determined: verdict, error stage, summary and the sequence of inspection commands, in failing runs too. What a command does to the working directory is the operating system's; that it is a function of the directory it finds is assumed, not modelled.",
        "technique": "Lean 4 theorems about an executable model + model/implementation correspondence check (differential run with property oracle)",
        "rule": "cases = end-to-end scenarios: a valid layout + link directory (real keys of every scheme, real signatures, optional sub-layouts and inspections) materialised in a scratch directory, usually with one injected fault whose effect is known by construction; ops = verify(scenario with constructed signature validity, observed inspection outcomes) run through the real in_toto_verify with a pinned clock; the model is evaluated under two opposite hash-map iteration orders (delegated evidence visited as the code does) and the sequences of inspection commands are compared in order, in failing runs too; distinct = distinct scenario; all are non-trivial (they get past argument parsing into stage 1)",
        "trusted_base": [
                "ring signature verification = parameter env.valid; clock = env.now (pinned through the verif-hooks clock override); running an inspection = env.run (exit status and recorded link are observed from the real run and handed to the model)",
                "glob() over the link directory is modelled as 'files named <step>.<8 chars>.link, sorted' for glob-safe step names",
                "the rule engine inside the pipeline is Model/Rules.lean (see C03)"
        ],
        "partial": [
                "the effect of an inspection command on the working directory is observed, not modelled: the theorem fixes the sequence of commands, not what each one does"
        ],
        "assumptions": [
                "the Lean model is hand-written; its tie to the Rust code is the differential run (sampled, plus the stated exhaustive scopes)"
        ]
},
    "C14": {
        "lean_modules": ["InTotoModel.Props.C14", "InTotoModel.Props.Spec"],
        "claim": "Panic-freedom of the modelled code is proved in Lean for every input: the whole verification pipeline over arbitrary link directories (including the summary's table lookups), rule application on arbitrary paths, block verification, PAE unpacking and KeyId::prefix; the inventory of every unwrap/expect/panic!/assert!/index site in the crate is regenerated from the source on every run and must be fully classified. Library code (serde_json, ring, derp, pem, glob, chrono, walkdir) is fuzzed only: byte-level mutations of valid documents and raw bytes into every parser and key importer, nesting beyond the recursion limit, extreme numbers, and verification over link directories seeded with hostile files.",
        "level_note": "Partial by nature: a proof covers the repo's own slicing/indexing/unwrap sites through their models; absence of panics, aborts, stack overflow and non-termination in the libraries is sampled, not proved. The recursion into sub-layouts is one directory level per delegation: c14_recursion_ends_with_the_directory_tree proves that the model's result no longer depends on the fuel once it exceeds the depth of the link directory plus one (in the real file system the depth is bounded by PATH_MAX; symbolic-link cycles are exercised on the implementation in child processes).",
        "technique": "Lean 4 no-panic theorems about the executable models + panic-site inventory translated from the Rust source on every run; fuzz streams as supporting evidence for library code",
        "translate": ["panics.py"],
        "rule": "ops = prefix8 on key ids the parser accepts (ASCII and non-ASCII, 64 bytes); fuzz cases (not ops) = mutated valid layouts/links/blocks/keys/statements/predicates/PAE, random bytes and generated JSON into 8 parsers and 12 key-importer entry points, deep nesting, extreme numbers, hostile link directories through in_toto_verify; distinct = distinct op; non-trivial = 64-byte ids",
        "trusted_base": ["translate/panics.py + translate/panic_sites.json (hand-kept classification with a reason per site)", "library code is fuzzed, not proved"],
        "partial": ["library parsers and importers: sampled by fuzzing only", "sites classified unreachable / libraryTotal / callerContract are argued in panic_sites.json, not proved"],
        "assumptions": COMMON_ASSUME,
    },
    "C15": {
        "translate": ["pipeline.py"],
        "lean_modules": ["InTotoModel.Props.C15", "InTotoModel.Props.NonVacuity", "InTotoModel.Props.Spec"],
        "claim": "verify = ok implies every sub-layout that counted as evidence is listed under an authorized key of the step, carries that key's valid signature, and has itself passed the complete verify routine with that single key, the step's name and the sub-directory <step>.<prefix8>; plus the summary theorem (requested name; first step's materials; last step's products and command/byproducts; empty link for a step-less layout). Lean theorems; delegation scenarios (depth 1-2) with every inner failure mode on the real code.",
        "level_note": "Trusted: Lean kernel; recursion depth is fuel in the model (running out is an error, never a success).",
        "technique": "Lean 4 theorems about an executable model + structure of the pipeline translated from the Rust source on every run + model/implementation correspondence check (differential run with property oracle)",
        "rule": "cases = end-to-end scenarios: a valid layout + link directory (real keys of every scheme, real signatures, optional sub-layouts and inspections) materialised in a scratch directory, usually with one injected fault whose effect is known by construction; ops = verify(scenario with constructed signature validity, observed inspection outcomes) run through the real in_toto_verify with a pinned clock; the model is evaluated under two opposite hash-map iteration orders (delegated evidence visited as the code does) and the sequences of inspection commands are compared in order, in failing runs too; distinct = distinct scenario; all are non-trivial (they get past argument parsing into stage 1)",
        "trusted_base": [
                "translate/pipeline.py: the stage calls of in_toto_verify and the calls inside verify_sublayouts are read from src/verifylib.rs on every run (regex + brace matching over the function bodies); the theorem c15_source_* states they are the model's",
                "ring signature verification = parameter env.valid; clock = env.now (pinned through the verif-hooks clock override); running an inspection = env.run (exit status and recorded link are observed from the real run and handed to the model)",
                "glob() over the link directory is modelled as 'files named <step>.<8 chars>.link, sorted' for glob-safe step names",
                "the rule engine inside the pipeline is Model/Rules.lean (see C03)"
        ],
        "partial": [],
        "assumptions": [
                "the Lean model is hand-written; its tie to the Rust code is the differential run (sampled, plus the stated exhaustive scopes)"
        ]
},
    "C03": {
        "lean_modules": ["InTotoModel.Props.C03", "InTotoModel.Props.Spec"],
        "claim": "Refinement theorem: for every item, rule list and link table with normalized relative paths and portable prefixes, the code-shaped engine accepts exactly when the specification's algorithm (Spec/Rules.lean) accepts; inside the pipeline (Props/Spec.lean, from the refinement of the whole verification): the rules of every inspection are decided on one table that holds the link of every step and of EVERY inspection - listed earlier or later -, and two layouts that differ only in the order of their (distinctly named) inspections are accepted alike; tied to the code by an end-to-end lane (rules of steps and inspections edited inside accepted scenarios, the decision compared with the Lean specification over the links recorded for all items); plus the safety clauses without hypotheses (nothing is consumed by a rule whose pattern or source prefix it does not match; an uninterpretable DISALLOW fails; DISALLOW fails iff a queued artifact matches). The model is tied to rulelib.rs by a systematic single-rule scope and random rule lists through the hooked apply_rules_on_link, with the specification verdict as oracle; glob and path-clean are specification-level models compared with the libraries.",
        "level_note": "Trusted: Lean kernel; Spec/Rules.lean is my transcription of the in-toto v0.9 rule algorithm; glob 0.3.4 and path-clean 1.0.1 behaviour are library specs validated differentially; the refinement theorem is relative to these library models.",
        "technique": 'Lean 4 theorems about an executable model + model/implementation correspondence check (differential run with property oracle)',
        "rule": "ops = rules(item, link table) through the hooked apply_rules_on_link, glob(pattern, text) and clean(path) against the libraries; oracle = the Lean specification verdict (rulespec) on normalized scenarios; distinct = distinct op; non-trivial = the item has rules and its link exists (gets past the lookup guard)",
        "exhaustive_note": "systematic scope in generator_notes: every single rule of the alphabet followed by DISALLOW *, over all artifact-universe subsets listed",
        "trusted_base": ["glob::Pattern (0.3.4, MatchOptions::new()) and path_clean::clean (1.0.1): modelled at specification level in Model/Glob.lean, Model/PathClean.lean and compared with the libraries on generated inputs",
                         "PathBuf::push / str::strip_prefix: modelled on text"],
        "partial": ["glob::Pattern and path_clean::clean are library models (differential), so the refinement is relative to them"],
        "assumptions": COMMON_ASSUME + ["the statement speaks about normalized relative paths and portable glob syntax; outside that only model = implementation and no-panic are checked"],
    },
    "C04": {
        "claim": "Exact characterisation of Metablock::verify (ok <=> signatures non-empty, t >= 1, t <= number of deduplicated entries that verify under an authorized key of that id), soundness with distinct-key witness, completeness under permutations, and independence of the HashMap iteration order are Lean theorems for all lists, thresholds, key types and validity oracles; tied to the code by a systematic scope plus random cases with real keys of every scheme and a ground-truth oracle.",
        "level_note": "Trusted: Lean kernel; ring's verification is the parameter `valid`; 'the signature of key A does not verify under key B / after a bit flip' is sampled with real keys, not proved.",
        "technique": 'Lean 4 theorems about an executable model + model/implementation correspondence check (differential run with property oracle)',
        "rule": "ops = vblock(t, authorized ids, entries with constructed validity) run through the public Metablock::verify on a block "
                "assembled as JSON with real signatures; distinct = distinct op line; non-trivial = non-empty signature list and t >= 1 "
                "(gets past both guards)",
        "exhaustive_note": "systematic scope given in generator_notes (all short signature lists x authorized sets x thresholds)",
        "trusted_base": ["ring signature verification = parameter `valid` of the theorems; HashMap iteration order = parameter `ord` "
                         "(any permutation)", "u32 arithmetic modelled in Nat (the only subtraction is guarded by the == 0 break)"],
        "partial": ["cryptographic negatives (wrong key, bit flip) are sampled, not proved"],
        "assumptions": COMMON_ASSUME,
    },
    "C05": {
        "lean_modules": ["InTotoModel.Props.C05", "InTotoModel.Props.C05Keys"],
        "claim": 'Lean theorems for all values: canon and the signed text are injective (distinct JSON values => distinct signed bytes); composed with the document codec model (Model/Codec.lean, tied to the serde derives by the C16 doc_dec differential): two different links, two different layouts, two different steps or inspections are never signed over the same bytes - every field is observable in the signed bytes: names, materials/products with every digest, environment, byproducts, commands, thresholds, rules, authorized key ids, readme, key table, expiry (to the second). Single-leaf edits of generated layouts/links (incl. control-character neighbours, LF vs backslash-n, expiry +-1s) are checked on the real code: the old signatures must be rejected and the ed25519 signature must change.',
        "level_note": 'Trusted: Lean kernel; unforgeability of the signature schemes (ring) for the "never verifies" reading; for layouts nothing is assumed any more (c05_distinct_layouts_distinct_signed_bytes_full): the expiry writer (model of chrono) and the key writer (Model/KeyJson.lean: hex, PEM, DER) are proved injective on what a layout can hold.',
        "technique": 'Lean 4 theorems about an executable model + model/implementation correspondence check (differential run with property oracle)',
        "rule": "cases = generated layouts/links; every single-leaf edit of their JSON (strings, numbers, arrays, object keys, "
                "expiry +-1s, LF vs backslash-n, quotes) that the parser accepts as a different value: the old signatures must "
                "not verify and the ed25519 signature must change; ops = signed(json) correspondence as in C11; non-trivial = "
                "reaches the signature primitive",
        "trusted_base": JSON_TB + ["'a signature made over one never verifies over the other' additionally rests on the "
                                   "unforgeability of the schemes (ring); the theorem covers the byte strings"],
        "partial": ["chrono, the pem crate and serde's derives are modelled and compared, not verified"],
        "assumptions": COMMON_ASSUME + ["values are canonical: maps are taken in key order, one entry per key (what BTreeMap/HashMap denote)"],
    },
    "C16": {
        "lean_modules": ["InTotoModel.Props.C16", "InTotoModel.Props.C16Keys", "InTotoModel.Props.C16Text"],
        "claim": "Lean theorems for all values: decode(encode x) = x for links, steps, inspections, layouts, signatures and signed blocks (Model/Codec.lean: the serde derives of Link/Step/Inspection/Layout with Layout::try_into/Signature/Metablock with the untagged MetadataWrapper, field types VirtualTargetPath, TargetDescription, KeyId, u32) and for the hand-written codecs (artifact rules in every form, commands, byproducts with the flattened extra map); the readers are faithful: the members a reader consumed are verbatim the encoding of the fields it returns (rule keyword and prefixes, threshold, digests in lower-case hex, key ids, command arguments, environment entries, type tags of steps/inspections), a written link is never read as a layout, a parsed key table only holds entries filed under the key's own id. Correspondence: the model's decode+encode is compared with serde_json::from_value + to_value on valid and mutated documents of all seven kinds (doc_dec), rule and byproducts readers on arbitrary token arrays/objects; every metadata type obtainable from the builders (including their defaults) is serialised in four ways (to_string, pretty, canonical, JsonPretty), parsed and compared (value and byte-identical re-serialisation); an accepted document must survive its own wire form. Text level (Props/C16Text.lean): serde_json's writers are modelled too (compact = Json.write, pretty printer = Model/JsonWrite.lean) and proved to emit a spelling of the value, so document -> value -> TEXT -> value -> document is the identity for links, layouts and signed files, written compactly, pretty-printed (what in_toto_run and JsonPretty::to_writer write) or formatted in any other way (every text that spells the encoded value, e.g. the reference implementations' separators and indentation); tie: doc_text compares the texts of to_string_pretty(&doc), to_string(&doc) (member order of every derive) and JsonPretty::to_writer with the model's, writetext the two writers on arbitrary values.",
        "level_note": "Trusted: Lean kernel; serde-derive semantics as encoded in Model/Wire.lean and Model/Codec.lean (validated by the doc_dec differential incl. mutations); no parameter is left: the public-key (de)serialiser is modelled (Model/KeyJson.lean: hex / PEM + DER material, scheme compatibility, ids recomputed with the model's SHA-256) like chrono's RFC 3339 reader/writer (Model/Time.lean); both are compared with the library on their own (key_dec, rfc3339 / fmttime) and inside whole documents (doc_dec receives nothing but the document). Two builder-obtainable boundary classes fail the full statement and are listed in known_findings.json.",
        "technique": 'Lean 4 theorems about an executable model + model/implementation correspondence check (differential run with property oracle)',
        "rule": "cases = generated values of every metadata type (all rule forms, optional prefixes, empty vs absent environment, extra byproducts, non-ASCII paths, 0-3 keys of all types, thresholds across u32, builder defaults) x four serialisations; ops = doc_dec (link/step/insp/sig/layout/meta/block) on valid documents and on 1-2 random mutations (member deleted/renamed/added, value of another shape, damaged hex / key id / algorithm name, other expiry spellings incl. offsets and fractions, key-table entries refiled), rule_dec / bp_dec on valid, mutated and random inputs; distinct = distinct op; non-trivial = objects / arrays with at least two tokens",
        "trusted_base": ["serde-derive: missing/null Option = None, unknown members ignored, flatten collects the rest, a collection fails as a whole (Model/Wire.lean, Model/Codec.lean; differential incl. mutations)", "impl Serialize / Deserialize for PublicKey as modelled in Model/KeyJson.lean (key_dec differential incl. mutations); the {\"Unknown\": s} form of SignatureScheme is outside the model", "chrono 0.4.45 parse_from_rfc3339 / to_rfc3339_opts(Secs, true): specification-level model in Model/Time.lean (rfc3339 / fmttime differential ops)"],
        "partial": ["ring's validation of key material and the {Unknown: s} scheme form are not modelled; the round trip is proved for whole-second expiries of the years 0000-9999 and key material below 60000 bytes", "known findings: reserved byproduct keys; expiry after year 9999"],
        "assumptions": COMMON_ASSUME + ["expiry at whole seconds, as the statement prescribes (enforced by LayoutMetadata::new since fix 04de89f)"],
    },
    "C17": {
        "claim": "The table of string requests made by the crate's hand-written decoders is regenerated from the source on every run; Lean proves that it contains no borrowed request and that a decoder making only owned requests is independent of channel and escape spelling; serde_json's text reader is modelled (Model/JsonText.lean: lexer + token parser with the recursion limit, surrogate pairs, number classification) and Lean proves that every spelling of a value - white space anywhere between tokens, every string character raw, by its two-character escape, as \\uXXXX in either hex case or as a surrogate pair - is read as that value (no bound on size; nesting below the recursion limit); every document type is decoded on the real code through eleven entry points (serde_json from_str / from_slice / from_reader / from_value, a reader that delivers one byte per call, Json:: and JsonPretty:: from_slice / from_reader / deserialize) and several spellings, valid and near-valid, which must agree.",
        "level_note": "Trusted: Lean kernel; the translator's regular expressions (fail closed: unclassifiable string-like requests are rejected by the theorem); the hand-written model of serde_json's text reader (tied to serde_json::from_str by the readtext differential on spelled, edited, numeral and deeply nested texts); serde's derive machinery is library code covered by the oracle.",
        "technique": "Lean 4 theorem over a table translated from the Rust source on every run + four-channel decoding oracle on the implementation",
        "translate": "strreq.py",
        "rule": "cases = generated layouts, links, signed blocks, keys, signatures, rules, steps, statements and predicates (plus perturbed / malformed ones) decoded via from_str, from_slice, from_reader (also one byte per call), from_value, Json:: and JsonPretty:: from_slice / from_reader / deserialize in compact, pretty and two re-spelled (escapes, whitespace, shuffled members) texts; distinct = distinct document type op; non-trivial = the document is accepted",
        "trusted_base": ["serde / serde_json channel behaviour as described in Model/Channel.lean (library behaviour)", "translate/strreq.py scanning rules", "serde_json 1.0 text grammar as encoded in Model/JsonText.lean (readtext differential)"],
        "partial": ["serde's derive machinery (visitor dispatch, Content buffering of untagged enums) is not modelled: the unbounded claims are about hand-written string requests and about the text reader; channel agreement of the derived decoders is the oracle", "floats in the decimal window 1e308 <= |x| < 1e309 (verdict depends on serde_json's float conversion) are outside the text-reader model"],
        "assumptions": COMMON_ASSUME,
    },
    "C18": {
        "lean_modules": ["InTotoModel.Props.C18", "InTotoModel.Props.C18Walk", "InTotoModel.Props.C18Record", "InTotoModel.Props.C18Digest"],
        "claim": "Lean proves, for all inputs: the strip rule cuts the longest listed prefix that matches; the artifact map never silently replaces one file by another (a key already filed for a different file is an error) and has distinct keys; the directory walk records exactly the reachable regular files - each of them and nothing else (Reach: a regular file that is a child, directly or through links, or reachable likewise from a child directory that is not a link back to a directory being visited; c18_walk_records_exactly_the_reachable_files, for every tree, depth and arrangement of links); record_artifacts as a whole (several arguments, strip prefixes, duplicate check): on success every argument was walked, every file found has an entry under its stripped key which is this very file, every entry is such a file (c18_record_artifacts); the streamed digest of calculate_hashes (a context per algorithm fed with whatever each read call returned) is the standard one-shot digest of the bytes read, for every way the reader cuts its input, with the size, and an error exactly when a read fails first or no algorithm is requested (c18_streamed_digest_is_the_digest_of_the_bytes, c18_calculate_hashes; generic in compression function and padding, instantiated for SHA-256 and SHA-512); in_toto_run records materials before and products after the command and returns the command's byproducts. Correspondence: record(tree, arguments, strips) on materialised random trees with links, cycles and links named as arguments, with an independent std::fs walk as oracle; calculate_hashes on readers that follow a schedule of portions (hashes op) with ring's one-shot digests as oracle; the link builder's add_material / add_product; in_toto_run in six variants (signing key, hash-algorithm selections, strip prefixes, empty command, non-zero exit status).",
        "level_note": "Trusted: Lean kernel; the operating system and walkdir as encoded in Model/Record.lean (validated by the record differential and the independent walk oracle); the SHA-256 / SHA-512 compression functions of the model are executable specifications compared with ring (sha256 / sha512 / hashes ops), the iteration over blocks and the streaming interface are proved; ring's Context is assumed to implement that interface.",
        "technique": 'Lean 4 theorems about an executable model + model/implementation correspondence check (differential run with property oracle)',
        "rule": "ops = lstrip(path, strips) through record_artifact on a real file; hashes(algorithms, reads) = calculate_hashes on a reader cutting 0..4096 bytes into full buffers / single bytes / short reads / block-size neighbours / an early end / a failing read, for no, one, repeated and both algorithms; record(tree, path arguments, strips) on materialised trees (depth <= 3, empty / small / 1020-1029-byte / multi-block files, names with spaces, Unicode, leading dots, absolute and relative links to files and directories, link chains, cycles, overlapping and non-normalised path arguments, links named as arguments before / after their directory, strip lists, sha256/sha512/unknown algorithm); in_toto_run checked every 5th tree in six variants; distinct = distinct op; all record ops are non-trivial",
        "trusted_base": ["OS file system semantics and walkdir 2 (follow_links, loop detection only when following a link): modelled in Model/Record.lean as an executable specification, validated differentially and by an independent std::fs walk",
                         "ring::digest::Context as an implementation of the incremental interface of Model/Md.lean; the compression functions and paddings of Model/Sha256.lean / Model/Sha512.lean are compared with ring, not proved against FIPS 180-4",
                         "process execution in in_toto_run (env.exec parameter)"],
        "partial": ["the walk theorems are about the model of the file system; that the OS and walkdir behave as modelled is the differential", "broken links are outside the generator (walkdir reports an error, the model too)"],
        "assumptions": COMMON_ASSUME,
    },
    "C19": {
        "lean_modules": ["InTotoModel.Props.C19", "InTotoModel.Props.C19Codec"],
        "claim": "Over the wire schemas (member names, field types, optionality, skip_serializing_if, deny_unknown_fields), the version string tables, the version detection order and the StateV01 consistency check, all translated from the source on every run, Lean proves: no member set is admitted by two predicate formats or by two statement formats (an accepted document is exactly one format version); the string tables are mutually inverse; a decoded v0.1 statement's declared type is the version of the contained predicate; and - for a codec generic in those schemas (Model/AttestCodec.lean) - decoding the encoding of every well-typed value returns it, for every field type and, through the untagged wrappers' version detection, for whole predicates and statements (the first accepting format is the value's own because the formats are disjoint). The codec model is compared with the real (de)serialisers on valid, mutated and re-notated documents (att_dec); round trips (canonical form parses back equal and byte-identical, timestamps keep instant and sub-second part), declared-type consistency and merge are also checked directly on the real code.",
        "level_note": "Trusted: Lean kernel; translate/schema.py (fails closed on any struct, field type, table or loop it cannot read); serde-derive's field handling as encoded in Model/AttestCodec.lean (validated by the att_dec differential incl. mutations); member types modelled elsewhere enter in normal form (artifact maps, commands, byproducts: Model/Codec.lean, Model/Wire.lean; timestamps: Model/Time.lean).",
        "technique": "Lean 4 theorems over tables translated from the Rust source on every run (kernel-checked well-formedness + generic round-trip and disjointness theorems) + model/implementation correspondence check + round-trip / consistency oracle on the implementation",
        "translate": "schema.py",
        "rule": "cases = generated Link v0.2 / SLSA v0.1 / v0.2 predicates, naive and v0.1 statements (declared type matching or not), perturbed and mutated documents (any node: member deleted / renamed / added, value of another shape, damaged string or number), timestamps in every RFC 3339 notation and invalid ones, and links merged into statements; ops = att_dec (decode through the untagged wrapper and write again), pred_fmt / stmt_fmt (format candidates by member names) and the version string tables; distinct = distinct op; non-trivial = the document is an object",
        "trusted_base": ["serde-derive semantics for struct members (Model/AttestCodec.lean; att_dec differential)", "chrono RFC 3339 parsing / AutoSi printing as modelled in Model/Time.lean (att_dec and timestamp ops)"],
        "partial": ["the normal-form property of timestamps (reading what AutoSi writes) is validated differentially, not proved; merge (from_meta) is oracle-only"],
        "assumptions": COMMON_ASSUME,
    },
    "C20": {
        "claim": 'Round trip unpack(pack(t,p)) = (p,t), injectivity of pack and panic-freedom of unpack are Lean theorems over all byte strings; the model is tied to pae_v1.rs by a differential run (random pairs, mutations, exhaustive framing-alphabet scope) and a direct oracle.',
        "level_note": 'Trusted: Lean kernel; hand-written model of pae_pack/pae_unpack validated differentially; str::from_utf8 abstracted as a predicate; usize = 64 bit.',
        "technique": 'Lean 4 theorems about an executable model + model/implementation correspondence check (differential run with property oracle)',
        "rule": "ops = pae_pack(type,payload) on generated pairs, pae_unpack on corpus, mutated encodings, random bytes, "
                "huge length fields and an exhaustive alphabet scope; distinct = distinct op line; non-trivial = pack ops and "
                "unpack inputs that carry the 'DSSEv1 ' prefix (get past the prefix guard)",
        "exhaustive_note": "pae_unpack on every byte string up to the length given in generator_notes over the framing alphabet "
                           "{' ',0,1,2,9,+,a} after the prefix (supports the correspondence; the unbounded claims are the theorems)",
        "trusted_base": [
            "str::from_utf8 is a parameter of the model (theorems hold for every predicate); the driver instantiates it with "
            "the RFC 3629 well-formedness test in Model/Utf8.lean",
            "usize is 64 bits; Vec::len() < 2^64 (hypotheses t.length, p.length < 2^64)",
        ],
        "partial": [],
        "assumptions": COMMON_ASSUME + ["trailing bytes after the declared payload are accepted by the code; the property does not forbid it"],
    },
}

# reasons for properties that are (currently) not claimed
NOT_CLAIMED = {}
