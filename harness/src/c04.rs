//! C04: `Metablock::verify` counts distinct authorized keys with valid signatures.
use crate::meta::{gen_link, key_pool, KeyInfo};
use crate::proto::{guarded, hex, Sink};
use crate::rng::Rng;
use crate::Cfg;
use in_toto::crypto::PublicKey;
use in_toto::models::{Metablock, MetadataWrapper};
use serde_json::{json, Value};
use std::collections::BTreeSet;

/// One signature entry of a case, with its constructed ground truth.
#[derive(Clone)]
pub struct Entry {
    pub label: String, // key id the entry claims
    pub sig: Vec<u8>,
    pub valid_under_label: bool, // constructed: made by the key with that id over this content, not corrupted
    pub class: &'static str,
}

pub fn keyid_hex(k: &PublicKey) -> String {
    serde_json::to_value(k.key_id()).unwrap().as_str().unwrap().to_string()
}

pub fn block_json(meta: &MetadataWrapper, entries: &[Entry]) -> Value {
    let sigs: Vec<Value> = entries.iter().map(|e| json!({"keyid": e.label, "sig": hex_raw(&e.sig)})).collect();
    json!({"signatures": sigs, "signed": serde_json::to_value(meta).unwrap()})
}

fn hex_raw(b: &[u8]) -> String {
    let h = hex(b);
    if h == "-" {
        String::new()
    } else {
        h
    }
}

pub fn valid_sig(meta: &MetadataWrapper, k: &KeyInfo) -> Vec<u8> {
    let mb = Metablock::new(meta.clone(), &[&k.key]).unwrap();
    mb.signatures[0].value().as_bytes().to_vec()
}

fn run_case(sink: &mut Sink, meta: &MetadataWrapper, entries: &[Entry], t: u32, auth: &[&KeyInfo], class: &str) -> Option<bool> {
    let j = block_json(meta, entries);
    let text = j.to_string();
    let mb: Metablock = match serde_json::from_str(&text) {
        Ok(m) => m,
        Err(_) => {
            sink.stat("block-json-rejected");
            return None;
        }
    };
    let keys: Vec<PublicKey> = auth.iter().map(|k| k.public().clone()).collect();
    let (mb2, keys2) = (mb.clone(), keys.clone());
    let res = guarded(move || mb2.verify(t, keys2.iter()));
    let ans = match &res {
        Err(()) => "panic",
        Ok(Ok(_)) => "ok",
        Ok(Err(_)) => "err",
    };
    // op for the model: labels as hex of the key id text, validity bit as constructed
    let mut op = format!("vblock {} A", t);
    for k in auth {
        op.push(' ');
        op.push_str(&keyid_hex(k.public()));
    }
    op.push_str(" S");
    for e in entries {
        op.push_str(&format!(" {}:{}", e.label, if e.valid_under_label { 1 } else { 0 }));
    }
    sink.op(&op, ans, !entries.is_empty() && t >= 1);
    sink.stat(&format!("{}/{}", class, ans));
    let replay = format!("{} // block {}", op, hex(text.as_bytes()));
    sink.oracle(ans != "panic", "verify panicked", &replay);
    // ---- direct oracle from the constructed ground truth
    let auth_ids: BTreeSet<String> = auth.iter().map(|k| keyid_hex(k.public())).collect();
    let good_ids: BTreeSet<&String> =
        entries.iter().filter(|e| e.valid_under_label && auth_ids.contains(&e.label)).map(|e| &e.label).collect();
    let count = good_ids.len() as u64;
    if ans == "ok" {
        sink.oracle(t >= 1, "verify succeeded with threshold 0", &replay);
        sink.oracle(count >= t as u64, "verify succeeded with fewer than t distinct authorized keys having a valid signature", &replay);
        if let Ok(Ok(m)) = &res {
            sink.oracle(*m == mb.metadata, "verify returned other content than the block's", &replay);
        }
    }
    let labels: Vec<&String> = entries.iter().map(|e| &e.label).collect();
    let unique = labels.iter().collect::<BTreeSet<_>>().len() == labels.len();
    if unique && t >= 1 && count >= t as u64 {
        sink.oracle(ans == "ok", "verify failed although t distinct authorized keys signed validly (each key once)", &replay);
    }
    Some(ans == "ok")
}

pub fn run(cfg: &Cfg) {
    let mut sink = Sink::new(&cfg.out);
    let mut r = Rng::new(cfg.seed);
    if cfg.replay.is_some() {
        sink.note("replay of C04 cases re-runs the generator with the recorded seed (cases embed real signatures)");
    }
    let pool = key_pool(1);

    // ---- systematic scope: 3 authorized candidates + 1 stranger, entries valid/invalid per key
    let meta = MetadataWrapper::Link(gen_link(&mut r, Some("step")));
    let ed: Vec<&KeyInfo> = pool.iter().filter(|k| k.deterministic()).collect();
    let (a, b, c, u) = (ed[0], ed[1], ed[2], ed[3]);
    let mk = |k: &KeyInfo, ok: bool| -> Entry {
        let mut sig = valid_sig(&meta, k);
        if !ok {
            sig[7] ^= 0x10;
        }
        Entry { label: keyid_hex(k.public()), sig, valid_under_label: ok, class: if ok { "valid" } else { "corrupted" } }
    };
    // a genuine signature of an authorized key listed under an id that is not its maker's: the
    // stranger's id, and an id no key has
    let relabel = |k: &KeyInfo, label: String| -> Entry {
        Entry { label, sig: valid_sig(&meta, k), valid_under_label: false, class: "relabelled" }
    };
    let symbols: Vec<Entry> = vec![mk(a, true), mk(a, false), mk(b, true), mk(b, false), mk(c, true), mk(c, false), mk(u, true),
        relabel(a, keyid_hex(u.public())), relabel(b, "ab".repeat(32))];
    let auth_sets: Vec<Vec<&KeyInfo>> = vec![vec![], vec![a], vec![a, b], vec![a, b, c], vec![a, a, b], vec![c, b, a]];
    let thresholds = [0u32, 1, 2, 3, 5, u32::MAX];
    let max_len = if cfg.thorough { 4 } else { 3 };
    let mut scope = 0u64;
    for len in 0..=max_len {
        let mut idx = vec![0usize; len];
        loop {
            let entries: Vec<Entry> = idx.iter().map(|&i| symbols[i].clone()).collect();
            for auth in &auth_sets {
                for &t in &thresholds {
                    run_case(&mut sink, &meta, &entries, t, auth, "scope");
                    scope += 1;
                }
            }
            let mut k = 0;
            while k < len {
                idx[k] += 1;
                if idx[k] < symbols.len() {
                    break;
                }
                idx[k] = 0;
                k += 1;
            }
            if k == len {
                break;
            }
        }
    }
    sink.note(&format!(
        "systematic scope: all signature lists of length <= {} over 9 entry kinds (valid/corrupted for 3 keys, valid by a stranger, a genuine signature relabelled with the stranger's id / with an id no key has) x {} authorized sets (incl. empty, duplicate, reordered) x thresholds {:?}: {} verifications",
        max_len,
        auth_sets.len(),
        thresholds,
        scope
    ));

    // ---- random cases over all schemes, with permutations
    let n = if cfg.thorough { 3000 } else { 300 };
    for _ in 0..n {
        let meta = MetadataWrapper::Link(gen_link(&mut r, None));
        let nk = 1 + r.below(4);
        let cand: Vec<&KeyInfo> = (0..nk).map(|_| r.pick(&pool)).collect();
        let mut entries: Vec<Entry> = vec![];
        for _ in 0..r.below(6) {
            let k = *r.pick(&cand);
            let e = match r.below(8) {
                0 | 1 | 2 => Entry { label: keyid_hex(k.public()), sig: valid_sig(&meta, k), valid_under_label: true, class: "valid" },
                3 => {
                    let mut s = valid_sig(&meta, k);
                    let i = r.below(s.len());
                    s[i] ^= 1 << r.below(8);
                    Entry { label: keyid_hex(k.public()), sig: s, valid_under_label: false, class: "bitflip" }
                }
                4 => {
                    // made by another key, filed under this key's id
                    let other = r.pick(&pool);
                    let same = keyid_hex(other.public()) == keyid_hex(k.public());
                    Entry { label: keyid_hex(k.public()), sig: valid_sig(&meta, other), valid_under_label: same, class: "mislabelled" }
                }
                5 => {
                    // valid signature over *other* content
                    let other_meta = MetadataWrapper::Link(gen_link(&mut r, None));
                    let same = other_meta == meta;
                    Entry { label: keyid_hex(k.public()), sig: valid_sig(&other_meta, k), valid_under_label: same, class: "other-content" }
                }
                6 if r.chance(1, 2) => Entry { label: hex(&r.bytes(32)), sig: valid_sig(&meta, k), valid_under_label: false, class: "relabelled" },
                6 => {
                    // the key's genuine signature over another rendering of the same content: the canonical
                    // JSON before it is made signable, the same with `\n` unescaped, plain or pretty serde_json
                    // text, the signable text plus a line feed. Only the signable text itself is what
                    // the content's signatures are made over.
                    let j = serde_json::to_value(&meta).unwrap();
                    let reference = crate::olpc::olpc(&j).unwrap_or_default();
                    let canonical = meta.to_bytes().unwrap_or_default();
                    let rendering: Vec<u8> = match r.below(5) {
                        0 => canonical.clone(),
                        1 => String::from_utf8_lossy(&canonical).replace("\\n", "\n").into_bytes(),
                        2 => serde_json::to_vec(&meta).unwrap(),
                        3 => serde_json::to_vec_pretty(&meta).unwrap(),
                        _ => {
                            let mut t = reference.clone();
                            t.push(b'\n');
                            t
                        }
                    };
                    let same = rendering == reference;
                    let sig = k.key.sign(&rendering).map(|s| s.value().as_bytes().to_vec()).unwrap_or_default();
                    Entry { label: keyid_hex(k.public()), sig, valid_under_label: same, class: if same { "same-rendering" } else { "other-rendering" } }
                }
                7 => Entry { label: hex(&r.bytes(32)), sig: r.bytes(64), valid_under_label: false, class: "unknown-id" },
                _ => Entry { label: keyid_hex(k.public()), sig: valid_sig(&meta, k), valid_under_label: true, class: "valid" },
            };
            sink.stat(&format!("entry/{}", e.class));
            entries.push(e);
        }
        // a key that signed twice with different validity makes the verdict depend on which duplicate
        // the map keeps; the property's converse is only about "each key signs at most once", and the
        // ground truth below is per *label*, so keep duplicates only when they agree in validity
        let mut seen: std::collections::BTreeMap<String, bool> = Default::default();
        entries.retain(|e| match seen.get(&e.label) {
            Some(v) => *v == e.valid_under_label,
            None => {
                seen.insert(e.label.clone(), e.valid_under_label);
                true
            }
        });
        let auth: Vec<&KeyInfo> = cand.iter().filter(|_| r.chance(3, 4)).cloned().collect();
        let t = *r.pick(&[0u32, 1, 1, 2, 2, 3, 4]);
        let first = run_case(&mut sink, &meta, &entries, t, &auth, "random");
        // permutations of signatures and keys must not change the verdict
        for _ in 0..2 {
            let mut e2 = entries.clone();
            for i in (1..e2.len()).rev() {
                let j = r.below(i + 1);
                e2.swap(i, j);
            }
            let mut a2 = auth.clone();
            for i in (1..a2.len()).rev() {
                let j = r.below(i + 1);
                a2.swap(i, j);
            }
            let again = run_case(&mut sink, &meta, &e2, t, &a2, "permuted");
            sink.oracle(again == first, "verdict changed under a permutation of signatures / keys", "see preceding vblock ops of this run");
        }
    }
    // ---- the right key over the wrong bytes: content whose renderings differ (line feeds, tabs, other
    //      control characters, backslashes, quotes in a name), signed by an authorized key over each
    //      rendering that is not the signed text - alone (threshold 1) and next to a genuine signature of
    //      another key (threshold 2)
    for (n, name) in ["a\nb", "tab\there", "back\\nslash", "cr\rlf", "ctl\u{1}\u{1f}", "quote\"q", "plain"].iter().enumerate() {
        let meta = MetadataWrapper::Link(gen_link(&mut r, Some(name)));
        let j = serde_json::to_value(&meta).unwrap();
        let reference = crate::olpc::olpc(&j).unwrap_or_default();
        let canonical = meta.to_bytes().unwrap_or_default();
        let mut with_lf = reference.clone();
        with_lf.push(b'\n');
        let renderings: Vec<Vec<u8>> = vec![canonical.clone(), String::from_utf8_lossy(&canonical).replace("\\n", "\n").into_bytes(),
            serde_json::to_vec(&meta).unwrap(), serde_json::to_vec_pretty(&meta).unwrap(), with_lf];
        let k = &pool[n % pool.len()];
        let other = &pool[(n + 1) % pool.len()];
        for rendering in renderings {
            if rendering == reference {
                continue;
            }
            let sig = k.key.sign(&rendering).map(|s| s.value().as_bytes().to_vec()).unwrap_or_default();
            let wrong = Entry { label: keyid_hex(k.public()), sig, valid_under_label: false, class: "other-rendering" };
            run_case(&mut sink, &meta, &[wrong.clone()], 1, &[k], "other-rendering");
            if keyid_hex(other.public()) != keyid_hex(k.public()) {
                let good = Entry { label: keyid_hex(other.public()), sig: valid_sig(&meta, other), valid_under_label: true, class: "valid" };
                run_case(&mut sink, &meta, &[good, wrong], 2, &[k, other], "other-rendering");
            }
        }
    }
    // ---- "returns exactly the content that was checked", on content built in memory that its own wire
    //      form does not give back: a layout whose key table files a key under another id (the public
    //      `keys` member takes it; a reader drops the entry), a link whose free-form byproducts use a member
    //      name the reader gives a meaning to. What is verified is the block as it is; what comes back is it.
    {
        use in_toto::crypto::KeyId;
        use std::str::FromStr;
        let k = ed[0];
        let other = ed[1];
        let mut odd: Vec<MetadataWrapper> = vec![];
        let mut l = crate::meta::gen_layout(&mut r, &pool);
        l.keys.insert(KeyId::from_str(&"ab".repeat(32)).unwrap(), other.public().clone());
        odd.push(MetadataWrapper::Layout(l));
        let mut l2 = crate::meta::gen_layout(&mut r, &pool);
        l2.keys.insert(k.public().key_id().clone(), other.public().clone());
        odd.push(MetadataWrapper::Layout(l2));
        for (name, value) in [("return-value", "not a number"), ("stdout-x", "free"), ("", "empty name")] {
            let mut link = gen_link(&mut r, Some("odd"));
            link.byproducts = in_toto::models::byproducts::ByProducts::new().set_other_field(name.to_string(), value.to_string());
            odd.push(MetadataWrapper::Link(link));
        }
        for meta in odd {
            let mb = match Metablock::new(meta.clone(), &[&k.key]) {
                Ok(m) => m,
                Err(_) => continue,
            };
            let replay = format!("in-memory block {}", serde_json::to_string(&mb).unwrap_or_default());
            let (mb2, key) = (mb.clone(), k.public().clone());
            let res = guarded(move || mb2.verify(1, [&key]));
            sink.stat(&format!("in-memory/{}", match &res { Err(()) => "panic", Ok(Ok(_)) => "ok", Ok(Err(_)) => "ERR" }));
            match res {
                Err(()) => sink.oracle(false, "verify panicked", &replay),
                Ok(Err(_)) => sink.oracle(false, "verify failed although the one authorized key signed the block validly (threshold 1)", &replay),
                Ok(Ok(m)) => sink.oracle(m == meta, "verify returned other content than the block's", &replay),
            }
        }
    }
    // ---- authorized keys as a consumer obtains them: read from key descriptions (a layout's key table,
    //      a key file). One key described twice - once truthfully, once with another `keyid` member,
    //      other hash-algorithm list or other member order - is still one key: its signature, listed
    //      under every id involved, counts once.
    for k in pool.iter() {
        let truthful = serde_json::to_value(k.public()).unwrap();
        let own_id = keyid_hex(k.public());
        let mut variants: Vec<Value> = vec![];
        for fake in [keyid_hex(u.public()), "cd".repeat(32), own_id.to_uppercase()] {
            let mut v = truthful.clone();
            v["keyid"] = Value::String(fake);
            variants.push(v);
        }
        let mut v = truthful.clone();
        v.as_object_mut().unwrap().remove("keyid");
        variants.push(v);
        for v in variants {
            let parsed: PublicKey = match guarded({ let v2 = v.clone(); move || serde_json::from_value::<PublicKey>(v2) }) {
                Ok(Ok(p)) => p,
                _ => continue,
            };
            let sig = valid_sig(&meta, k);
            let ids: BTreeSet<String> = [own_id.clone(), keyid_hex(&parsed), v.get("keyid").and_then(|x| x.as_str()).unwrap_or(&own_id).to_string()].into_iter().filter(|x| x.len() == 64).collect();
            let entries: Vec<Entry> = ids.iter().map(|id| Entry { label: id.clone(), sig: sig.clone(), valid_under_label: *id == own_id, class: "alias" }).collect();
            let j = block_json(&meta, &entries);
            let mb: Metablock = match serde_json::from_value(j.clone()) {
                Ok(m) => m,
                Err(_) => continue,
            };
            let keys = vec![k.public().clone(), parsed.clone()];
            let res = guarded(move || mb.verify(2, keys.iter()).is_ok());
            sink.stat(&format!("described-twice/{}", match res { Ok(true) => "ACCEPTED", Ok(false) => "rejected", Err(()) => "panic" }));
            sink.oracle(res == Ok(false), "one key described twice (another keyid member) is counted as two signers", &format!("key {} description {} block {}", k.label, v, j));
            // and the key read from a description is the key: same id, equal value
            sink.oracle(keyid_hex(&parsed) == own_id && parsed == *k.public(), "a key read from its description has another id than its material determines", &format!("key {} description {}", k.label, v));
        }
    }
    // ---- authorized keys whose declared scheme is not the one their material belongs to (the public
    //      constructors that take a scheme accept any): such a key verifies with the algorithm it
    //      declares, so a signature made with the material's real algorithm - listed under the id of the
    //      mis-declared key - is not a valid signature of that key and must not count, alone or next
    //      to the genuine key
    {
        use in_toto::crypto::{KeyType, SignatureScheme};
        let schemes = [SignatureScheme::Ed25519, SignatureScheme::RsaSsaPssSha256, SignatureScheme::RsaSsaPssSha512, SignatureScheme::EcdsaP256Sha256, SignatureScheme::Unknown("ecdsa-sha2-nistp384".into())];
        for k in pool.iter() {
            for scheme in &schemes {
                if scheme == k.public().scheme() {
                    continue;
                }
                let mut declared: Vec<PublicKey> = vec![];
                if *k.public().typ() == KeyType::Ecdsa {
                    for algs in [None, Some(vec!["sha256".to_string(), "sha512".to_string()])] {
                        let (b, sc) = (k.public().as_bytes().to_vec(), scheme.clone());
                        if let Ok(Ok(p)) = guarded(move || PublicKey::from_ecdsa_with_keyid_hash_algorithm(b, sc, algs)) {
                            declared.push(p);
                        }
                    }
                }
                {
                    let (der, sc) = (k.pk8.clone(), scheme.clone());
                    if let Ok(Ok(sk)) = guarded(move || in_toto::crypto::PrivateKey::from_pkcs8(&der, sc)) {
                        declared.push(sk.public().clone());
                    }
                }
                // (through the SubjectPublicKeyInfo importer, which takes the scheme from the caller too)
                if let Ok(Ok(spki)) = guarded({ let pk = k.public().clone(); move || pk.as_spki() }) {
                    let sc = scheme.clone();
                    if let Ok(Ok(p)) = guarded(move || PublicKey::from_spki(&spki, sc)) {
                        declared.push(p);
                    }
                }
                for p in declared {
                    if p.scheme() == k.public().scheme() {
                        continue;
                    }
                    let sig = valid_sig(&meta, k);
                    for (entries, keys, t, what) in [
                        (vec![Entry { label: keyid_hex(&p), sig: sig.clone(), valid_under_label: false, class: "misdeclared" }], vec![p.clone()], 1u32, "alone"),
                        (vec![Entry { label: keyid_hex(&p), sig: sig.clone(), valid_under_label: false, class: "misdeclared" }, Entry { label: keyid_hex(k.public()), sig: sig.clone(), valid_under_label: true, class: "valid" }], vec![p.clone(), k.public().clone()], 2u32, "next to the genuine key"),
                    ] {
                        let j = block_json(&meta, &entries);
                        let mb: Metablock = match serde_json::from_value(j.clone()) {
                            Ok(m) => m,
                            Err(_) => continue,
                        };
                        let res = guarded(move || mb.verify(t, keys.iter()).is_ok());
                        sink.stat(&format!("misdeclared-scheme/{}/{}", what, match res { Ok(true) => "ACCEPTED", Ok(false) => "rejected", Err(()) => "panic" }));
                        sink.oracle(res == Ok(false), &format!("a signature made with the material's real algorithm counts for a key that declares another scheme ({})", what), &format!("key {} declared as {:?}; threshold {} block {}", k.label, p.scheme(), t, j));
                    }
                    // the converse: an authorized key that cannot verify anything (its declared scheme does not
                    // fit its material, or is not known at all) has a signature listed under its id - that
                    // entry does not count, and it takes nothing away either: the genuine key's valid
                    // signature still meets threshold 1, whichever entry the map yields first
                    for round in 0..4 {
                        let entries = vec![Entry { label: keyid_hex(&p), sig: sig.clone(), valid_under_label: false, class: "misdeclared" }, Entry { label: keyid_hex(k.public()), sig: sig.clone(), valid_under_label: true, class: "valid" }];
                        let j = block_json(&meta, &entries);
                        let mb: Metablock = match serde_json::from_value(j.clone()) {
                            Ok(m) => m,
                            Err(_) => continue,
                        };
                        let keys = if round % 2 == 0 { vec![p.clone(), k.public().clone()] } else { vec![k.public().clone(), p.clone()] };
                        let res = guarded(move || mb.verify(1, keys.iter()).is_ok());
                        sink.stat(&format!("unusable-key-next-to-a-signer/{}", match res { Ok(true) => "accepted", Ok(false) => "REJECTED", Err(()) => "panic" }));
                        sink.oracle(res == Ok(true), "verify failed although one authorized key signed validly (threshold 1; another authorized key, unusable, has an entry under its id)", &format!("key {} next to itself declared as {:?}; threshold 1 block {}", k.label, p.scheme(), j));
                    }
                }
            }
        }
    }
    // ---- randomised schemes: every length a valid signature can have. An ECDSA P-256 signature is a DER pair of
    //      minimal integers - 70 to 72 bytes as a rule, shorter when r or s begins with zero bytes (about one in
    //      128 is 69 bytes or less); sign until each length from 68 to 72 has been seen, verify each
    for k in pool.iter().filter(|k| k.scheme == in_toto::crypto::SignatureScheme::EcdsaP256Sha256).take(2) {
        let content = MetadataWrapper::Link(gen_link(&mut r, Some("step")));
        let mut seen: BTreeSet<usize> = BTreeSet::new();
        for _ in 0..(if cfg.thorough { 60_000 } else { 12_000 }) {
            let sig = valid_sig(&content, k);
            if !seen.insert(sig.len()) {
                continue;
            }
            let e = Entry { label: keyid_hex(k.public()), sig, valid_under_label: true, class: "valid" };
            run_case(&mut sink, &content, &[e], 1, &[k], "ecdsa-signature-length");
            if seen.len() >= 5 {
                break;
            }
        }
        sink.stat(&format!("ecdsa-signature-lengths-seen={:?}", seen));
    }
    // ---- signatures that verified a moment ago, over other content: a block is verified (successfully), then
    //      another block - other content - that lists the very same entries (same key ids, same signature
    //      values). What verified over the first content is no signature over the second; with two keys and
    //      threshold 2 likewise, and once more the first block afterwards (still fine)
    for round in 0..(if cfg.thorough { 40 } else { 6 }) {
        let k1 = &pool[round % pool.len()];
        let k2 = &pool[(round + 1) % pool.len()];
        if keyid_hex(k1.public()) == keyid_hex(k2.public()) {
            continue;
        }
        let first = MetadataWrapper::Link(gen_link(&mut r, Some("step")));
        let second = MetadataWrapper::Link(gen_link(&mut r, Some("step")));
        if first == second {
            continue;
        }
        let e1 = Entry { label: keyid_hex(k1.public()), sig: valid_sig(&first, k1), valid_under_label: true, class: "valid" };
        let e2 = Entry { label: keyid_hex(k2.public()), sig: valid_sig(&first, k2), valid_under_label: true, class: "valid" };
        run_case(&mut sink, &first, &[e1.clone()], 1, &[k1], "transplant/first-block");
        run_case(&mut sink, &first, &[e1.clone(), e2.clone()], 2, &[k1, k2], "transplant/first-block");
        let t1 = Entry { valid_under_label: false, class: "transplanted", ..e1.clone() };
        let t2 = Entry { valid_under_label: false, class: "transplanted", ..e2.clone() };
        run_case(&mut sink, &second, &[t1.clone()], 1, &[k1], "transplant/other-content");
        run_case(&mut sink, &second, &[t1.clone(), t2.clone()], 2, &[k1, k2], "transplant/other-content");
        run_case(&mut sink, &second, &[t1.clone(), t2.clone()], 1, &[k1, k2], "transplant/other-content");
        run_case(&mut sink, &first, &[e1.clone(), e2.clone()], 2, &[k1, k2], "transplant/first-block-again");
    }
    // ---- duplicate key id with different validity: recorded observation (outside the statement)
    let dup = vec![mk(a, true), mk(a, false)];
    let pud = vec![mk(a, false), mk(a, true)];
    let r1 = run_case(&mut sink, &meta, &dup, 1, &[a], "dup-good-then-bad");
    let r2 = run_case(&mut sink, &meta, &pud, 1, &[a], "dup-bad-then-good");
    sink.note(&format!("observation (outside the statement): one key id with a valid and an invalid signature: [good,bad] -> {:?}, [bad,good] -> {:?} (the last duplicate wins)", r1, r2));
    sink.finish(&cfg.out, serde_json::json!({"exhaustive_scope": scope}));
}
