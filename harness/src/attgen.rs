//! Generators of attestation documents (statements and predicates) as JSON values.
use crate::jsongen::gen_string;
use crate::rng::Rng;
use serde_json::{json, Map, Value};

pub const PRED_TYPES: &[&str] = &["https://in-toto.io/Link/v0.2", "https://slsa.dev/provenance/v0.1", "https://slsa.dev/provenance/v0.2"];

macro_rules! opt {
    ($r:expr, $m:expr, $k:expr, $v:expr) => {{
        let v = $v;
        if $r.chance(1, 2) {
            $m.insert($k.to_string(), v);
        }
    }};
}

pub fn gen_digest_map(r: &mut Rng) -> Value {
    let mut m = Map::new();
    if r.chance(2, 3) {
        m.insert("sha256".into(), Value::String(crate::proto::hex(&r.bytes(32))));
    }
    if r.chance(1, 3) {
        m.insert("sha512".into(), Value::String(crate::proto::hex(&r.bytes(64))));
    }
    Value::Object(m)
}

pub fn gen_artifacts(r: &mut Rng) -> Value {
    let mut m = Map::new();
    for _ in 0..r.below(3) {
        m.insert(crate::meta::gen_path(r), gen_digest_map(r));
    }
    Value::Object(m)
}

pub fn gen_byproducts(r: &mut Rng) -> Value {
    let mut m = Map::new();
    opt!(r, m, "return-value", json!(*r.pick(&[0, 1, -1, 255])));
    opt!(r, m, "stdout", Value::String(gen_string(r)));
    opt!(r, m, "stderr", Value::String(gen_string(r)));
    if r.chance(1, 4) {
        m.insert(format!("x{}", gen_string(r)), Value::String(gen_string(r)));
    }
    Value::Object(m)
}

pub fn gen_env(r: &mut Rng) -> Option<Value> {
    match r.below(4) {
        0 => None,
        1 => Some(Value::Null),
        2 => Some(json!({})),
        _ => Some(json!({ gen_string(r): gen_string(r) })),
    }
}

pub fn gen_command(r: &mut Rng) -> Value {
    Value::Array((0..r.below(3)).map(|_| Value::String(gen_string(r))).collect())
}

pub fn gen_timestamp(r: &mut Rng) -> String {
    let base = *r.pick(&["2020-08-19T08:38:00", "1970-01-01T00:00:00", "2038-01-19T03:14:07", "9999-12-31T23:59:59", "2016-12-31T23:59:60", "2024-02-29T12:00:00"]);
    let frac = *r.pick(&["", "", "", ".5", ".123456789", ".000", ".0005", ".000001", ".000000001", ".999999999", ".001", ".0009", ".100000001"]);
    let zone = *r.pick(&["Z", "Z", "+00:00", "-00:00", "+02:00", "-08:00", "+05:30", "+14:00", "z"]);
    format!("{}{}{}", base, frac, zone)
}

pub fn gen_link_v02(r: &mut Rng) -> Value {
    let mut m = Map::new();
    m.insert("name".into(), Value::String(gen_string(r)));
    m.insert("materials".into(), gen_artifacts(r));
    if let Some(e) = gen_env(r) {
        m.insert("env".into(), e);
    }
    m.insert("command".into(), gen_command(r));
    m.insert("byproducts".into(), gen_byproducts(r));
    Value::Object(m)
}

fn gen_slsa_metadata(r: &mut Rng) -> Value {
    let mut m = Map::new();
    opt!(r, m, "buildInvocationId", Value::String(gen_string(r)));
    opt!(r, m, "buildStartedOn", Value::String(gen_timestamp(r)));
    opt!(r, m, "buildFinishedOn", Value::String(gen_timestamp(r)));
    if r.chance(1, 2) {
        let mut c = Map::new();
        opt!(r, c, "arguments", json!(r.chance(1, 2)));
        opt!(r, c, "environment", json!(r.chance(1, 2)));
        opt!(r, c, "materials", json!(r.chance(1, 2)));
        m.insert("completeness".into(), Value::Object(c));
    }
    opt!(r, m, "reproducible", json!(r.chance(1, 2)));
    Value::Object(m)
}

fn gen_slsa_materials(r: &mut Rng) -> Value {
    Value::Array(
        (0..r.below(3))
            .map(|_| {
                let mut m = Map::new();
                opt!(r, m, "uri", Value::String(gen_string(r)));
                opt!(r, m, "digest", json!({"sha1": "d6525c840a62b398424a78d792f457477135d0cf"}));
                Value::Object(m)
            })
            .collect(),
    )
}

pub fn gen_slsa_v01(r: &mut Rng) -> Value {
    let mut m = Map::new();
    m.insert("builder".into(), json!({"id": gen_string(r)}));
    if r.chance(1, 2) {
        let mut rec = Map::new();
        rec.insert("type".into(), Value::String(gen_string(r)));
        // (an index: small as a rule, now and then at the edges of what the member's type holds)
        let dim: u64 = match r.below(8) {
            0 => u64::MAX,
            1 => 1u64 << 63,
            2 => (1u64 << 63) - 1,
            3 => u32::MAX as u64 + 1,
            _ => r.below(5) as u64,
        };
        opt!(r, rec, "definedInMaterial", json!(dim));
        opt!(r, rec, "entryPoint", Value::String(gen_string(r)));
        opt!(r, rec, "arguments", Value::String(gen_string(r)));
        opt!(r, rec, "environment", Value::String(gen_string(r)));
        m.insert("recipe".into(), Value::Object(rec));
    }
    if r.chance(1, 2) {
        m.insert("metadata".into(), gen_slsa_metadata(r));
    }
    if r.chance(1, 2) {
        m.insert("materials".into(), gen_slsa_materials(r));
    }
    Value::Object(m)
}

pub fn gen_slsa_v02(r: &mut Rng) -> Value {
    let mut m = Map::new();
    m.insert("builder".into(), json!({"id": gen_string(r)}));
    m.insert("buildType".into(), Value::String(gen_string(r)));
    if r.chance(1, 2) {
        let mut inv = Map::new();
        if r.chance(1, 2) {
            let mut cs = Map::new();
            opt!(r, cs, "uri", Value::String(gen_string(r)));
            opt!(r, cs, "digest", json!({"sha1": "00"}));
            opt!(r, cs, "entryPoint", Value::String(gen_string(r)));
            inv.insert("configSource".into(), Value::Object(cs));
        }
        opt!(r, inv, "parameters", Value::String(gen_string(r)));
        opt!(r, inv, "environment", Value::String(gen_string(r)));
        m.insert("invocation".into(), Value::Object(inv));
    }
    opt!(r, m, "buildConfig", Value::String(gen_string(r)));
    if r.chance(1, 2) {
        m.insert("metadata".into(), gen_slsa_metadata(r));
    }
    if r.chance(1, 2) {
        m.insert("materials".into(), gen_slsa_materials(r));
    }
    Value::Object(m)
}

/// (format index, predicate)
pub fn gen_predicate(r: &mut Rng) -> (usize, Value) {
    match r.below(3) {
        0 => (0, gen_link_v02(r)),
        1 => (1, gen_slsa_v01(r)),
        _ => (2, gen_slsa_v02(r)),
    }
}

pub fn gen_naive(r: &mut Rng) -> Value {
    let mut m = Map::new();
    // (`_type`: the format's own string, the other statement format's, or anything)
    m.insert("_type".into(), Value::String(match r.below(5) { 0 => gen_string(r), 1 => "https://in-toto.io/Statement/v0.1".into(), _ => "link".into() }));
    m.insert("name".into(), Value::String(gen_string(r)));
    m.insert("materials".into(), gen_artifacts(r));
    m.insert("products".into(), gen_artifacts(r));
    if let Some(e) = gen_env(r) {
        m.insert("env".into(), e);
    }
    m.insert("command".into(), gen_command(r));
    m.insert("byproducts".into(), gen_byproducts(r));
    Value::Object(m)
}

/// statement v0.1 with a declared predicate type that may or may not name the contained format
pub fn gen_v01(r: &mut Rng) -> (Value, usize, usize) {
    let (fmt, pred) = gen_predicate(r);
    let declared = if r.chance(2, 3) { fmt } else { r.below(3) };
    let v = json!({
        "_type": match r.below(5) { 0 => gen_string(r), 1 => "link".to_string(), _ => "https://in-toto.io/Statement/v0.1".to_string() },
        "subject": gen_artifacts(r),
        "predicateType": PRED_TYPES[declared],
        "predicate": pred,
    });
    (v, fmt, declared)
}

/// inject an unknown field somewhere / drop a required one
pub fn perturb(v: &Value, r: &mut Rng) -> Value {
    let mut v = v.clone();
    if let Value::Object(m) = &mut v {
        match r.below(3) {
            0 => {
                m.insert("unknown_field".into(), json!(1));
            }
            1 => {
                if let Some(k) = m.keys().next().cloned() {
                    m.remove(&k);
                }
            }
            _ => {
                if let Some(Value::Object(inner)) = m.values_mut().find(|x| x.is_object()) {
                    inner.insert("unknown_inner".into(), json!("x"));
                }
            }
        }
    }
    v
}
