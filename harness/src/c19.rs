//! C19: attestation statements and predicates.
use crate::attgen::{self, PRED_TYPES};
use crate::jsongen::proto;
use crate::meta::gen_link;
use crate::model::Model;
use crate::proto::{guarded, Sink};
use crate::rng::Rng;
use crate::Cfg;
use in_toto::interchange::{DataInterchange, Json};
use in_toto::models::{PredicateLayout, PredicateVer, PredicateWrapper, StatementVer, StatementWrapper};
use serde_json::Value;
use std::convert::TryFrom;

fn keys_tok(v: &Value) -> String {
    match v {
        Value::Object(m) => {
            let ks: Vec<String> = m.keys().map(|k| crate::proto::hexs(k)).collect();
            format!("{} {}", ks.len(), ks.join(" ")).trim_end().to_string()
        }
        _ => "0".to_string(),
    }
}

fn pred_name(v: PredicateVer) -> &'static str {
    match v {
        PredicateVer::LinkV0_2 => "LinkV02",
        PredicateVer::SLSAProvenanceV0_1 => "SLSAProvenanceV01",
        PredicateVer::SLSAProvenanceV0_2 => "SLSAProvenanceV02",
    }
}

/// canonical bytes of a value's serialisation
fn canon<T: serde::Serialize>(x: &T) -> Option<Vec<u8>> {
    Json::canonicalize(&Json::serialize(x).ok()?).ok()
}

/// value-level codec: decode through the untagged wrapper and write again, on both sides
fn att_dec_case<T: serde::de::DeserializeOwned + serde::Serialize + 'static>(sink: &mut Sink, kind: &str, doc: &Value, class: &str) {
    let op = format!("att_dec {} {}", kind, proto(doc, &mut None));
    let d = doc.clone();
    let ans = match guarded(move || serde_json::from_value::<T>(d)) {
        Err(()) => return,
        Ok(Err(_)) => "reject".to_string(),
        Ok(Ok(v)) => match serde_json::to_value(&v) {
            Ok(j) => format!("ok {}", proto(&j, &mut None)),
            Err(_) => return,
        },
    };
    sink.stat(&format!("att_dec/{}/{}/{}", kind, class, ans.split(' ').next().unwrap()));
    sink.op(&op, &ans, doc.is_object());
}

/// puts `stamp` into the first `buildStartedOn` / `buildFinishedOn` member found (or adds a metadata block)
fn set_timestamp(v: &mut Value, stamp: &str) -> bool {
    match v {
        Value::Object(m) => {
            for k in ["buildStartedOn", "buildFinishedOn"] {
                if m.contains_key(k) {
                    m.insert(k.to_string(), Value::String(stamp.to_string()));
                    return true;
                }
            }
            if m.contains_key("builder") && !m.contains_key("metadata") {
                m.insert("metadata".into(), serde_json::json!({"buildFinishedOn": stamp}));
                return true;
            }
            m.values_mut().any(|x| set_timestamp(x, stamp))
        }
        Value::Array(xs) => xs.iter_mut().any(|x| set_timestamp(x, stamp)),
        _ => false,
    }
}

fn predicate_case(sink: &mut Sink, model: &mut Model, doc: &Value, class: &str) {
    att_dec_case::<PredicateWrapper>(sink, "predicate", doc, class);
    let replay = format!("pred {}", proto(doc, &mut None));
    let d = doc.clone();
    let parsed = guarded(move || serde_json::from_value::<PredicateWrapper>(d));
    let op = format!("pred_fmt {}", keys_tok(doc));
    let candidates = model.ask(&op);
    match parsed {
        Err(()) => sink.oracle(false, "predicate parser panicked", &replay),
        Ok(Err(_)) => {
            sink.stat(&format!("{}/rejected", class));
            sink.op(&op, &candidates, false);
        }
        Ok(Ok(p)) => {
            let ver = p.clone().into_trait().version();
            sink.stat(&format!("{}/accepted-{}", class, pred_name(ver)));
            // exactly one format: the model's candidate set (from the schema field names) has at most
            // one element (theorem) and the accepting format must be it
            sink.op(&op, pred_name(ver), true);
            // each individual format parser: exactly one accepts
            let n = [
                serde_json::from_value::<in_toto::models::PredicateWrapper>(doc.clone()).is_ok() as u32,
            ];
            let _ = n;
            {
                let d2 = doc.clone();
                let judged = guarded(move || PredicateWrapper::judge_from_value(&d2)).ok().and_then(|x| x.ok());
                let d3 = doc.clone();
                let tried = guarded(move || PredicateWrapper::try_from_value(d3)).ok().and_then(|x| x.ok());
                sink.oracle(judged == Some(ver), "judge_from_value names another predicate version than the one the document is read as", &replay);
                sink.oracle(tried.as_ref() == Some(&p), "try_from_value reads a predicate differently than Deserialize does", &replay);
            }
            // the crate's own interface gives the same canonical form, and converts back to the same wrapper
            {
                let p2 = p.clone();
                let tb = guarded(move || p2.into_trait().to_bytes());
                sink.oracle(matches!(&tb, Ok(Ok(b)) if Some(&b[..]) == canon(&p).as_deref()), "to_bytes of an accepted predicate fails or is not the canonical form of its serialisation", &replay);
                sink.oracle(p.clone().into_trait().into_enum() == p, "a predicate changes when converted to its trait object and back", &replay);
            }
            // serialises to a canonical form that parses back to an equal value, byte-identically
            match canon(&p) {
                None => sink.oracle(false, "accepted predicate cannot be serialised canonically", &replay),
                Some(bytes) => match serde_json::from_slice::<PredicateWrapper>(&bytes) {
                    Err(_) => sink.oracle(false, "canonical form of an accepted predicate does not parse back", &replay),
                    Ok(back) => {
                        sink.oracle(back == p, "predicate changes in a serialise/parse round trip", &replay);
                        sink.oracle(back.clone().into_trait().version() == ver, "predicate changes format version in a round trip", &replay);
                        sink.oracle(canon(&back).as_deref() == Some(&bytes[..]), "second serialisation of a predicate is not byte-identical", &replay);
                        // timestamps included: the text of every timestamp must denote the same instant
                        // and keep sub-second precision
                        timestamps_preserved(sink, doc, &serde_json::from_slice::<Value>(&bytes).unwrap(), &replay);
                    }
                },
            }
        }
    }
}

fn collect_ts(v: &Value, out: &mut Vec<String>) {
    match v {
        Value::Object(m) => {
            for (k, x) in m {
                if k == "buildStartedOn" || k == "buildFinishedOn" {
                    if let Value::String(s) = x {
                        out.push(s.clone());
                    }
                } else {
                    collect_ts(x, out);
                }
            }
        }
        Value::Array(xs) => xs.iter().for_each(|x| collect_ts(x, out)),
        _ => {}
    }
}

fn timestamps_preserved(sink: &mut Sink, before: &Value, after: &Value, replay: &str) {
    let (mut a, mut b) = (vec![], vec![]);
    collect_ts(before, &mut a);
    collect_ts(after, &mut b);
    if a.len() != b.len() {
        sink.oracle(false, "a timestamp disappeared in a round trip", replay);
        return;
    }
    for (x, y) in a.iter().zip(b.iter()) {
        let px = chrono::DateTime::parse_from_rfc3339(x);
        let py = chrono::DateTime::parse_from_rfc3339(y);
        match (px, py) {
            (Ok(px), Ok(py)) => sink.oracle(px == py, "a timestamp denotes another instant after a round trip (sub-second part lost)", replay),
            _ => sink.oracle(false, "a timestamp is unreadable after a round trip", replay),
        }
    }
}

fn statement_case(sink: &mut Sink, model: &mut Model, doc: &Value, declared_vs_actual: Option<(usize, usize)>, class: &str) {
    att_dec_case::<StatementWrapper>(sink, "statement", doc, class);
    let replay = format!("stmt {}", proto(doc, &mut None));
    let d = doc.clone();
    let parsed = guarded(move || serde_json::from_value::<StatementWrapper>(d));
    let op = format!("stmt_fmt {}", keys_tok(doc));
    let candidates = model.ask(&op);
    match parsed {
        Err(()) => sink.oracle(false, "statement parser panicked", &replay),
        Ok(Err(_)) => {
            sink.stat(&format!("{}/rejected", class));
            sink.op(&op, &candidates, false);
            let d2 = doc.clone();
            let judged = guarded(move || StatementWrapper::judge_from_value(&d2)).ok().and_then(|x| x.ok());
            sink.oracle(judged.is_none(), "judge_from_value names a version for a statement that no reader accepts", &replay);
        }
        Ok(Ok(s)) => {
            let name = match &s {
                StatementWrapper::Naive(_) => "StateNaive",
                StatementWrapper::V0_1(_) => "StateV01",
            };
            sink.stat(&format!("{}/accepted-{}", class, name));
            sink.op(&op, name, true);
            // the declared predicate type names the format actually contained
            if let Some((actual, declared)) = declared_vs_actual {
                if name == "StateV01" {
                    sink.oracle(actual == declared, "accepted a statement whose predicateType names another format than the predicate it contains", &replay);
                }
            }
            if name == "StateV01" {
                // directly: the predicateType string in the accepted document vs the contained predicate's version
                if let Ok(p) = serde_json::from_value::<PredicateWrapper>(doc["predicate"].clone()) {
                    let actual: String = p.into_trait().version().into();
                    sink.oracle(doc["predicateType"].as_str() == Some(actual.as_str()), "predicateType differs from the version of the contained predicate", &replay);
                }
            }
            // canonical round trip of the wrapper itself
            match canon(&s) {
                None => sink.oracle(false, "accepted statement cannot be serialised canonically", &replay),
                Some(bytes) => match serde_json::from_slice::<StatementWrapper>(&bytes) {
                    Err(_) => sink.oracle(false, "canonical form of an accepted statement does not parse back", &replay),
                    Ok(back) => {
                        sink.oracle(back == s, "statement changes in a serialise/parse round trip", &replay);
                        sink.oracle(canon(&back).as_deref() == Some(&bytes[..]), "second serialisation of a statement is not byte-identical", &replay);
                    }
                },
            }
            // and through the trait object (`to_bytes`)
            let tb = s_to_bytes(doc);
            match tb {
                None => sink.oracle(false, "to_bytes failed for an accepted statement", &replay),
                Some(bytes) => match serde_json::from_slice::<StatementWrapper>(&bytes) {
                    Err(_) => sink.oracle(false, "to_bytes output of an accepted statement does not parse back", &replay),
                    Ok(back) => {
                        sink.oracle(back == s, "statement changes in a to_bytes/parse round trip", &replay);
                        sink.oracle(canon(&s).as_deref() == Some(&bytes[..]), "to_bytes of a statement is not the canonical form of its serialisation", &replay);
                    }
                },
            }
            // the crate's two entry points for "which format is this" agree: `judge_from_value` names the
            // version that `try_from_value` (and `Deserialize`) read the document as
            {
                let d2 = doc.clone();
                let judged = guarded(move || StatementWrapper::judge_from_value(&d2)).ok().and_then(|x| x.ok());
                let d3 = doc.clone();
                let tried = guarded(move || StatementWrapper::try_from_value(d3)).ok().and_then(|x| x.ok());
                let want = if name == "StateV01" { StatementVer::V0_1 } else { StatementVer::Naive };
                sink.oracle(judged == Some(want), "judge_from_value names another statement version than the one the document is read as", &replay);
                sink.oracle(tried.as_ref() == Some(&s), "try_from_value reads a statement differently than Deserialize does", &replay);
            }
            // the trait object knows its version, and converts back to the same wrapper
            let Ok(again) = serde_json::from_value::<StatementWrapper>(doc.clone()) else { return };
            let t = again.into_trait();
            let ver: String = t.version().into();
            let want_ver = if name == "StateV01" { "https://in-toto.io/Statement/v0.1" } else { "link" };
            sink.oracle(ver == want_ver, "a statement reports another version than the format it was read as", &replay);
            sink.oracle(t.into_enum() == s, "a statement changes when converted to its trait object and back", &replay);
        }
    }
}

/// the statement's canonical form through the crate's own interface (`into_trait().to_bytes()`)
fn s_to_bytes(doc: &Value) -> Option<Vec<u8>> {
    // (the wrapper cannot be cloned: read it once more)
    let s2 = serde_json::from_value::<StatementWrapper>(doc.clone()).ok()?;
    guarded(move || s2.into_trait().to_bytes()).ok()?.ok()
}

fn tables(sink: &mut Sink) {
    for (name, s) in [("LinkV0_2", PRED_TYPES[0]), ("SLSAProvenanceV0_1", PRED_TYPES[1]), ("SLSAProvenanceV0_2", PRED_TYPES[2])] {
        let v = PredicateVer::try_from(s.to_string());
        let back: Option<String> = v.as_ref().ok().map(|v| (*v).into());
        sink.op(&format!("pred_ver_of {}", crate::proto::hexs(s)), &format!("{}", v.as_ref().map(|v| format!("{:?}", v)).unwrap_or_else(|_| "none".into())), true);
        sink.oracle(back.as_deref() == Some(s), "PredicateVer string table is not its own inverse", name);
    }
    // the version enums as JSON: written as their string, read back as themselves
    for s in ["link", "https://in-toto.io/Statement/v0.1"] {
        if let Ok(v) = StatementVer::try_from(s.to_string()) {
            let j = serde_json::to_value(v).ok();
            sink.oracle(j == Some(Value::String(s.to_string())), "a statement version is not written as its string", s);
            let back = serde_json::from_value::<StatementVer>(Value::String(s.to_string())).ok();
            sink.oracle(back == Some(v) && !format!("{}", v).is_empty(), "a statement version's string is not read back as that version", s);
        }
    }
    for s in PRED_TYPES {
        if let Ok(v) = PredicateVer::try_from(s.to_string()) {
            let j = serde_json::to_value(v).ok();
            sink.oracle(j == Some(Value::String(s.to_string())), "a predicate version is not written as its string", s);
            let back = serde_json::from_value::<PredicateVer>(Value::String(s.to_string())).ok();
            sink.oracle(back == Some(v), "a predicate version's string is not read back as that version", s);
        }
    }
    for s in ["link", "https://in-toto.io/Statement/v0.1"] {
        let v = StatementVer::try_from(s.to_string());
        let back: Option<String> = v.as_ref().ok().map(|v| (*v).into());
        sink.op(&format!("stmt_ver_of {}", crate::proto::hexs(s)), &format!("{}", v.as_ref().map(|v| format!("{:?}", v)).unwrap_or_else(|_| "none".into())), true);
        sink.oracle(back.as_deref() == Some(s), "StatementVer string table is not its own inverse", s);
    }
    for s in ["", "Link", "https://in-toto.io/Link/v0.2 ", "https://in-toto.io/statement/v0.1", "https://slsa.dev/provenance/v1"] {
        sink.op(&format!("pred_ver_of {}", crate::proto::hexs(s)), &PredicateVer::try_from(s.to_string()).map(|v| format!("{:?}", v)).unwrap_or_else(|_| "none".into()), true);
        sink.op(&format!("stmt_ver_of {}", crate::proto::hexs(s)), &StatementVer::try_from(s.to_string()).map(|v| format!("{:?}", v)).unwrap_or_else(|_| "none".into()), true);
    }
}

fn merge_case(sink: &mut Sink, r: &mut Rng) {
    let link = gen_link(r, None);
    let lj = serde_json::to_value(&link).unwrap();
    let replay = format!("merge {}", proto(&lj, &mut None));
    // naive
    let l2 = link.clone();
    match guarded(move || StatementWrapper::from_meta(l2, None, StatementVer::Naive)) {
        Err(()) => sink.oracle(false, "building a naive statement from a link panicked", &replay),
        Ok(s) => {
            let sj = serde_json::to_value(&s).unwrap();
            // the wrapper may serialise tagged or untagged; look at the inner object
            let inner = sj.get("Naive").cloned().unwrap_or(sj.clone());
            let same = |a: &str, b: &str| inner.get(a) == lj.get(b);
            sink.oracle(
                same("name", "name") && same("materials", "materials") && same("products", "products") && same("command", "command") && same("byproducts", "byproducts") && same("env", "environment"),
                "a naive statement built from a link does not carry its fields over unchanged",
                &replay,
            );
        }
    }
    // v0.1 with each kind of predicate
    let (_, pj) = attgen::gen_predicate(r);
    if let Ok(p) = serde_json::from_value::<PredicateWrapper>(pj.clone()) {
        let boxed: Box<dyn PredicateLayout> = p.clone().into_trait();
        let l3 = link.clone();
        match guarded(std::panic::AssertUnwindSafe(move || StatementWrapper::from_meta(l3, Some(boxed), StatementVer::V0_1))) {
            Err(()) => sink.oracle(false, "building a v0.1 statement from a link panicked", &replay),
            Ok(s) => {
                let sj = serde_json::to_value(&s).unwrap();
                let inner = sj.get("V0_1").cloned().unwrap_or(sj.clone());
                let pv: String = p.clone().into_trait().version().into();
                sink.oracle(inner.get("subject") == lj.get("products"), "a v0.1 statement built from a link does not carry the products as subject", &replay);
                sink.oracle(inner.get("predicate") == Some(&serde_json::to_value(&p).unwrap()), "a v0.1 statement built from a link alters the predicate", &replay);
                sink.oracle(inner.get("predicateType").and_then(|x| x.as_str()) == Some(pv.as_str()), "a v0.1 statement built from a link declares another predicate type than it contains", &replay);
            }
        }
    }
    sink.stat("merge");
}

fn string_leaves(v: &Value, cur: &mut Vec<String>, out: &mut Vec<Vec<String>>) {
    match v {
        Value::String(_) => out.push(cur.clone()),
        Value::Object(m) => {
            for (k, x) in m {
                cur.push(k.clone());
                string_leaves(x, cur, out);
                cur.pop();
            }
        }
        Value::Array(xs) => {
            for (i, x) in xs.iter().enumerate() {
                cur.push(format!("#{}", i));
                string_leaves(x, cur, out);
                cur.pop();
            }
        }
        _ => {}
    }
}

/// the document with one of its string members holding a value of another shape: a (nested) object
/// or array - with integers, with numbers that are no integers -, a number, a boolean
fn reshape(doc: &Value, r: &mut Rng) -> Option<Value> {
    let mut leaves = vec![];
    string_leaves(doc, &mut vec![], &mut leaves);
    if leaves.is_empty() {
        return None;
    }
    let path = r.pick(&leaves).clone();
    let mut out = doc.clone();
    let mut cur = &mut out;
    for seg in &path {
        cur = match cur {
            Value::Object(m) => m.get_mut(seg)?,
            Value::Array(xs) => xs.get_mut(seg.strip_prefix('#')?.parse::<usize>().ok()?)?,
            _ => return None,
        };
    }
    *cur = match r.below(9) {
        0 => serde_json::json!({"a": 1.5}),
        1 => serde_json::json!([2e9]),
        2 => serde_json::json!({"k": "v"}),
        3 => serde_json::json!(["x", 1]),
        4 => serde_json::json!(1.25),
        5 => serde_json::json!(true),
        6 => serde_json::json!(7),
        7 => serde_json::json!({"n": {"m": [0.5, -0.0]}}),
        _ => serde_json::json!({}),
    };
    Some(out)
}

/// the document with one digest map given a digest under another algorithm name than the two the crate
/// computes (added next to them, or one of them renamed) - `None` if the document has no digest map
fn foreign_digest_name(doc: &Value, r: &mut Rng) -> Option<Value> {
    fn find(v: &Value, cur: &mut Vec<String>, out: &mut Vec<Vec<String>>) {
        match v {
            Value::Object(m) => {
                if !m.is_empty() && m.iter().all(|(k, x)| (k == "sha256" || k == "sha512") && x.is_string()) {
                    out.push(cur.clone());
                }
                for (k, x) in m {
                    cur.push(k.clone());
                    find(x, cur, out);
                    cur.pop();
                }
            }
            Value::Array(xs) => {
                for (i, x) in xs.iter().enumerate() {
                    cur.push(i.to_string());
                    find(x, cur, out);
                    cur.pop();
                }
            }
            _ => {}
        }
    }
    let mut at = vec![];
    find(doc, &mut vec![], &mut at);
    if at.is_empty() {
        return None;
    }
    let path = r.pick(&at).clone();
    let mut d = doc.clone();
    let mut node = &mut d;
    for seg in &path {
        node = match node {
            Value::Array(xs) => xs.get_mut(seg.parse::<usize>().ok()?)?,
            other => other.get_mut(seg.as_str())?,
        };
    }
    let m = node.as_object_mut()?;
    let name = *r.pick(&["sha1", "blake2b", "sha384", "SHA256", "md5", "sha3-256", ""]);
    if r.chance(1, 2) {
        m.insert(name.to_string(), Value::String("ab".repeat(20)));
    } else {
        let k = m.keys().next()?.clone();
        let v = m.remove(&k)?;
        m.insert(name.to_string(), v);
    }
    Some(d)
}

/// the document with one artifact path (a key of `subject`, `materials` or `products`) spelled with a backslash
/// in it - a character like any other in a file name here; sometimes next to the same path with a slash
fn backslash_artifact(doc: &Value, r: &mut Rng) -> Option<Value> {
    let mut d = doc.clone();
    let mut tables: Vec<&mut serde_json::Map<String, Value>> = vec![];
    fn collect<'a>(v: &'a mut Value, out: &mut Vec<&'a mut serde_json::Map<String, Value>>) {
        if let Value::Object(m) = v {
            for (k, x) in m.iter_mut() {
                if (k == "subject" || k == "materials" || k == "products") && x.is_object() {
                    if let Value::Object(t) = x {
                        out.push(t);
                    }
                } else {
                    collect(x, out);
                }
            }
        }
    }
    collect(&mut d, &mut tables);
    let n = tables.len();
    if n == 0 {
        return None;
    }
    let t = &mut tables[r.below(n)];
    let digest = t.values().next().cloned().unwrap_or_else(|| serde_json::json!({"sha256": "ab".repeat(32)}));
    let name = *r.pick(&["dist\\foo.tar.gz", "a\\b", "\\", "C:\\out\\x.bin", "trailing\\"]);
    t.insert(name.to_string(), digest.clone());
    if r.chance(1, 2) {
        t.insert(name.replace('\\', "/"), digest);
    }
    Some(d)
}

pub fn run(cfg: &Cfg) {
    let mut sink = Sink::new(&cfg.out);
    let mut r = Rng::new(cfg.seed);
    let mut model = Model::start();
    tables(&mut sink);
    let n = if cfg.thorough { 20_000 } else { 1_500 };
    for i in 0..n {
        let mut r = r.at(i as u64);
        let (_, pred) = attgen::gen_predicate(&mut r);
        predicate_case(&mut sink, &mut model, &pred, "predicate");
        if i % 3 == 0 {
            let p = attgen::perturb(&pred, &mut r);
            predicate_case(&mut sink, &mut model, &p, "predicate-perturbed");
        }
        let naive = attgen::gen_naive(&mut r);
        statement_case(&mut sink, &mut model, &naive, None, "naive");
        let (v01, actual, declared) = attgen::gen_v01(&mut r);
        statement_case(&mut sink, &mut model, &v01, Some((actual, declared)), if actual == declared { "v01-consistent" } else { "v01-mismatched-type" });
        if i % 3 == 0 {
            let p = attgen::perturb(&v01, &mut r);
            statement_case(&mut sink, &mut model, &p, None, "statement-perturbed");
        }
        if i % 5 == 0 {
            merge_case(&mut sink, &mut r);
        }
        // ---- digests under algorithm names the crate does not compute itself (another implementation's link
        //      or statement): refused, or accepted and then written and read back like any other
        // ---- artifact paths with a backslash in them
        if i % 3 == 2 {
            for base in [&naive, &v01] {
                if let Some(d) = backslash_artifact(base, &mut r) {
                    statement_case(&mut sink, &mut model, &d, None, "backslash-path");
                }
            }
            if let Some(d) = backslash_artifact(&pred, &mut r) {
                predicate_case(&mut sink, &mut model, &d, "predicate-backslash-path");
            }
        }
        if i % 3 == 1 {
            if let Some(d) = foreign_digest_name(&naive, &mut r) {
                statement_case(&mut sink, &mut model, &d, None, "foreign-digest-name");
            }
            if let Some(d) = foreign_digest_name(&v01, &mut r) {
                statement_case(&mut sink, &mut model, &d, None, "foreign-digest-name");
            }
            if let Some(d) = foreign_digest_name(&pred, &mut r) {
                predicate_case(&mut sink, &mut model, &d, "predicate-foreign-digest-name");
            }
        }
        // ---- one string member holding a value of another shape
        if let Some(p) = reshape(&pred, &mut r) {
            predicate_case(&mut sink, &mut model, &p, "predicate-reshaped");
        }
        if i % 2 == 0 {
            if let Some(p) = reshape(&v01, &mut r) {
                statement_case(&mut sink, &mut model, &p, None, "statement-reshaped");
            }
        }
        // ---- value-level codec on mutated documents (any node: member deleted / renamed / added,
        //      value of another shape, damaged string or number), and on timestamps in every notation
        for (kind, doc) in [("predicate", &pred), ("statement", &naive), ("statement", &v01)] {
            let m = crate::c16_doc::mutate(doc, &mut r);
            if kind == "predicate" {
                att_dec_case::<PredicateWrapper>(&mut sink, kind, &m, "mutated");
            } else {
                att_dec_case::<StatementWrapper>(&mut sink, kind, &m, "mutated");
            }
        }
        let stamp = if r.chance(2, 3) { crate::timegen::gen_valid(&mut r) } else { crate::timegen::gen_invalid(&mut r) };
        let mut with_time = if r.chance(1, 2) { pred.clone() } else { v01.clone() };
        if set_timestamp(&mut with_time, &stamp) {
            if with_time.get("predicateType").is_some() {
                att_dec_case::<StatementWrapper>(&mut sink, "statement", &with_time, "timestamp");
            } else {
                att_dec_case::<PredicateWrapper>(&mut sink, "predicate", &with_time, "timestamp");
            }
        }
    }
    sink.finish(&cfg.out, serde_json::json!({}));
}
