//! C20: DSSE pre-authentication encoding (pack / unpack).
use crate::proto::{guarded, hex, Sink};
use crate::rng::Rng;
use crate::Cfg;
use in_toto::verif_hooks as hooks;
use std::collections::HashMap;

fn show_unpack(r: Result<in_toto::Result<(Vec<u8>, String)>, ()>) -> String {
    match r {
        Err(()) => "panic".to_string(),
        Ok(Err(_)) => "err".to_string(),
        Ok(Ok((p, t))) => format!("ok {} {}", hex(&p), hex(t.as_bytes())),
    }
}

fn unpack_case(sink: &mut Sink, bytes: &[u8], class: &str) {
    let b = bytes.to_vec();
    let r = guarded(move || hooks::pae_unpack(&b));
    let b = bytes.to_vec();
    let r2 = guarded(move || hooks::pae_try_unpack(&b));
    let ans = show_unpack(r);
    let ans2 = show_unpack(r2);
    let nontrivial = bytes.starts_with(b"DSSEv1 ");
    sink.stat(&format!("unpack/{}/{}", class, ans.split(' ').next().unwrap()));
    // the property: a pair or an error, never a crash
    sink.oracle(ans != "panic", "unpack-panicked", &format!("pae_unpack {}", hex(bytes)));
    sink.oracle(ans2 == ans, "try_unpack-differs-from-unpack", &format!("pae_unpack {}", hex(bytes)));
    sink.op(&format!("pae_unpack {}", hex(bytes)), &ans, nontrivial);
}

const TYPES: &[&str] = &[
    "", "link", "https://in-toto.io/statement/v0.1", " ", "  ", "4", "4 ", " 4", "4 link", "0", "+1",
    "a b c", "12 34 56", "DSSEv1", "DSSEv1 4 link 0 ", "\u{e9}", "\u{1F600} x", "\n", "\0", "9 ",
    "application/vnd.in-toto+json",
];

fn gen_type(r: &mut Rng) -> String {
    if r.chance(2, 3) {
        r.pick(TYPES).to_string()
    } else {
        let n = r.below(12);
        let alpha: Vec<char> = " 0123456789+-aZ\u{e9}\u{4e2d}\u{1F600}".chars().collect();
        (0..n).map(|_| *r.pick(&alpha)).collect()
    }
}

fn gen_payload(r: &mut Rng) -> Vec<u8> {
    match r.below(7) {
        0 => vec![],
        // what envelopes are made for: JSON documents, as some producer wrote them - indented, members in
        // any order, a member twice, escaped spellings, a line feed at the end; and the metadata this
        // library writes
        5 => {
            let docs: &[&str] = &["{ }", "{}\n", "{\"b\":1,\"a\":2}", "{\"a\":1,\"a\":2}", "{\"k\":\"\\u0041\"}", "{\n  \"_type\": \"link\",\n  \"name\": \"x\"\n}",
                "[ 1, 2 ]", "{\"a\": 1.5}", " {\"a\":[]} ", "{\"a\":{\"c\":null,\"b\":true}}", "\"text\"", "7"];
            r.pick(docs).as_bytes().to_vec()
        }
        6 => {
            let link = crate::meta::gen_link(r, None);
            if r.chance(1, 2) { serde_json::to_vec_pretty(&link).unwrap() } else { serde_json::to_vec(&link).unwrap() }
        }
        1 => {
            let n = r.below(40);
            r.bytes(n)
        }
        2 => {
            let n = r.below(16);
            (0..n).map(|_| *r.pick(b" 0123456789+{}\"")).collect()
        }
        3 => {
            // a payload that itself looks like an encoding
            let t = gen_type(r);
            hooks::pae_pack(b"x", t)
        }
        _ => {
            let n = 100 + r.below(3000);
            r.bytes(n)
        }
    }
}

/// Re-run exactly the operations of a replay file.
fn replay(cfg: &Cfg, path: &std::path::Path) {
    let mut sink = Sink::new(&cfg.out);
    for line in std::fs::read_to_string(path).unwrap().lines() {
        let w: Vec<&str> = line.split(' ').collect();
        match w.as_slice() {
            ["pae_unpack", b] => unpack_case(&mut sink, &crate::proto::unhex(b).unwrap(), "replay"),
            ["pae_pack", t, p] => {
                let t = String::from_utf8(crate::proto::unhex(t).unwrap()).unwrap();
                let p = crate::proto::unhex(p).unwrap();
                pack_case(&mut sink, &t, &p, &mut HashMap::new());
            }
            _ => sink.oracle(false, "unparsable replay line", line),
        }
    }
    sink.finish(&cfg.out, serde_json::json!({}));
}

fn pack_case(sink: &mut Sink, t: &str, p: &[u8], seen: &mut HashMap<Vec<u8>, (String, Vec<u8>)>) -> Option<Vec<u8>> {
    let (t2, p2) = (t.to_string(), p.to_vec());
    let replay = format!("pae_pack {} {}", hex(t.as_bytes()), hex(p));
    let packed = match guarded(move || hooks::pae_pack(&p2, t2)) {
        Ok(b) => b,
        Err(()) => {
            sink.oracle(false, "pack-panicked", &replay);
            return None;
        }
    };
    sink.op(&replay, &hex(&packed), true);
    let pk = packed.clone();
    let back = guarded(move || hooks::pae_unpack(&pk));
    let good = matches!(&back, Ok(Ok((p3, t3))) if *p3 == p && *t3 == t);
    sink.oracle(good, "unpack(pack(t,p)) != (p,t)", &replay);
    sink.stat(if good { "roundtrip/ok" } else { "roundtrip/FAIL" });
    if let Some((t0, p0)) = seen.get(&packed) {
        let same = *t0 == t && *p0 == p;
        sink.oracle(same, "two pairs pack to the same bytes", &replay);
    } else {
        seen.insert(packed.clone(), (t.to_string(), p.to_vec()));
    }
    Some(packed)
}

pub fn run(cfg: &Cfg) {
    if let Some(p) = &cfg.replay {
        return replay(cfg, p);
    }
    let mut sink = Sink::new(&cfg.out);
    let mut r = Rng::new(cfg.seed);

    // ---- corpus: past failures and fixtures first
    let corpus: &[&[u8]] = &[
        b"DSSEv1 4 link 0 ",
        b"DSSEv1 9 link",
        b"DSSEv1 4 link",
        b"DSSEv1 4 link 9 ab",
        b"DSSEv1 0  0 ",
        b"DSSEv1 0 ",
        b"DSSEv1 ",
        b"DSSEv1",
        b"",
        b"DSSEv1 18446744073709551615 a",
        b"DSSEv1 18446744073709551616 a",
        b"DSSEv1 +4 link +0 ",
        b"DSSEv1 04 link 00 ",
        b"DSSEv1 4 linkX0 ",
        b"DSSEv1 1 \xff 0 ",
        b"DSSEv1 2 \xc3\xa9 1 ab",
        b"DSSEv1 1 \xc3\xa9 1 ab",
        b"DSSEv1 -1 a 0 ",
        b"DSSEv1 4 link 18446744073709551615 ",
        b"DSSEv2 4 link 0 ",
    ];
    for c in corpus {
        unpack_case(&mut sink, c, "corpus");
    }

    // ---- round trips and injectivity on generated pairs
    let n_pairs = if cfg.thorough { 60_000 } else { 6_000 };
    let mut seen: HashMap<Vec<u8>, (String, Vec<u8>)> = HashMap::new();
    for _ in 0..n_pairs {
        let t = gen_type(&mut r);
        let p = gen_payload(&mut r);
        let packed = match pack_case(&mut sink, &t, &p, &mut seen) {
            Some(b) => b,
            None => continue,
        };
        sink.stat(&format!("pairs/type_len_{}", if t.is_empty() { "0" } else if t.len() < 8 { "1-7" } else { "8+" }));
        sink.stat(&format!("pairs/payload_len_{}", if p.is_empty() { "0" } else if p.len() < 64 { "1-63" } else { "64+" }));
        // decode mutations of a valid encoding
        if r.chance(1, 2) {
            let mut m = packed.clone();
            match r.below(4) {
                0 => {
                    let k = r.below(m.len() + 1);
                    m.truncate(k);
                }
                1 => {
                    let k = r.below(m.len());
                    m[k] = *r.pick(b" 0123456789+a");
                }
                2 => {
                    let k = r.below(m.len() + 1);
                    m.insert(k, *r.pick(b" 0129+"));
                }
                _ => {
                    let k = r.below(m.len());
                    m.remove(k);
                }
            }
            unpack_case(&mut sink, &m, "mutated");
        }
    }

    // ---- exhaustive decode over the framing alphabet
    let alphabet = b" 0129+a";
    let max_len = if cfg.thorough { 7 } else { 5 };
    let mut count = 0u64;
    for len in 0..=max_len {
        let mut idx = vec![0usize; len];
        loop {
            let mut bytes = b"DSSEv1 ".to_vec();
            bytes.extend(idx.iter().map(|&i| alphabet[i]));
            unpack_case(&mut sink, &bytes, "exhaustive");
            count += 1;
            // increment
            let mut k = 0;
            while k < len {
                idx[k] += 1;
                if idx[k] < alphabet.len() {
                    break;
                }
                idx[k] = 0;
                k += 1;
            }
            if k == len {
                break;
            }
        }
    }
    sink.note(&format!(
        "exhaustive: every byte string of length <= {} over the alphabet {:?} after the prefix 'DSSEv1 ' ({} strings)",
        max_len,
        std::str::from_utf8(alphabet).unwrap(),
        count
    ));

    // ---- length fields around the usize range
    for n in ["18446744073709551614", "18446744073709551615", "18446744073709551616", "99999999999999999999999", "9223372036854775808"] {
        for tail in ["", " ", " a", " a 1 b"] {
            let s = format!("DSSEv1 {}{}", n, tail);
            unpack_case(&mut sink, s.as_bytes(), "huge-length");
            let s = format!("DSSEv1 1 a {}{}", n, tail);
            unpack_case(&mut sink, s.as_bytes(), "huge-length");
        }
    }

    // ---- raw random bytes
    let n_raw = if cfg.thorough { 20_000 } else { 2_000 };
    for _ in 0..n_raw {
        let n = r.below(24);
        let mut b = if r.chance(1, 2) { b"DSSEv1 ".to_vec() } else { vec![] };
        b.extend(r.bytes(n));
        unpack_case(&mut sink, &b, "random");
    }

    sink.finish(&cfg.out, serde_json::json!({"exhaustive_scope": count}));
}
