//! C03: artifact rules (`rulelib::apply_rules_on_link`) vs the model and the specification.
use crate::model::Model;
use crate::proto::{guarded, hex, hexs, Sink};
use crate::rng::Rng;
use crate::Cfg;
use in_toto::crypto::{HashAlgorithm, HashValue};
use in_toto::models::rule::{Artifact, ArtifactRule};
use in_toto::models::step::Step;
use in_toto::models::supply_chain_item::SupplyChainItem;
use in_toto::models::{LinkMetadata, LinkMetadataBuilder, TargetDescription, VirtualTargetPath};
use in_toto::verif_hooks as hooks;
use std::collections::{BTreeMap, HashMap};

#[derive(Clone, Debug)]
pub struct Scn {
    pub item: String,
    pub mats: Vec<ArtifactRule>,
    pub prods: Vec<ArtifactRule>,
    pub links: Vec<(String, Vec<(String, u8)>, Vec<(String, u8)>)>, // name, materials(path,digest id), products
}

/// Digest ids are opaque to the model (two recordings are equal iff their ids are equal); here an id
/// selects a whole digest map so that unequal ids share, partly share or do not share algorithms:
///   0 = no digest at all, 1..=3 = sha256 only, value 0xa0 + id (the ids of the first generators),
///   4v+0 = sha256 only (value v), 4v+1 = sha512 only (v), 4v+2 = both (v, v), 4v+3 = both (v, v+1)   for v >= 1
pub fn digest(id: u8) -> TargetDescription {
    let mut m = HashMap::new();
    match id {
        0 => {}
        1..=3 => {
            m.insert(HashAlgorithm::Sha256, HashValue::new(vec![0xa0 + id; 32]));
        }
        _ => {
            let v = id / 4;
            match id % 4 {
                0 => {
                    m.insert(HashAlgorithm::Sha256, HashValue::new(vec![v; 32]));
                }
                1 => {
                    m.insert(HashAlgorithm::Sha512, HashValue::new(vec![v; 64]));
                }
                2 => {
                    m.insert(HashAlgorithm::Sha256, HashValue::new(vec![v; 32]));
                    m.insert(HashAlgorithm::Sha512, HashValue::new(vec![v; 64]));
                }
                _ => {
                    m.insert(HashAlgorithm::Sha256, HashValue::new(vec![v; 32]));
                    m.insert(HashAlgorithm::Sha512, HashValue::new(vec![v + 1; 64]));
                }
            }
        }
    }
    m
}

/// ids whose digest maps overlap in every way: same value under one / the other / both algorithms,
/// one algorithm agreeing and the other not, nothing recorded
const DIGEST_POOL: &[u8] = &[1, 1, 1, 2, 2, 4, 5, 6, 7, 8, 10, 0];

pub fn rule_tok(r: &ArtifactRule) -> String {
    let o = |x: &Option<String>| x.as_ref().map(|s| hexs(s)).unwrap_or_else(|| "~".into());
    match r {
        ArtifactRule::Create(p) => format!("C={}", hexs(p.value())),
        ArtifactRule::Delete(p) => format!("D={}", hexs(p.value())),
        ArtifactRule::Modify(p) => format!("O={}", hexs(p.value())),
        ArtifactRule::Allow(p) => format!("A={}", hexs(p.value())),
        ArtifactRule::Require(p) => format!("R={}", hexs(p.value())),
        ArtifactRule::Disallow(p) => format!("X={}", hexs(p.value())),
        ArtifactRule::Match { pattern, in_src, with, in_dst, from } => format!(
            "T={},{},{},{},{}",
            hexs(pattern.value()),
            o(in_src),
            if *with == Artifact::Materials { "M" } else { "P" },
            o(in_dst),
            hexs(from)
        ),
    }
}

pub fn encode(s: &Scn) -> String {
    let mut out = format!("{} M {}", hexs(&s.item), s.mats.len());
    for r in &s.mats {
        out.push(' ');
        out.push_str(&rule_tok(r));
    }
    out.push_str(&format!(" P {}", s.prods.len()));
    for r in &s.prods {
        out.push(' ');
        out.push_str(&rule_tok(r));
    }
    out.push_str(&format!(" L {}", s.links.len()));
    for (n, m, p) in &s.links {
        out.push_str(&format!(" {}", hexs(n)));
        for arts in [m, p] {
            // BTreeMap semantics of the real type: sorted, a repeated path keeps the last value
            let mut bm: BTreeMap<&String, u8> = BTreeMap::new();
            for (k, v) in arts {
                bm.insert(k, *v);
            }
            out.push_str(&format!(" {}", bm.len()));
            for (k, v) in bm {
                out.push_str(&format!(" {} {}", hexs(k), hex(&[v])));
            }
        }
    }
    out
}

fn to_link(name: &str, m: &[(String, u8)], p: &[(String, u8)]) -> LinkMetadata {
    // (a path the validating constructor turns down is entered by conversion, as it is)
    let mk = |a: &[(String, u8)]| -> BTreeMap<VirtualTargetPath, TargetDescription> {
        a.iter().map(|(k, v)| (VirtualTargetPath::new(k.clone()).unwrap_or_else(|_| VirtualTargetPath::from(k.as_str())), digest(*v))).collect()
    };
    LinkMetadataBuilder::new().name(name.to_string()).materials(mk(m)).products(mk(p)).build().unwrap()
}

pub fn run_impl(s: &Scn) -> &'static str {
    let step = Step::new(&s.item).expected_materials(s.mats.clone()).expected_products(s.prods.clone());
    let item: Box<dyn SupplyChainItem> = Box::new(step);
    let mut links = HashMap::new();
    for (n, m, p) in &s.links {
        links.insert(n.clone(), to_link(n, m, p));
    }
    match guarded(std::panic::AssertUnwindSafe(|| hooks::apply_rules_on_link(&item, &links))) {
        Err(()) => "panic",
        Ok(Ok(())) => "ok",
        Ok(Err(_)) => "err",
    }
}

/// a scenario of well-typed but hostile rules and artifact names: empty and root prefixes, patterns the
/// pattern reader rejects, paths that clean to `/`, `.`, `..` or nothing
pub fn gen_hostile_scn(r: &mut Rng) -> Scn {
    let pats = ["*", "foo", "/", "", "[", "a**b", "//", "/*", "sub/*", "."];
    let pres: [Option<&str>; 8] = [None, Some(""), Some("/"), Some("sub"), Some("."), Some(".."), Some("sub/"), Some("//")];
    let paths = ["/", "//", "/.", "/a/..", "", ".", " ", "..", "foo", "/foo", "sub/foo", "./foo", "a/../..", "sub/", "sub", "/sub/foo"];
    let vp = |s: &str| VirtualTargetPath::new(s.to_string()).unwrap_or_else(|_| VirtualTargetPath::from(s));
    let mut rule = |r: &mut Rng| -> ArtifactRule {
        let p = vp(*r.pick(&pats));
        match r.below(9) {
            0 => ArtifactRule::Create(p),
            1 => ArtifactRule::Delete(p),
            2 => ArtifactRule::Modify(p),
            3 => ArtifactRule::Allow(p),
            4 => ArtifactRule::Require(p),
            5 => ArtifactRule::Disallow(p),
            _ => ArtifactRule::Match {
                pattern: p,
                in_src: r.pick(&pres).map(String::from),
                with: if r.chance(1, 2) { Artifact::Materials } else { Artifact::Products },
                in_dst: r.pick(&pres).map(String::from),
                from: r.pick(&["other", "it", "absent"]).to_string(),
            },
        }
    };
    let mut arts = |r: &mut Rng| -> Vec<(String, u8)> { (0..r.below(4)).map(|_| ((*r.pick(&paths)).to_string(), *r.pick(DIGEST_POOL))).collect() };
    Scn {
        item: "it".into(),
        mats: (0..r.below(4)).map(|_| rule(r)).collect(),
        prods: (0..r.below(4)).map(|_| rule(r)).collect(),
        links: vec![("it".into(), arts(r), arts(r)), ("other".into(), arts(r), arts(r))],
    }
}

pub fn case(sink: &mut Sink, model: &mut Model, s: &Scn, class: &str) {
    let enc = encode(s);
    let ans = run_impl(s);
    let spec = model.ask(&format!("rulespec {}", enc));
    let replay = format!("rules {}", enc);
    let nontrivial = !(s.mats.is_empty() && s.prods.is_empty()) && s.links.iter().any(|l| l.0 == s.item);
    sink.op(&replay, ans, nontrivial);
    sink.stat(&format!("{}/impl-{}/spec-{}", class, ans, spec));
    sink.oracle(ans != "panic", "apply_rules_on_link panicked", &replay);
    match spec.as_str() {
        "true" => sink.oracle(ans == "ok", "rejected although the specification's algorithm accepts", &replay),
        "false" => sink.oracle(ans != "ok", "accepted although the specification's algorithm rejects", &replay),
        _ => {}
    }
}

const PATTERNS: &[&str] = &["*", "foo", "sub/*", "f?o", "[a-f]oo", "a**b", "["];
const PREFIXES: &[Option<&str>] = &[None, Some("sub"), Some("dst")];
const UNIVERSE: &[&str] = &["foo", "bar", "sub/foo", "dst/foo"];
/// names that begin with a prefix's characters without the separator, next to the real thing
const UNIVERSE2: &[&str] = &["subfoo", "sub/foo", "dstfoo", "dst/foo"];
/// the same names in another letter case (patterns and prefixes are case sensitive)
const UNIVERSE3: &[&str] = &["Foo", "foo", "sub/FOO", "SUB/foo"];
/// file names that contain pattern syntax and are spelled exactly like one of `PATTERNS`: a name is
/// not always matched by the pattern it spells (`[a-f]oo` denotes `aoo` .. `foo`, not itself)
const UNIVERSE4: &[&str] = &["[a-f]oo", "foo", "f?o", "sub/[a-f]oo"];

/// names that sort between a prefix directory's own name and the names below it (`-`, `.` and the
/// blank come before `/`): neighbours of the prefix in an ordered queue, not members of it
const UNIVERSE5: &[&str] = &["sub-gen/foo", "sub.foo", "sub/foo", "dst/foo"];

fn all_rules() -> Vec<ArtifactRule> {
    let mut v = vec![];
    for p in PATTERNS {
        let vp = VirtualTargetPath::new(p.to_string()).unwrap_or_else(|_| VirtualTargetPath::from(*p));
        v.push(ArtifactRule::Create(vp.clone()));
        v.push(ArtifactRule::Delete(vp.clone()));
        v.push(ArtifactRule::Modify(vp.clone()));
        v.push(ArtifactRule::Allow(vp.clone()));
        v.push(ArtifactRule::Require(vp.clone()));
        v.push(ArtifactRule::Disallow(vp.clone()));
        for s in PREFIXES {
            for d in PREFIXES {
                for w in [Artifact::Materials, Artifact::Products] {
                    for from in ["other", "absent"] {
                        v.push(ArtifactRule::Match {
                            pattern: vp.clone(),
                            in_src: s.map(|x| x.to_string()),
                            with: w.clone(),
                            in_dst: d.map(|x| x.to_string()),
                            from: from.to_string(),
                        });
                    }
                }
            }
        }
    }
    v
}

fn gen_arts(r: &mut Rng, normalized: bool) -> Vec<(String, u8)> {
    let mut v = vec![];
    let uni = match r.below(8) {
        0 | 1 | 2 => UNIVERSE,
        3 | 4 => UNIVERSE2,
        5 => UNIVERSE3,
        6 => UNIVERSE5,
        _ => UNIVERSE4,
    };
    for p in uni {
        if r.chance(1, 2) {
            v.push((p.to_string(), *r.pick(DIGEST_POOL)));
        }
    }
    if r.chance(1, 6) {
        v.push((r.pick(&["subfoo", "dstfoo", "sub.foo", "sub", "dst", "su/foo", "subb/foo", "sub-gen/foo", "sub foo", "dst.d/foo", "sub!", "dst-"]).to_string(), *r.pick(DIGEST_POOL)));
    }
    if !normalized && r.chance(1, 2) {
        let odd = ["./foo", "sub//foo", "a/../foo", "/abs/foo", "sub/", ".", "", "..", "foo/.", "\u{e9}/x"];
        v.push((r.pick(&odd).to_string(), 1 + r.below(25) as u8));
    }
    v
}

fn gen_rule(r: &mut Rng, rules: &[ArtifactRule]) -> ArtifactRule {
    r.pick(rules).clone()
}

pub fn run(cfg: &Cfg) {
    let mut sink = Sink::new(&cfg.out);
    let mut r = Rng::new(cfg.seed);
    let mut model = Model::start();
    if let Some(p) = &cfg.replay {
        sink.note("C03 replays are re-run through the model only by ./check (the op line is self-contained); the implementation side is regenerated from the seed");
        let _ = p;
    }
    let rules = all_rules();

    // ---- library specs: glob and path-clean
    let pats = ["*", "?", "**", "***", "a*", "*a", "a*b*c", "[", "[]", "[!]", "[a]", "[!a]", "[a-c]", "[c-a]", "[]]", "[a-]", "[-a]", "[!a-c]x",
        "**/x", "a/**", "a/**/b", "a**", "**a", "a/**b", "**/**/x", "/**/", "", "foo", "f?o", "sub/*", "s*/f*", "*.py", "[[]", "[a-c][!x]*", "a[", "a[b", "?*?", "*/*"];
    let strs = ["", "a", "ab", "abc", "foo", "sub/foo", "a/b/x", "x", "a/x", "a/b", "a", "foo.py", "]", "-", "[", "b", "c", "ax", "bx", "dx", "/", "//", "a/", "sub/", "a/b/c/x",
        "A", "FOO", "Foo", "SUB/foo", "foo.PY", "B", "Ax"];
    for p in pats {
        for s in strs {
            let ans = match glob::Pattern::new(p) {
                Ok(pt) => pt.matches(s).to_string(),
                Err(_) => "none".into(),
            };
            sink.op(&format!("glob {} {}", hexs(p), hexs(s)), &ans, true);
            // the repo's wrapper must agree with the library it wraps
            let vp = VirtualTargetPath::new(s.to_string()).unwrap_or_else(|_| VirtualTargetPath::from(s));
            let w = match hooks::path_matches(&vp, p) {
                Ok(b) => b.to_string(),
                Err(_) => "none".into(),
            };
            sink.oracle(w == ans, "VirtualTargetPath::matches disagrees with glob::Pattern", &format!("glob {} {}", hexs(p), hexs(s)));
        }
    }
    let n_glob = if cfg.thorough { 40_000 } else { 4_000 };
    let alpha: Vec<char> = "abAB/*?[]!-.x\u{e9}\u{c9}".chars().collect();
    for _ in 0..n_glob {
        let p: String = (0..r.below(7)).map(|_| *r.pick(&alpha)).collect();
        let s: String = (0..r.below(6)).map(|_| *r.pick(&['a', 'b', 'A', 'B', '/', 'x', '.', '-', ']', '\u{e9}', '\u{c9}'])).collect();
        let ans = match glob::Pattern::new(&p) {
            Ok(pt) => pt.matches(&s).to_string(),
            Err(_) => "none".into(),
        };
        sink.stat(&format!("glob/{}", ans));
        sink.op(&format!("glob {} {}", hexs(&p), hexs(&s)), &ans, true);
        // the repo's wrapper is the library's `matches` (default options), on every pair
        if let Ok(vp) = VirtualTargetPath::new(s.clone()) {
            let w = match hooks::path_matches(&vp, &p) {
                Ok(b) => b.to_string(),
                Err(_) => "none".into(),
            };
            sink.oracle(w == ans, "VirtualTargetPath::matches disagrees with glob::Pattern::matches", &format!("glob {} {}", hexs(&p), hexs(&s)));
        }
    }
    let paths = ["", ".", "..", "/", "//", "a", "a/", "a//b", "a/./b", "a/../b", "../a", "a/..", "a/../..", "/..", "/../a", "./", "./a", "a/b/../../c", "/a/../..", "..//", "a/.", "é/../x", "a/...", ".../a", ".a", "a/.b/.."];
    for p in paths {
        let c = path_clean::clean(p).to_string_lossy().to_string();
        sink.op(&format!("clean {}", hexs(p)), &hexs(&c), true);
    }
    let n_clean = if cfg.thorough { 20_000 } else { 2_000 };
    for _ in 0..n_clean {
        let p: String = (0..r.below(9)).map(|_| *r.pick(&['a', 'b', '/', '/', '.', '.'])).collect();
        let c = path_clean::clean(&p).to_string_lossy().to_string();
        sink.op(&format!("clean {}", hexs(&p)), &hexs(&c), true);
    }

    // ---- corpus: the two probed defects and neighbours
    let vp = |s: &str| VirtualTargetPath::new(s.to_string()).unwrap_or_else(|_| VirtualTargetPath::from(s));
    let m = |p: &str, s: Option<&str>, w: Artifact, d: Option<&str>, f: &str| ArtifactRule::Match {
        pattern: vp(p),
        in_src: s.map(|x| x.to_string()),
        with: w,
        in_dst: d.map(|x| x.to_string()),
        from: f.to_string(),
    };
    let corpus = vec![
        Scn { item: "it".into(), mats: vec![], prods: vec![m("foo", Some("sub"), Artifact::Products, None, "other"), ArtifactRule::Disallow(vp("*"))],
              links: vec![("it".into(), vec![], vec![("foo".into(), 1)]), ("other".into(), vec![], vec![("foo".into(), 1)])] },
        Scn { item: "it".into(), mats: vec![], prods: vec![ArtifactRule::Disallow(vp("a**b"))], links: vec![("it".into(), vec![], vec![("foo".into(), 1)])] },
        Scn { item: "it".into(), mats: vec![], prods: vec![ArtifactRule::Disallow(vp("["))], links: vec![("it".into(), vec![], vec![])] },
        Scn { item: "it".into(), mats: vec![], prods: vec![m("foo", None, Artifact::Products, None, "other"), ArtifactRule::Disallow(vp("*"))],
              links: vec![("it".into(), vec![], vec![("foo".into(), 1), ("bar".into(), 2)]), ("other".into(), vec![], vec![("foo".into(), 1), ("bar".into(), 2)])] },
        Scn { item: "it".into(), mats: vec![ArtifactRule::Modify(vp("*"))], prods: vec![], links: vec![("it".into(), vec![("./foo".into(), 1)], vec![("./foo".into(), 2)])] },
        Scn { item: "it".into(), mats: vec![m("*", Some("sub"), Artifact::Materials, Some("dst"), "other")], prods: vec![ArtifactRule::Disallow(vp("sub/*"))],
              links: vec![("it".into(), vec![("sub/foo".into(), 1)], vec![("sub/foo".into(), 1)]), ("other".into(), vec![("dst/foo".into(), 1)], vec![])] },
    ];
    let corpus2 = vec![
        // a name that merely begins with the prefix's characters is not under the prefix
        Scn { item: "it".into(), mats: vec![m("*", Some("sub"), Artifact::Materials, None, "other"), ArtifactRule::Disallow(vp("*"))], prods: vec![],
              links: vec![("it".into(), vec![("subfoo".into(), 1)], vec![]), ("other".into(), vec![("foo".into(), 1)], vec![])] },
        Scn { item: "it".into(), mats: vec![m("*", None, Artifact::Materials, Some("dst"), "other"), ArtifactRule::Disallow(vp("*"))], prods: vec![],
              links: vec![("it".into(), vec![("foo".into(), 1)], vec![]), ("other".into(), vec![("dstfoo".into(), 1)], vec![])] },
    ];
    for s in corpus.iter().chain(corpus2.iter()) {
        case(&mut sink, &mut model, s, "corpus");
    }

    // ---- systematic scope: every single rule (all kinds x patterns x prefixes) followed by DISALLOW *,
    //      over every artifact universe subset with one digest choice
    let mut scope = 0u64;
    let subsets = if cfg.thorough { 16 } else { 16 };
    for (uni, rule) in [UNIVERSE, UNIVERSE2, UNIVERSE3, UNIVERSE4, UNIVERSE5].iter().flat_map(|u| rules.iter().map(move |rl| (*u, rl))) {
        for mask_m in 0..subsets {
            for mask_p in [0usize, 1, 5, 10, 15] {
                if !cfg.thorough && (mask_m % 3 != 0) {
                    continue;
                }
                let pick = |mask: usize, dig: u8| -> Vec<(String, u8)> {
                    uni.iter().enumerate().filter(|(i, _)| mask >> i & 1 == 1).map(|(_, p)| (p.to_string(), dig)).collect()
                };
                // the other link: same digests; different digests; the same sha256 value inside a different
                // digest map (sha256+sha512 / sha512 only), so that "equal" means equal maps
                for (other_m, other_p) in [(pick(15, 1), pick(15, 1)), (pick(5, 2), pick(10, 1)), (pick(15, 6), pick(15, 5))] {
                    // what follows the rule shows what it consumed: `DISALLOW *` (everything must be gone) and,
                    // for a MATCH with a source prefix, `DISALLOW <prefix>/*` (exactly what lies below the
                    // prefix must be gone - whatever else is still in the queue next to it)
                    let followers: Vec<ArtifactRule> = match rule {
                        ArtifactRule::Match { in_src: Some(p), .. } => vec![ArtifactRule::Disallow(vp("*")), ArtifactRule::Disallow(vp(&format!("{}/*", p)))],
                        _ => vec![ArtifactRule::Disallow(vp("*"))],
                    };
                    for (follower, in_products) in followers.iter().flat_map(|f| [(f, false), (f, true)]) {
                        let rl = vec![rule.clone(), follower.clone()];
                        let s = Scn {
                            item: "it".into(),
                            mats: if in_products { vec![] } else { rl.clone() },
                            prods: if in_products { rl } else { vec![] },
                            links: vec![("it".into(), pick(mask_m, if other_m.first().map(|x| x.1) == Some(6) { 4 } else { 1 }), pick(mask_p, if other_m.first().map(|x| x.1) == Some(6) { if mask_m % 2 == 0 { 6 } else { 4 } } else { 1 })), ("other".into(), other_m.clone(), other_p.clone())],
                        };
                        case(&mut sink, &mut model, &s, "scope");
                        scope += 1;
                    }
                }
            }
        }
    }
    sink.note(&format!("systematic scope: {} scenarios = every single rule over kinds x patterns {:?} x optional prefixes {:?} x MATERIALS/PRODUCTS x present/absent step, followed by DISALLOW *, over artifact universes drawn from {:?}, {:?}, {:?}, {:?} and {:?}", scope, PATTERNS, PREFIXES, UNIVERSE, UNIVERSE2, UNIVERSE3, UNIVERSE4, UNIVERSE5));

    // ---- systematic scope 2: material rules and product rules of one item together - one material rule,
    //      then two product rules, over artifacts that are materials *and* products of the item
    //      (unchanged, modified, deleted, created): each of the two queues shrinks by its own rules only
    {
        let mut small: Vec<ArtifactRule> = vec![];
        for p in ["*", "foo"] {
            let v = vp(p);
            small.extend([ArtifactRule::Create(v.clone()), ArtifactRule::Delete(v.clone()), ArtifactRule::Modify(v.clone()), ArtifactRule::Allow(v.clone()),
                ArtifactRule::Require(v.clone()), ArtifactRule::Disallow(v.clone())]);
            small.push(m(p, None, Artifact::Materials, None, "other"));
            small.push(m(p, None, Artifact::Products, None, "other"));
        }
        let configs: Vec<(Vec<(String, u8)>, Vec<(String, u8)>)> = vec![
            (vec![("foo".into(), 1), ("bar".into(), 1)], vec![("foo".into(), 1), ("bar".into(), 1)]),
            (vec![("foo".into(), 1), ("bar".into(), 1)], vec![("foo".into(), 2), ("new".into(), 1)]),
        ];
        let mut scope2 = 0u64;
        for (ci, (im, ip)) in configs.iter().enumerate() {
            for a in &small {
                for b in &small {
                    for c in &small {
                        // (the quick tier takes every third combination of each configuration)
                        scope2 += 1;
                        if !cfg.thorough && (scope2 + ci as u64) % 3 != 0 {
                            continue;
                        }
                        let s = Scn {
                            item: "it".into(),
                            mats: vec![a.clone()],
                            prods: vec![b.clone(), c.clone()],
                            links: vec![("it".into(), im.clone(), ip.clone()), ("other".into(), vec![("foo".into(), 1), ("bar".into(), 1)], vec![("foo".into(), 1), ("bar".into(), 1)])],
                        };
                        case(&mut sink, &mut model, &s, "scope2");
                    }
                }
            }
        }
        sink.note(&format!("systematic scope 2: {} scenarios = one material rule x two product rules over 16 rules (7 kinds x patterns *, foo; MATCH against materials / products of another step) x 2 artifact configurations (unchanged; modified + deleted + created)", scope2));
    }

    // ---- systematic scope 3: two MATCH rules of one item against the SAME step - against its materials, its
    //      products, or one of each, in either order, in one rule list or one in the material rules and one in
    //      the product rules - where that step's materials and products differ (an artifact modified, one
    //      created, one deleted by it): each rule is resolved against the set it names
    {
        let other_m: Vec<(String, u8)> = vec![("foo".into(), 1), ("bar".into(), 1), ("gone".into(), 1)];
        let other_p: Vec<(String, u8)> = vec![("foo".into(), 2), ("bar".into(), 1), ("new".into(), 1)];
        let its: Vec<(Vec<(String, u8)>, Vec<(String, u8)>)> = vec![
            (other_p.clone(), other_p.clone()),
            (other_m.clone(), other_m.clone()),
            (other_m.clone(), other_p.clone()),
            (vec![("foo".into(), 1), ("new".into(), 1)], vec![("foo".into(), 2), ("gone".into(), 1)]),
        ];
        let mut scope3 = 0u64;
        for (im, ip) in &its {
            for p1 in ["*", "foo", "new"] {
                for p2 in ["*", "foo", "gone"] {
                    for (k1, k2) in [(Artifact::Materials, Artifact::Products), (Artifact::Products, Artifact::Materials), (Artifact::Materials, Artifact::Materials), (Artifact::Products, Artifact::Products)] {
                        let (a, b) = (m(p1, None, k1, None, "other"), m(p2, None, k2, None, "other"));
                        let d = ArtifactRule::Disallow(vp("*"));
                        for (mats, prods) in [
                            (vec![a.clone(), b.clone(), d.clone()], vec![]),
                            (vec![], vec![a.clone(), b.clone(), d.clone()]),
                            (vec![a.clone()], vec![b.clone(), d.clone()]),
                            (vec![a.clone(), ArtifactRule::Allow(vp("*"))], vec![b.clone(), d.clone()]),
                        ] {
                            let s = Scn { item: "it".into(), mats, prods, links: vec![("it".into(), im.clone(), ip.clone()), ("other".into(), other_m.clone(), other_p.clone())] };
                            case(&mut sink, &mut model, &s, "scope3");
                            scope3 += 1;
                        }
                    }
                }
            }
        }
        sink.note(&format!("systematic scope 3: {} scenarios = two MATCH rules against one step (materials / products in every combination and order; in one list, or one among the material and one among the product rules) whose materials and products differ, followed by DISALLOW *", scope3));
    }

    // ---- random rule lists (length 0..5), normalized and not
    let n = if cfg.thorough { 60_000 } else { 6_000 };
    for i in 0..n {
        let mut r = r.at(i as u64);
        let normalized = i % 4 != 0;
        let nm = r.below(4);
        let np = r.below(4);
        let s = Scn {
            item: "it".into(),
            mats: (0..nm).map(|_| gen_rule(&mut r, &rules)).collect(),
            prods: (0..np).map(|_| gen_rule(&mut r, &rules)).collect(),
            links: {
                let mut l = vec![("it".to_string(), gen_arts(&mut r, normalized), gen_arts(&mut r, normalized))];
                if r.chance(4, 5) {
                    l.push(("other".to_string(), gen_arts(&mut r, normalized), gen_arts(&mut r, normalized)));
                }
                if r.chance(1, 10) {
                    l.remove(0);
                }
                l
            },
        };
        case(&mut sink, &mut model, &s, if normalized { "random-norm" } else { "random-odd" });
    }
    // ---- the rules inside whole verifications: which links the rules of a step or an inspection are
    //      applied to (those of ALL steps and inspections), decided as the specification decides
    crate::e2e_props::rules_lane(&mut sink, &mut model, &mut r, if cfg.thorough { 500 } else { 60 });
    sink.finish(&cfg.out, serde_json::json!({"exhaustive_scope": scope}));
}
