//! C10: canonical JSON (`Json::canonicalize`).
use crate::jsongen::{gen_value, proto, spell};
use crate::proto::{guarded, hex, Sink};
use crate::rng::Rng;
use crate::Cfg;
use in_toto::interchange::{DataInterchange, Json};
use serde_json::Value;

pub fn canon_answer(v: &Value) -> String {
    let v2 = v.clone();
    match guarded(move || Json::canonicalize(&v2)) {
        Err(()) => "panic".into(),
        Ok(Err(_)) => "err".into(),
        Ok(Ok(b)) => format!("ok {}", hex(&b)),
    }
}

fn contains_float(v: &Value) -> bool {
    match v {
        Value::Number(n) => !(n.is_i64() || n.is_u64()),
        Value::Array(xs) => xs.iter().any(contains_float),
        Value::Object(m) => m.values().any(contains_float),
        _ => false,
    }
}

/// no whitespace outside strings: a direct scan of the text
fn scan_canonical(text: &[u8]) -> bool {
    let mut in_str = false;
    let mut esc = false;
    for &b in text {
        if in_str {
            if esc {
                esc = false;
            } else if b == b'\\' {
                esc = true;
            } else if b == b'"' {
                in_str = false;
            }
        } else if b == b'"' {
            in_str = true;
        } else if b == b' ' || b == b'\n' || b == b'\t' || b == b'\r' {
            return false;
        }
    }
    true
}

/// members of every object strictly increasing by code point of the (unescaped) name: a direct scan
/// of the text that keeps the order serde_json's map would lose
fn keys_sorted(text: &[u8]) -> bool {
    enum Ctx {
        Obj { last: Option<String>, expect_key: bool },
        Arr,
    }
    let mut stack: Vec<Ctx> = vec![];
    let mut i = 0;
    while i < text.len() {
        match text[i] {
            b'{' => stack.push(Ctx::Obj { last: None, expect_key: true }),
            b'[' => stack.push(Ctx::Arr),
            b'}' | b']' => {
                stack.pop();
            }
            b',' => {
                if let Some(Ctx::Obj { expect_key, .. }) = stack.last_mut() {
                    *expect_key = true;
                }
            }
            b'"' => {
                let start = i;
                i += 1;
                while i < text.len() && text[i] != b'"' {
                    if text[i] == b'\\' {
                        i += 1;
                    }
                    i += 1;
                }
                if i >= text.len() {
                    return false;
                }
                if let Some(Ctx::Obj { last, expect_key }) = stack.last_mut() {
                    if *expect_key {
                        let k: String = match serde_json::from_slice(&text[start..=i]) {
                            Ok(k) => k,
                            Err(_) => return false,
                        };
                        if let Some(prev) = last {
                            if prev.as_str() >= k.as_str() {
                                return false;
                            }
                        }
                        *last = Some(k);
                        *expect_key = false;
                    }
                }
            }
            _ => {}
        }
        i += 1;
    }
    true
}

pub fn case(sink: &mut Sink, r: &mut Rng, v: &Value, class: &str) {
    let ans = canon_answer(v);
    let p = proto(v, &mut None);
    let replay = format!("canon {}", p);
    sink.stat(&format!("canon/{}/{}", class, ans.split(' ').next().unwrap()));
    // model sees a *shuffled* member order half of the time: the answer must not depend on it
    let shown = if r.chance(1, 2) { proto(v, &mut Some(r)) } else { p.clone() };
    let nontrivial = !matches!(v, Value::Null | Value::Bool(_));
    sink.op(&format!("canon {}", shown), &ans, nontrivial);
    sink.oracle(ans != "panic", "canonicalize panicked", &replay);
    // every route to the canonical encoding gives the same answer: `Json::canonicalize`, `Json::to_writer`
    // (the writer the crate documents for canonical output) and `JsonPretty::canonicalize`
    {
        let v2 = v.clone();
        let w = match guarded(move || { let mut buf = Vec::new(); Json::to_writer(&mut buf, &v2).map(|_| buf) }) {
            Err(()) => "panic".to_string(),
            Ok(Err(_)) => "err".to_string(),
            Ok(Ok(b)) => format!("ok {}", hex(&b)),
        };
        sink.oracle(w == ans, "Json::to_writer does not write (or refuse) what Json::canonicalize answers", &replay);
        // ... also into a destination that takes only a few bytes per `write` call and keeps taking them
        // (a pipe, a socket, a chunking adaptor): every byte of the canonical text arrives
        struct Few(Vec<u8>, usize);
        impl std::io::Write for Few {
            fn write(&mut self, d: &[u8]) -> std::io::Result<usize> {
                let n = d.len().min(self.1);
                self.0.extend_from_slice(&d[..n]);
                Ok(n)
            }
            fn flush(&mut self) -> std::io::Result<()> {
                Ok(())
            }
        }
        for per_call in [1usize, 3] {
            let v4 = v.clone();
            let f = match guarded(move || { let mut few = Few(Vec::new(), per_call); Json::to_writer(&mut few, &v4).map(|_| few.0) }) {
                Err(()) => "panic".to_string(),
                Ok(Err(_)) => "err".to_string(),
                Ok(Ok(b)) => format!("ok {}", hex(&b)),
            };
            sink.oracle(f == ans, "Json::to_writer into a destination that takes a few bytes per call does not deliver the canonical text", &replay);
        }
        let v3 = v.clone();
        let p2 = match guarded(move || in_toto::interchange::JsonPretty::canonicalize(&v3)) {
            Err(()) => "panic".to_string(),
            Ok(Err(_)) => "err".to_string(),
            Ok(Ok(b)) => format!("ok {}", hex(&b)),
        };
        sink.oracle(p2 == ans, "JsonPretty::canonicalize differs from Json::canonicalize", &replay);
    }
    // integer-only
    if contains_float(v) {
        sink.oracle(ans == "err", "value with a non-integer number was not rejected", &replay);
        return;
    }
    // the bytes of the very call that was reported above (a second call may behave differently when the
    // encoder keeps state between calls), and a second call, which must give the same bytes
    let bytes = match ans.strip_prefix("ok ").and_then(crate::proto::unhex) {
        Some(b) => b,
        None => {
            sink.oracle(false, "value without non-integers was rejected", &replay);
            return;
        }
    };
    sink.oracle(Json::canonicalize(v).ok().as_deref() == Some(&bytes[..]), "two canonicalizations of one value give different bytes", &replay);
    // loss-free: valid JSON that parses back to the identical value
    match serde_json::from_slice::<Value>(&bytes) {
        Ok(back) => sink.oracle(back == *v, "canonical text parses back to a different value", &replay),
        Err(_) => sink.oracle(false, "canonical text is not valid JSON", &replay),
    }
    // ... and through the crate's own readers (they feed the canonicaliser when a document is re-encoded)
    {
        use in_toto::interchange::JsonPretty;
        let readers: Vec<(&str, Option<Value>)> = vec![
            ("Json::from_slice", Json::from_slice::<Value>(&bytes).ok()),
            ("Json::from_reader", Json::from_reader::<_, Value>(std::io::Cursor::new(bytes.clone())).ok()),
            ("JsonPretty::from_slice", JsonPretty::from_slice::<Value>(&bytes).ok()),
            ("JsonPretty::from_reader", JsonPretty::from_reader::<_, Value>(std::io::Cursor::new(bytes.clone())).ok()),
        ];
        struct Portions(Vec<u8>, usize, usize);
        impl std::io::Read for Portions {
            fn read(&mut self, buf: &mut [u8]) -> std::io::Result<usize> {
                let n = self.2.min(buf.len()).min(self.0.len() - self.1);
                buf[..n].copy_from_slice(&self.0[self.1..self.1 + n]);
                self.1 += n;
                Ok(n)
            }
        }
        let mut readers = readers;
        for per_call in [1usize, 2, 3, 7] {
            readers.push(("Json::from_reader (a source that hands out a few bytes per call)", Json::from_reader::<_, Value>(Portions(bytes.clone(), 0, per_call)).ok()));
        }
        readers.push(("JsonPretty::from_reader (a source that hands out one byte per call)", JsonPretty::from_reader::<_, Value>(Portions(bytes.clone(), 0, 1)).ok()));
        for (name, back) in readers {
            sink.oracle(back.as_ref() == Some(v), &format!("canonical text read with {} is not the value that was encoded", name), &replay);
        }
    }
    sink.oracle(scan_canonical(&bytes), "whitespace outside strings in canonical text", &replay);
    sink.oracle(keys_sorted(&bytes), "object members of the canonical text are not sorted by code point", &replay);
    // the model's strict reader must read the implementation's text as the same value
    sink.op(&format!("parsej {}", hex(&bytes)), &format!("ok {}", p), nontrivial);
    // deterministic / spelling-insensitive: other spellings of the same value canonicalize alike
    for _ in 0..2 {
        let text = spell(v, r);
        match serde_json::from_str::<Value>(&text) {
            Ok(v2) => {
                let same = Json::canonicalize(&v2).ok().as_deref() == Some(&bytes[..]);
                sink.oracle(same, "another spelling of the same value canonicalizes differently", &format!("{} // spelling {}", replay, hex(text.as_bytes())));
                let own = Json::from_slice::<Value>(text.as_bytes()).ok().and_then(|v3| Json::canonicalize(&v3).ok());
                sink.oracle(own.as_deref() == Some(&bytes[..]), "another spelling of the same value, read with the crate's own reader, canonicalizes differently", &format!("{} // spelling {}", replay, hex(text.as_bytes())));
                sink.stat("spellings/ok");
            }
            Err(_) => {
                sink.oracle(false, "a valid spelling was rejected by the JSON reader", &format!("{} // spelling {}", replay, hex(text.as_bytes())));
            }
        }
    }
}

fn replay(cfg: &Cfg, path: &std::path::Path) {
    let mut sink = Sink::new(&cfg.out);
    let mut r = Rng::new(cfg.seed);
    for line in std::fs::read_to_string(path).unwrap().lines() {
        let line = line.split(" // ").next().unwrap();
        if let Some(rest) = line.strip_prefix("canon ") {
            match crate::jsongen_parse::parse_proto(rest) {
                Some(v) => case(&mut sink, &mut r, &v, "replay"),
                None => sink.oracle(false, "unparsable replay line", line),
            }
        } else {
            sink.oracle(false, "unparsable replay line", line);
        }
    }
    sink.finish(&cfg.out, serde_json::json!({}));
}

pub fn run(cfg: &Cfg) {
    // (soak of the text reader alone: ITV_TEXT_SOAK=<cases>)
    if let Some(n) = std::env::var("ITV_TEXT_SOAK").ok().and_then(|x| x.parse::<usize>().ok()) {
        let mut sink = Sink::new(&cfg.out);
        let mut r = Rng::new(cfg.seed ^ 0x7e57);
        crate::textgen::run_text_cases(&mut sink, &mut r, n);
        sink.finish(&cfg.out, serde_json::json!({}));
        return;
    }
    if let Some(p) = &cfg.replay {
        return replay(cfg, p);
    }
    let mut sink = Sink::new(&cfg.out);
    let mut r = Rng::new(cfg.seed);
    // documents larger than the blocks a reader is read in (4, 8, 16, 64 KiB), filled with characters of two,
    // three and four bytes at every alignment: a block boundary falls inside a character
    for unit in ["\u{e9}", "\u{65e5}", "\u{1F600}"] {
        for lead in 0..4usize {
            let body: String = std::iter::repeat(unit).take(70_000 / unit.len()).collect();
            let v = serde_json::json!({ "k": format!("{}{}", "x".repeat(lead), body), format!("{}{}", "y".repeat(lead), unit.repeat(3000)): 1 });
            case(&mut sink, &mut r, &v, "larger-than-a-block");
        }
    }
    // corpus
    let corpus = [
        r#"{"o":{"a":[1,2,3],"s":"string","n":123,"t":true,"f":false,"0":null}}"#,
        r#"{"lol":["haha","new\nline"]}"#,
        r#"[18446744073709551615,-9223372036854775808,0,-1]"#,
        r#"{"":"","\u0000":"\u001f","\ud83d\ude00":"\u00e9","z":{"b":1,"a":2,"aa":3,"A":4}}"#,
        r#"[1.5]"#,
        r#"{"a":{"b":[{"c":1e2}]}}"#,
        r#"[-0]"#,
        r#"[18446744073709551616]"#,
        r#"["\\n","\n","\\\n","\"","\\\""]"#,
        r#"[[],{},[[]],[{}],{"a":[]},{"a":{}}]"#,
    ];
    for t in corpus {
        let v: Value = serde_json::from_str(t).unwrap();
        case(&mut sink, &mut r, &v, "corpus");
    }
    let n = if cfg.thorough { 40_000 } else { 4_000 };
    for _ in 0..n {
        let depth = 1 + r.below(4);
        let floats = if r.chance(1, 6) { 150 } else { 0 };
        let v = gen_value(&mut r, depth, floats);
        case(&mut sink, &mut r, &v, "random");
    }
    // deep values: nested as deep as the JSON reader goes (127 containers around a scalar) and a little
    // less, lists and objects mixed, the innermost container empty or not
    for depth in [1usize, 2, 60, 100, 120, 125, 126, 127] {
        for variant in 0..6 {
            let mut v = match variant % 3 {
                0 => Value::from(7),
                1 => Value::String("deep\n".into()),
                _ => Value::Array(vec![]),
            };
            let levels = if variant % 3 == 2 { depth - 1 } else { depth };
            for lvl in 0..levels {
                v = if (variant < 3 && lvl % 2 == 0) || r.chance(1, 3) {
                    Value::Array(vec![v])
                } else {
                    let mut m = serde_json::Map::new();
                    m.insert(format!("k{}", lvl % 3), v);
                    Value::Object(m)
                };
            }
            case(&mut sink, &mut r, &v, "deep");
        }
    }
    // every Unicode scalar value in a string, in blocks (thorough: all; quick: a stride)
    let stride = if cfg.thorough { 1 } else { 61 };
    let mut cp = 0u32;
    let mut block = String::new();
    let mut blocks = 0u64;
    while cp <= 0x10FFFF {
        if let Some(c) = char::from_u32(cp) {
            block.push(c);
        }
        if block.chars().count() >= 64 {
            let v = Value::Array(vec![Value::String(block.clone())]);
            case(&mut sink, &mut r, &v, "allchars");
            blocks += 1;
            block.clear();
        }
        cp += stride;
    }
    if !block.is_empty() {
        let v = Value::Array(vec![Value::String(block.clone())]);
        case(&mut sink, &mut r, &v, "allchars");
        blocks += 1;
    }
    sink.note(&format!("all-characters sweep: stride {} over U+0000..U+10FFFF in {} blocks of 64 characters", stride, blocks));
    // the source text side of "depends only on the value": the text reader against Model/JsonText.lean
    crate::textgen::run_text_cases(&mut sink, &mut r, if cfg.thorough { 20000 } else { 1500 });
    sink.finish(&cfg.out, serde_json::json!({"exhaustive_scope": if cfg.thorough { 0x110000 - 0x800 } else { 0 }}));
}
