//! `itv <property> --tier quick|thorough --seed N --out DIR [--replay FILE]`
//! Runs the real in-toto-rs code on generated cases and writes, into DIR:
//!   ops.txt     one model operation per line (fed to the Lean driver)
//!   impl.txt    the implementation's canonical answer to each line
//!   oracle.txt  `FAIL <what> <replay>` for every case on which the property itself failed
//!   stats.json  counts and input distribution
mod c03;
mod c04;
mod c05;
mod c09;
mod c10;
mod c11;
mod attgen;
mod c12;
mod c14;
mod c16;
mod c16_doc;
mod c17;
mod c18;
mod c19;
mod olpc;
mod c20;
mod e2e;
mod e2e_props;
mod jsongen;
mod jsongen_parse;
mod meta;
mod model;
mod probe;
mod proto;
mod rng;
mod timegen;
mod textgen;

use std::path::PathBuf;

pub struct Cfg {
    pub thorough: bool,
    pub seed: u64,
    pub out: PathBuf,
    pub replay: Option<PathBuf>,
}

/// A host process usually has a logger installed, and `log`'s macros evaluate their arguments only
/// then: this one is enabled at every level and formats every record (into a counter), so that what the
/// library computes for its log lines is computed here too.
struct EvalLogger;
static LOGGED_BYTES: std::sync::atomic::AtomicUsize = std::sync::atomic::AtomicUsize::new(0);
impl log::Log for EvalLogger {
    fn enabled(&self, _: &log::Metadata) -> bool {
        true
    }
    fn log(&self, record: &log::Record) {
        let line = format!("{}", record.args());
        LOGGED_BYTES.fetch_add(line.len(), std::sync::atomic::Ordering::Relaxed);
    }
    fn flush(&self) {}
}
static EVAL_LOGGER: EvalLogger = EvalLogger;

fn main() {
    if std::env::var("ITV_NO_LOGGER").is_err() {
        let _ = log::set_logger(&EVAL_LOGGER);
        log::set_max_level(log::LevelFilter::Trace);
    }
    let args: Vec<String> = std::env::args().collect();
    if args.len() < 2 {
        eprintln!("usage: itv <property> --tier quick|thorough --seed N --out DIR");
        std::process::exit(2);
    }
    let prop = args[1].clone();
    let mut cfg = Cfg { thorough: false, seed: 1, out: PathBuf::from("out"), replay: None };
    let mut i = 2;
    while i < args.len() {
        match args[i].as_str() {
            "--tier" => {
                cfg.thorough = args[i + 1] == "thorough";
                i += 2
            }
            "--seed" => {
                cfg.seed = args[i + 1].parse().unwrap_or(1);
                i += 2
            }
            "--out" => {
                cfg.out = PathBuf::from(&args[i + 1]);
                i += 2
            }
            "--replay" => {
                cfg.replay = Some(PathBuf::from(&args[i + 1]));
                i += 2
            }
            a => {
                eprintln!("unknown argument {}", a);
                std::process::exit(2);
            }
        }
    }
    // panics of the code under test are caught per case; keep stderr quiet
    if std::env::var("ITV_SHOW_PANICS").is_err() {
        std::panic::set_hook(Box::new(|_| {}));
    }
    if prop == "probe" {
        return probe::run();
    }
    match prop.as_str() {
        "C03" => c03::run(&cfg),
        "C04" => c04::run(&cfg),
        "C05" => c05::run(&cfg),
        "C09" => c09::run(&cfg),
        "C10" => c10::run(&cfg),
        "C11" => c11::run(&cfg),
        "C01" => e2e_props::run(&cfg, "C01"),
        "C02" => e2e_props::run(&cfg, "C02"),
        "C06" => e2e_props::run(&cfg, "C06"),
        "C07" => e2e_props::run(&cfg, "C07"),
        "C08" => e2e_props::run(&cfg, "C08"),
        "C13" => e2e_props::run(&cfg, "C13"),
        "C15" => e2e_props::run(&cfg, "C15"),
        "C12" => c12::run(&cfg),
        "C14" => c14::run(&cfg),
        "C16" => c16::run(&cfg),
        "C17" => c17::run(&cfg),
        "C18" => c18::run(&cfg),
        "C19" => c19::run(&cfg),
        "C20" => c20::run(&cfg),
        p => {
            eprintln!("no generator for {}", p);
            std::process::exit(2);
        }
    }
}
