//! C18: `record_artifacts` / `in_toto_run` on materialised file trees vs the tree-walk model.
use crate::proto::{guarded, hex, hexs, Sink};
use crate::rng::Rng;
use crate::Cfg;
use in_toto::runlib::{in_toto_run, record_artifacts};
use std::path::Path;

#[derive(Clone, Debug)]
pub enum Node {
    File(u64, Vec<u8>),
    Dir(Vec<(String, Node)>),
    Link(String),
}

const NAMES: &[&str] = &["a.txt", "b", "sub", "d", ".hidden", "with space", "\u{e9}\u{4e2d}.bin", "x.py", "deep", "z", "back\\slash", "sub\\a.txt", "q\"uote", "tab\tname", "star*", "br[ack]et"];

struct TreeGen<'a> {
    r: &'a mut Rng,
    next_id: u64,
}

impl<'a> TreeGen<'a> {
    fn content(&mut self) -> Vec<u8> {
        match self.r.below(6) {
            0 => vec![],
            5 => {
                // sizes around and beyond other plausible read-block and reader-buffer sizes
                let n = *self.r.pick(&[4095usize, 4096, 4097, 6143, 6144, 6145, 8191, 8192, 8193, 9000, 12288, 16384, 16385, 20000, 33000]);
                self.r.bytes(n)
            }
            1 => b"hello\n".to_vec(),
            2 => {
                let n = 1 + self.r.below(40);
                self.r.bytes(n)
            }
            3 => {
                let n = 1020 + self.r.below(10);
                self.r.bytes(n)
            } // around the 1024-byte read buffer
            _ => {
                let n = 2048 + self.r.below(2000);
                self.r.bytes(n)
            }
        }
    }
    fn dir(&mut self, depth: usize) -> Node {
        let n = self.r.below(5);
        let mut es: Vec<(String, Node)> = vec![];
        for _ in 0..n {
            let name = self.r.pick(NAMES).to_string();
            if es.iter().any(|e| e.0 == name) {
                continue;
            }
            let node = if depth > 0 && self.r.chance(1, 3) {
                self.dir(depth - 1)
            } else {
                self.next_id += 1;
                Node::File(self.next_id, self.content())
            };
            es.push((name, node));
        }
        Node::Dir(es)
    }
}

/// all (path components, is_dir) of the tree
fn all_paths(n: &Node, cur: &mut Vec<String>, out: &mut Vec<(Vec<String>, bool)>) {
    if let Node::Dir(es) = n {
        for (name, c) in es {
            cur.push(name.clone());
            match c {
                Node::Dir(_) => {
                    out.push((cur.clone(), true));
                    all_paths(c, cur, out);
                }
                Node::File(..) => out.push((cur.clone(), false)),
                Node::Link(_) => {}
            }
            cur.pop();
        }
    }
}

/// the paths of the symbolic links of the tree
fn link_paths(n: &Node, cur: &mut Vec<String>, out: &mut Vec<Vec<String>>) {
    if let Node::Dir(es) = n {
        for (name, c) in es {
            cur.push(name.clone());
            match c {
                Node::Dir(_) => link_paths(c, cur, out),
                Node::Link(_) => out.push(cur.clone()),
                _ => {}
            }
            cur.pop();
        }
    }
}

fn add_links(root: &mut Node, r: &mut Rng, abs_root: &str, allow_relative: bool) {
    let mut targets = vec![];
    all_paths(root, &mut vec![], &mut targets);
    let nlinks = r.below(4);
    for li in 0..nlinks {
        if targets.is_empty() {
            break;
        }
        // where to put the link: a random directory
        let mut dirs: Vec<Vec<String>> = vec![vec![]];
        dirs.extend(targets.iter().filter(|t| t.1).map(|t| t.0.clone()));
        let at = r.pick(&dirs).clone();
        let (tgt, _) = r.pick(&targets).clone();
        let kind = r.below(6);
        let target_text = match kind {
            0 | 1 if allow_relative => {
                // relative to the link's directory
                let ups = "../".repeat(at.len());
                format!("{}{}", ups, tgt.join("/"))
            }
            2 if allow_relative && !at.is_empty() => "..".to_string(), // cycle to the parent
            3 => format!("{}/{}", abs_root, at.join("/")),            // absolute cycle to its own directory
            _ => format!("{}/{}", abs_root, tgt.join("/")),
        };
        let name = format!("link{}", li);
        let mut node: &mut Node = root;
        for c in &at {
            node = match node {
                Node::Dir(es) => &mut es.iter_mut().find(|e| e.0 == *c).unwrap().1,
                _ => unreachable!(),
            };
        }
        if let Node::Dir(es) = node {
            es.push((name.clone(), Node::Link(target_text)));
            // sometimes a link to that link (chain)
            if allow_relative && r.chance(1, 3) {
                es.push((format!("chain{}", li), Node::Link(name)));
            }
        }
    }
}

fn materialise(n: &Node, at: &Path) {
    match n {
        Node::File(_, c) => std::fs::write(at, c).unwrap(),
        Node::Dir(es) => {
            std::fs::create_dir_all(at).unwrap();
            for (name, c) in es {
                materialise(c, &at.join(name));
            }
        }
        Node::Link(t) => std::os::unix::fs::symlink(t, at).unwrap(),
    }
}

fn enc(n: &Node) -> String {
    match n {
        Node::File(id, c) => format!("F {} {}", id, hex(c)),
        Node::Link(t) => format!("L {}", hexs(t)),
        Node::Dir(es) => {
            let mut s = format!("D {}", es.len());
            for (name, c) in es {
                s.push_str(&format!(" {} {}", hexs(name), enc(c)));
            }
            s
        }
    }
}

fn show(res: &Result<in_toto::Result<std::collections::BTreeMap<in_toto::models::VirtualTargetPath, in_toto::models::TargetDescription>>, ()>) -> String {
    match res {
        Err(()) => "panic".into(),
        Ok(Err(_)) => "err".into(),
        Ok(Ok(m)) => {
            let mut out = format!("ok {}", m.len());
            for (k, v) in m {
                let d = v.get(&in_toto::crypto::HashAlgorithm::Sha256).map(|h| h.to_string()).unwrap_or_else(|| "nosha256".into());
                out.push_str(&format!(" {} {}", hexs(k.value()), d));
            }
            out
        }
    }
}

pub fn run(cfg: &Cfg) {
    let mut sink = Sink::new(&cfg.out);
    let mut r = Rng::new(cfg.seed);
    let old = std::env::current_dir().unwrap();
    // ---- lstrip on its own
    for _ in 0..(if cfg.thorough { 20_000 } else { 2_000 }) {
        let parts = ["a", "a/", "a/b", "a/b/", "ab", "", "/", "x/", "a/b/c", "./", "a//"];
        // one to three parts in a row, so that a prefix can occur repeatedly at the front of a path
        // (`a/a/b/c.txt`, `aab/c`), then a file name
        let lead: String = (0..1 + r.below(3)).map(|_| *r.pick(&parts)).collect();
        let path: String = format!("{}{}", lead, r.pick(&["c.txt", "", "b/c", "/c", "a", "ab"]));
        let strips: Option<Vec<&str>> = if r.chance(1, 6) { None } else { Some((0..r.below(4)).map(|_| *r.pick(&parts)).collect()) };
        let tmp = tempfile::Builder::new().prefix("itv-ls-").tempdir().unwrap();
        // record_artifact needs a real file; exercise the private function through it
        std::env::set_current_dir(tmp.path()).unwrap();
        let rel = path.trim_start_matches('/');
        if rel.is_empty() || rel.ends_with('/') || rel.contains("//") || rel.starts_with("./") {
            std::env::set_current_dir(&old).unwrap();
            continue;
        }
        if let Some(p) = Path::new(rel).parent() {
            let _ = std::fs::create_dir_all(p);
        }
        if std::fs::write(rel, b"x").is_err() {
            std::env::set_current_dir(&old).unwrap();
            continue;
        }
        let s2 = strips.clone();
        let rel2 = rel.to_string();
        let ans = match guarded(move || in_toto::runlib::record_artifact(&rel2, &[in_toto::crypto::HashAlgorithm::Sha256], s2.as_deref())) {
            Err(()) => "panic".to_string(),
            Ok(Err(_)) => "err".to_string(),
            Ok(Ok((vp, _))) => hexs(vp.value()),
        };
        std::env::set_current_dir(&old).unwrap();
        let st = match &strips {
            None => "~".to_string(),
            Some(v) if v.is_empty() => "=".to_string(),
            Some(v) => v.iter().map(|x| hexs(x)).collect::<Vec<_>>().join(","),
        };
        // the statement itself: the key is the path with the longest matching strip-prefix removed (once)
        if ans != "panic" && ans != "err" {
            let longest = strips.as_ref().and_then(|v| v.iter().filter(|p| rel.starts_with(**p)).max_by_key(|p| p.len()).copied()).unwrap_or("");
            let want = &rel[longest.len()..];
            sink.oracle(ans == hexs(want), "the recorded key is not the path with the longest matching strip-prefix removed", &format!("lstrip {} {}", hexs(rel), st));
        }
        sink.op(&format!("lstrip {} {}", hexs(rel), st), &ans, strips.as_ref().map(|v| !v.is_empty()).unwrap_or(false));
        sink.stat("lstrip");
    }
    // ---- streaming digests: `calculate_hashes` on readers that cut the input in every way
    hashes_cases(&mut sink, &mut r, if cfg.thorough { 6000 } else { 600 });
    // ---- the link builder's own recording of single files (`add_material`, `add_product`)
    for _ in 0..(if cfg.thorough { 300 } else { 40 }) {
        let tmp = tempfile::Builder::new().prefix("itv-add-").tempdir().unwrap();
        let len = *r.pick(&[0usize, 1, 55, 64, 1023, 1024, 1025, 5000, 20000]);
        let data = r.bytes(len);
        let path = tmp.path().join(*r.pick(&["a.txt", "with space", "\u{e9}.bin"]));
        std::fs::write(&path, &data).unwrap();
        let p = path.to_str().unwrap().to_string();
        let vp = in_toto::models::VirtualTargetPath::new(p.clone()).unwrap();
        let as_material = r.chance(1, 2);
        let (vp2, p2) = (vp.clone(), p.clone());
        let built = guarded(move || {
            let b = in_toto::models::LinkMetadataBuilder::new().name("s".into());
            if as_material { b.add_material(vp2).build() } else { b.add_product(vp2).build() }
        });
        let replay = format!("add_{} {} ({} bytes)", if as_material { "material" } else { "product" }, p2, len);
        match built {
            Ok(Ok(l)) => {
                let m = if as_material { &l.materials } else { &l.products };
                let want = hex(ring::digest::digest(&ring::digest::SHA256, &data).as_ref());
                let got = m.get(&vp).and_then(|d| d.get(&in_toto::crypto::HashAlgorithm::Sha256)).map(|h| h.to_string());
                sink.oracle(m.len() == 1 && got.as_deref() == Some(want.as_str()), "the digest a link builder records for a file is not the digest of its bytes", &replay);
                sink.stat("builder-add/ok");
            }
            _ => sink.oracle(false, "the link builder fails to record an existing file", &replay),
        }
    }
    // ---- trees
    let n = if cfg.thorough { 4000 } else { 300 };
    for i in 0..n {
        let tmp = tempfile::Builder::new().prefix("itv-rec-").tempdir().unwrap();
        let abs_root = std::fs::canonicalize(tmp.path()).unwrap().join("root");
        let abs = abs_root.to_str().unwrap().to_string();
        let mut g = TreeGen { r: &mut r, next_id: 0 };
        let mut tree = g.dir(2);
        // twin directories: the same file names under two roots (with other contents), as two build trees have
        let twins = i % 5 == 4;
        if twins {
            let mut mk = |g: &mut TreeGen, shared: bool| {
                let mut es: Vec<(String, Node)> = vec![];
                for name in ["out.bin", "lib/x.o", "only"] {
                    let _ = name;
                }
                g.next_id += 1;
                es.push((if shared { "out.bin".to_string() } else { format!("out{}.bin", g.next_id) }, Node::File(g.next_id, g.content())));
                if g.r.chance(1, 2) {
                    g.next_id += 1;
                    es.push((format!("own{}", g.next_id), Node::File(g.next_id, g.content())));
                }
                Node::Dir(es)
            };
            let shared = g.r.chance(2, 3);
            let (t1, t2) = (mk(&mut g, shared), mk(&mut g, shared));
            if let Node::Dir(es) = &mut tree {
                es.retain(|e| e.0 != "twin1" && e.0 != "twin2");
                es.push(("twin1".into(), t1));
                es.push(("twin2".into(), t2));
            }
        }
        let with_links = i % 4 != 0;
        if with_links {
            add_links(&mut tree, &mut r, &abs, true);
        }
        materialise(&tree, &abs_root);
        // directory entries that are neither regular files nor directories: a socket, a symbolic link to a
        // device. They are no artifacts - nothing is recorded for them, and the files next to them still are.
        // (The tree model knows files, directories and links only: such runs are judged by the walk oracle.)
        let mut specials = 0;
        if i % 7 == 3 {
            let mut dirs: Vec<std::path::PathBuf> = vec![abs_root.clone()];
            if let Ok(rd) = std::fs::read_dir(&abs_root) {
                for e in rd.flatten() {
                    if std::fs::symlink_metadata(e.path()).map(|m| m.is_dir()).unwrap_or(false) {
                        dirs.push(e.path());
                    }
                }
            }
            let d = r.pick(&dirs).clone();
            if r.chance(1, 2) && std::os::unix::fs::symlink("/dev/null", d.join("zz-null")).is_ok() {
                specials += 1;
            }
            if r.chance(1, 2) && std::os::unix::net::UnixListener::bind(d.join("zz-socket")).is_ok() {
                specials += 1;
            }
            sink.stat(&format!("tree/special-entries={}", specials));
        }
        std::env::set_current_dir(&abs_root).unwrap();
        let mut targets = vec![];
        all_paths(&tree, &mut vec![], &mut targets);
        // path arguments: the root, sub-directories, files, overlapping and non-normalised spellings
        let mut args: Vec<String> = vec![];
        let dirs_of_tree: Vec<String> = targets.iter().filter(|t| t.1).map(|t| t.0.join("/")).collect();
        // two sibling / nested directories, each stripped of its own prefix: equally named files of the
        // two arguments then want the same key
        let mut sibling_strips: Option<Vec<String>> = None;
        let mut links_of_tree: Vec<Vec<String>> = vec![];
        link_paths(&tree, &mut vec![], &mut links_of_tree);
        match r.below(9) {
            // a symbolic link named as an argument of its own, before or after the directory that holds
            // it (or the root): what is reached twice is recorded once, what is next to it is not lost
            _ if !twins && !links_of_tree.is_empty() && i % 3 == 0 => {
                let l = r.pick(&links_of_tree).clone();
                let parent = if l.len() > 1 { l[..l.len() - 1].join("/") } else { ".".to_string() };
                let link = l.join("/");
                match r.below(5) {
                    0 => args.extend([link, parent]),
                    1 => args.extend([link, ".".to_string()]),
                    2 => args.extend([parent, link]),
                    3 => args.push(link),
                    _ => {
                        // several links first, then the root
                        for l in links_of_tree.iter().take(3) {
                            args.push(l.join("/"));
                        }
                        args.push(".".into());
                    }
                }
                sink.stat("args/link-named");
            }
            // a path argument that climbs back out of a symbolic link (`<link>/..`, `<link>/../<name>`):
            // arguments are normalised as texts - the directory that holds the link is meant, not the
            // parent of wherever the link points
            _ if !twins && !links_of_tree.is_empty() && i % 3 == 1 => {
                let l = r.pick(&links_of_tree).clone();
                let link = l.join("/");
                let parent: Vec<String> = l[..l.len() - 1].to_vec();
                let siblings: Vec<String> = targets.iter().filter(|t| t.0.len() == parent.len() + 1 && t.0[..parent.len()] == parent[..]).map(|t| t.0[parent.len()].clone()).collect();
                if siblings.is_empty() || r.chance(1, 3) {
                    args.push(format!("{}/..", link));
                } else {
                    args.push(format!("{}/../{}", link, r.pick(&siblings)));
                }
                sink.stat("args/out-of-a-link");
            }
            _ if twins => {
                let (a, b) = if r.chance(1, 2) { ("twin1", "twin2") } else { ("twin2", "twin1") };
                sibling_strips = Some(match r.below(4) {
                    0 => vec![format!("{}/", a), format!("{}/", b)],
                    1 => vec!["twin1/".into(), "twin2/".into()],
                    2 => vec![a.to_string(), b.to_string()],
                    _ => vec![format!("./{}/", a)], // a prefix that matches nothing: keys stay apart
                });
                args.push(a.to_string());
                args.push(if r.chance(1, 4) { format!("./{}", b) } else { b.to_string() });
            }
            6 | 7 | 8 if dirs_of_tree.len() >= 2 => {
                let a = r.pick(&dirs_of_tree).clone();
                let mut b = r.pick(&dirs_of_tree).clone();
                if a == b {
                    b = dirs_of_tree.iter().find(|d| **d != a).unwrap().clone();
                }
                sibling_strips = Some(match r.below(3) {
                    0 => vec![format!("{}/", a), format!("{}/", b)],
                    1 => vec![format!("{}/", b), format!("{}/", a)],
                    _ => vec![a.clone(), b.clone()],
                });
                args.push(a);
                args.push(b);
            }
            0 => args.push(".".into()),
            1 => args.push("./".into()),
            2 if !targets.is_empty() => {
                let t = r.pick(&targets).0.join("/");
                args.push(t.clone());
                if r.chance(1, 2) {
                    args.push(".".into()); // overlapping
                }
            }
            3 if !targets.is_empty() => {
                let t = r.pick(&targets).0.join("/");
                args.push(format!("./{}/../{}", t, t.rsplit('/').next().unwrap()));
            }
            4 => {
                args.push(".".into());
                args.push(".".into());
            }
            _ => {
                for t in targets.iter().filter(|_| r.chance(1, 3)).take(3) {
                    args.push(t.0.join("/"));
                }
                if args.is_empty() {
                    args.push(".".into());
                }
            }
        }
        let strips: Option<Vec<String>> = match r.below(4) {
            _ if sibling_strips.is_some() => sibling_strips.clone(),
            0 => Some(vec!["sub/".into(), "d/".into()]),
            1 if !targets.is_empty() => {
                let t = &r.pick(&targets).0;
                Some(vec![format!("{}/", t[0]), t[0].clone()])
            }
            2 => Some(vec![]),
            _ => None,
        };
        let algs: Option<Vec<&str>> = match r.below(8) {
            0 => Some(vec!["sha256"]),
            1 => Some(vec!["sha512"]),
            2 => Some(vec!["sha256", "sha512"]),
            3 => Some(vec!["md5"]),
            // (a selection that names an algorithm twice - before, between and after the others)
            4 => Some(r.pick(&[vec!["sha256", "sha256", "sha512"], vec!["sha512", "sha512", "sha256"], vec!["sha256", "sha512", "sha256"], vec!["sha512", "sha256", "sha256"], vec!["sha256", "sha256"]]).clone()),
            _ => None,
        };
        let a2: Vec<&str> = args.iter().map(|s| s.as_str()).collect();
        let s2: Option<Vec<&str>> = strips.as_ref().map(|v| v.iter().map(|s| s.as_str()).collect());
        let (a3, s3, al3) = (a2.clone(), s2.clone(), algs.clone());
        let res = guarded(move || record_artifacts(&a3, al3.as_deref(), s3.as_deref()));
        std::env::set_current_dir(&old).unwrap();
        let op = format!(
            "record R {} T {} P {} {} S {}",
            hexs(&abs),
            enc(&tree),
            args.len(),
            args.iter().map(|a| hexs(a)).collect::<Vec<_>>().join(" "),
            match &strips {
                None => "~".to_string(),
                Some(v) => format!("{} {}", v.len(), v.iter().map(|a| hexs(a)).collect::<Vec<_>>().join(" ")).trim_end().to_string(),
            }
        );
        let has_sha256 = algs.as_ref().map(|a| a.contains(&"sha256")).unwrap_or(true);
        let unknown_alg = algs.as_ref().map(|a| a.contains(&"md5")).unwrap_or(false);
        sink.oracle(!matches!(res, Err(())), "record_artifacts panicked", &op);
        sink.stat(&format!("record/{}/{}", if with_links { "links" } else { "plain" }, show(&res).split(' ').next().unwrap()));
        if unknown_alg {
            sink.oracle(matches!(res, Ok(Err(_))), "an unknown hash algorithm was not rejected", &op);
        } else if has_sha256 && specials == 0 {
            sink.op(&op, &show(&res), true);
        }
        if let (false, Ok(Ok(m))) = (unknown_alg, &res) {
            // sha512 only: digests checked against ring. Without left-strip prefixes a key is the path of
            // its file; with them the key no longer says where the file is (it may even name another
            // existing file), so the digest must then be that of some file of the tree.
            fn all_contents<'a>(n: &'a Node, out: &mut Vec<&'a Vec<u8>>) {
                match n {
                    Node::File(_, c) => out.push(c),
                    Node::Dir(es) => es.iter().for_each(|e| all_contents(&e.1, out)),
                    Node::Link(_) => {}
                }
            }
            let mut contents = vec![];
            all_contents(&tree, &mut contents);
            let all512: Vec<String> = contents.iter().map(|c| hex(ring::digest::digest(&ring::digest::SHA512, c).as_ref())).collect();
            for (k, v) in m {
                if let Some(h) = v.get(&in_toto::crypto::HashAlgorithm::Sha512) {
                    if strips.is_none() {
                        if let Ok(c) = std::fs::read(abs_root.join(k.value())) {
                            let want = hex(ring::digest::digest(&ring::digest::SHA512, &c).as_ref());
                            sink.oracle(h.to_string() == want, "recorded sha512 digest is not the digest of the file", &op);
                        }
                    } else {
                        sink.oracle(all512.contains(&h.to_string()), "recorded sha512 digest is not the digest of any file of the tree", &op);
                    }
                }
            }
        }
        // one entry per regular file (twin directories without symbolic links inside: the files under the
        // two arguments are known by construction) - a silently replaced entry shows as a missing one
        if twins {
            fn count(n: &Node) -> Option<usize> {
                match n {
                    Node::File(..) => Some(1),
                    Node::Link(_) => None,
                    Node::Dir(es) => es.iter().map(|e| count(&e.1)).sum(),
                }
            }
            if let (Node::Dir(es), Ok(Ok(m))) = (&tree, &res) {
                let c: Option<usize> = es.iter().filter(|e| e.0 == "twin1" || e.0 == "twin2").map(|e| count(&e.1)).sum();
                if let Some(c) = c {
                    sink.oracle(m.len() == c, "recording succeeded with fewer entries than regular files under the path arguments (an entry was replaced)", &op);
                }
            }
        }
        // one entry for each regular file reachable under the arguments, keyed by its normalised path, and
        // nothing else: against a walk of the tree on disk that uses `std::fs` only (links followed, a
        // link to one of its own ancestors skipped; a tree with a dangling link is left to the model)
        if strips.as_ref().map_or(true, |v| v.is_empty()) && !unknown_alg {
            fn ewalk(display: &Path, stack: &mut Vec<std::path::PathBuf>, out: &mut std::collections::BTreeSet<String>) -> Option<()> {
                let md = std::fs::metadata(display).ok()?;
                if md.is_file() {
                    out.insert(path_clean::clean(display.to_str()?).to_str()?.to_string());
                } else if md.is_dir() {
                    let canon = std::fs::canonicalize(display).ok()?;
                    // (a cycle is looked for only where a link is followed; a real directory below a
                    // followed link is walked even if it was walked before)
                    let is_link = std::fs::symlink_metadata(display).ok()?.file_type().is_symlink();
                    if is_link && stack.contains(&canon) {
                        return Some(());
                    }
                    stack.push(canon);
                    for e in std::fs::read_dir(display).ok()? {
                        ewalk(&display.join(e.ok()?.file_name()), stack, out)?;
                    }
                    stack.pop();
                }
                Some(())
            }
            std::env::set_current_dir(&abs_root).unwrap();
            let mut want = std::collections::BTreeSet::new();
            let known = args.iter().all(|a| ewalk(Path::new(path_clean::clean(a).to_str().unwrap_or(".")), &mut vec![], &mut want).is_some());
            std::env::set_current_dir(&old).unwrap();
            // (what can be walked can be recorded: without strip prefixes no two files want the same key)
            if known {
                sink.oracle(!matches!(res, Ok(Err(_))), "recording fails although every path argument names files and directories that can be walked", &op);
            }
            if let (true, Ok(Ok(m))) = (known, &res) {
                let got: std::collections::BTreeSet<String> = m.keys().map(|k| k.value().to_string()).collect();
                let missing: Vec<&String> = want.difference(&got).collect();
                let extra: Vec<&String> = got.difference(&want).collect();
                sink.oracle(missing.is_empty(), &format!("a regular file reachable under the path arguments has no entry (e.g. {:?})", missing.first()), &op);
                sink.oracle(extra.is_empty(), &format!("an entry is recorded that is no regular file reachable under the path arguments (e.g. {:?})", extra.first()), &op);
                sink.stat("record/walk-oracle");
            }
        }
        // every requested algorithm present in every entry
        if let (Ok(Ok(m)), Some(a)) = (&res, &algs) {
            let distinct: std::collections::BTreeSet<&&str> = a.iter().collect();
            for v in m.values() {
                sink.oracle(v.len() == distinct.len(), "an entry lacks a requested digest algorithm", &op);
                for name in &distinct {
                    let alg = if ***name == *"sha256" { in_toto::crypto::HashAlgorithm::Sha256 } else { in_toto::crypto::HashAlgorithm::Sha512 };
                    let want_len = if ***name == *"sha256" { 64 } else { 128 };
                    sink.oracle(v.get(&alg).map_or(false, |h| h.to_string().len() == want_len), "an entry's digest under a requested algorithm is missing or is not a digest of that algorithm", &op);
                }
            }
        }
        // ---- in_toto_run: materials before, products after, byproducts = output and status
        if i % 5 == 0 {
            std::env::set_current_dir(&abs_root).unwrap();
            // the command creates a file and rewrites every non-empty top-level regular file with other bytes
            // of the same length, keeping its modification time (what `cp -p`, `touch -r`, `rsync -t`,
            // reproducible-build clamping do)
            let script = "echo out-text; echo err-text 1>&2; echo created > created-by-run.txt; \
                for f in *; do if [ -f \"$f\" ] && [ ! -L \"$f\" ] && [ -s \"$f\" ] && [ \"$f\" != created-by-run.txt ]; then \
                n=$(wc -c < \"$f\"); cp -p \"$f\" .keep-run; head -c \"$n\" /dev/zero | tr '\\0' 'Z' > \"$f\"; touch -r .keep-run \"$f\"; rm -f .keep-run; fi; done; exit 0";
            // variants of the call: with / without a signing key, hash-algorithm selections, strip
            // prefixes, other material than product paths, an empty command, other exit statuses
            let variant = (i / 5) % 10;
            // (variants 8 and 9: a command that is given arguments - among them names of things that exist
            // in the directory it runs in, in several spellings - and prints them back as it received them)
            let mut names: Vec<String> = std::fs::read_dir(".").map(|rd| rd.flatten().map(|e| e.file_name().to_string_lossy().to_string()).collect()).unwrap_or_default();
            names.sort();
            let mut echo_args: Vec<String> = vec![".".into(), "..".into(), "./".into(), "no-such-file".into(), "-n".into(), "".into()];
            for nme in names.iter().take(3) {
                echo_args.push(nme.clone());
                echo_args.push(format!("./{}", nme));
                echo_args.push(format!("x/../{}", nme));
            }
            let echo_script = r#"for a in "$@"; do printf '%s\n' "$a"; done"#;
            let pool = crate::meta::key_pool(0);
            let key = if variant % 2 == 1 { Some(&pool[(i / 5) % pool.len()]) } else { None };
            let algs: Option<&[&str]> = match variant { 2 => Some(&["sha512", "sha256"]), 3 => Some(&["sha512"]), _ => None };
            let strips: Option<&[&str]> = if variant == 4 { Some(&["./", "sub/"]) } else { None };
            // 66 KB of two-byte characters on both streams (a pipe hands that over in several portions), and
            // output that is no UTF-8 at all (there is no text to record: an error, or the bytes themselves)
            let long_script = r"i=0; while [ $i -lt 3000 ]; do printf '\303\251\303\251\303\251\303\251\303\251\303\251\303\251\303\251\303\251\303\251\303\251'; printf '\303\251\303\251\303\251\303\251\303\251\303\251\303\251\303\251\303\251\303\251\303\251' 1>&2; i=$((i+1)); done";
            let (status, cmd): (i32, Vec<&str>) = match variant {
                6 => (0, vec!["sh", "-c", long_script]),
                7 => (0, vec!["sh", "-c", r"printf 'ok \377\376 not text'"]),
                5 => (0, vec![]),
                1 => (3, vec!["sh", "-c", "echo out-text; echo err-text 1>&2; echo created > created-by-run.txt; exit 3"]),
                8 | 9 => {
                    let mut c = vec!["sh", "-c", echo_script, "sh"];
                    c.extend(echo_args.iter().map(|a| a.as_str()));
                    (0, c)
                }
                _ => (0, vec!["sh", "-c", script]),
            };
            let before = record_artifacts(&["."], algs, strips);
            let (k2, c2) = (key.map(|k| &k.key), cmd.clone());
            let run = guarded(std::panic::AssertUnwindSafe(|| in_toto_run("step", Some("."), &["."], &["."], &c2, k2, algs, strips)));
            let after = record_artifacts(&["."], algs, strips);
            std::env::set_current_dir(&old).unwrap();
            sink.stat(&format!("run/variant-{}", variant));
            if let (Ok(b), Ok(Ok(mb)), Ok(a)) = (before, run, after) {
                // a link signed by `in_toto_run` verifies under the key's public part, after a wire trip too
                match key {
                    Some(k) => {
                        let ok1 = mb.verify(1, [k.public()]).is_ok();
                        let ok2 = serde_json::to_vec(&mb).ok().and_then(|t| serde_json::from_slice::<in_toto::models::Metablock>(&t).ok()).map_or(false, |m2| m2.verify(1, [k.public()]).is_ok());
                        sink.oracle(mb.signatures.len() == 1 && ok1 && ok2, "a link signed by in_toto_run does not verify under the signer's key", &op);
                    }
                    None => sink.oracle(mb.signatures.is_empty(), "in_toto_run without a key returns signatures", &op),
                }
                if let in_toto::models::MetadataWrapper::Link(l) = mb.metadata {
                    sink.oracle(l.name == "step", "the link of a run does not carry the step's name", &op);
                    sink.oracle(l.materials == b, "materials of a run are not the artifacts as they were before the command", &op);
                    sink.oracle(l.products == a, "products of a run are not the artifacts as they are after the command", &op);
                    // independently of record_artifacts: every product digest is the digest of the bytes now on disk
                    if strips.is_none() {
                        for (k, v) in &l.products {
                            if let Ok(c) = std::fs::read(abs_root.join(k.value())) {
                                if let Some(h) = v.get(&in_toto::crypto::HashAlgorithm::Sha256) {
                                    let want = hex(ring::digest::digest(&ring::digest::SHA256, &c).as_ref());
                                    sink.oracle(h.to_string() == want, "a product digest of a run is not the digest of the file as it is after the command", &op);
                                }
                                if let Some(h) = v.get(&in_toto::crypto::HashAlgorithm::Sha512) {
                                    let want = hex(ring::digest::digest(&ring::digest::SHA512, &c).as_ref());
                                    sink.oracle(h.to_string() == want, "a sha512 product digest of a run is not the digest of the file as it is after the command", &op);
                                }
                                sink.oracle(v.len() == algs.map_or(1, |a| a.len()), "a product of a run lacks a requested digest algorithm", &op);
                            }
                        }
                    }
                    if cmd.is_empty() {
                        sink.oracle(l.byproducts == in_toto::models::byproducts::ByProducts::new() && l.materials == l.products, "a run without a command records byproducts or a change", &op);
                    } else if variant == 6 {
                        let want = "\u{e9}".repeat(33000);
                        sink.oracle(l.byproducts.stdout().as_deref() == Some(want.as_str()) && l.byproducts.stderr().as_deref() == Some(want.as_str()), "byproducts of a run are not the command's (long, non-ASCII) output streams", &op);
                    } else if variant >= 8 {
                        let want: String = echo_args.iter().map(|a| format!("{}\n", a)).collect();
                        sink.oracle(l.byproducts.stdout().as_deref() == Some(want.as_str()) && l.byproducts.return_value() == Some(0), "the command of a run did not receive its arguments as they were given (its output lists other arguments)", &op);
                        sink.stat("run/arguments-echoed");
                    } else if variant == 7 {
                        sink.oracle(false, "a run whose command wrote bytes that are no text was recorded with other output than the command's", &op);
                    } else {
                        sink.oracle(l.byproducts.stdout().as_deref() == Some("out-text\n") && l.byproducts.stderr().as_deref() == Some("err-text\n") && l.byproducts.return_value() == Some(status), "byproducts of a run are not the command's output streams and exit status", &op);
                    }
                    sink.stat("run/ok");
                }
            } else {
                sink.stat("run/skipped");
            }
        }
    }
    sink.finish(&cfg.out, serde_json::json!({}));
}

// ---------------------------------------------------------------------------------------------
// `calculate_hashes` on readers that cut the input in every way (`hashes` op, Model/Md.lean)

/// a reader that hands out the data in the scheduled portions and records what each `read` call returned
struct ChunkReader {
    data: Vec<u8>,
    pos: usize,
    /// `Some(n)`: up to n bytes (0 = report the end although data is left); `None`: an I/O error
    sched: Vec<Option<usize>>,
    i: usize,
    log: std::rc::Rc<std::cell::RefCell<Vec<String>>>,
}

impl std::io::Read for ChunkReader {
    fn read(&mut self, buf: &mut [u8]) -> std::io::Result<usize> {
        let step = self.sched.get(self.i).cloned().unwrap_or(Some(usize::MAX));
        self.i += 1;
        match step {
            None => {
                self.log.borrow_mut().push("E".into());
                Err(std::io::Error::new(std::io::ErrorKind::Other, "scheduled failure"))
            }
            Some(n) => {
                let k = n.min(buf.len()).min(self.data.len() - self.pos);
                buf[..k].copy_from_slice(&self.data[self.pos..self.pos + k]);
                // (whatever else is in the buffer is not part of the answer)
                for b in buf[k..].iter_mut() {
                    *b = 0xAA;
                }
                self.pos += k;
                self.log.borrow_mut().push(format!("D{}", hex(&buf[..k])));
                Ok(k)
            }
        }
    }
}

pub fn hashes_cases(sink: &mut Sink, r: &mut Rng, n: usize) {
    use in_toto::crypto::{calculate_hashes, HashAlgorithm};
    for i in 0..n {
        let len = match r.below(8) {
            0 => 0,
            1 => r.below(70),
            2 => *r.pick(&[55usize, 56, 63, 64, 65, 111, 112, 119, 120, 127, 128, 129, 1023, 1024, 1025, 2047, 2048, 2049, 4096]),
            3 => 1000 + r.below(3000),
            _ => r.below(1500),
        };
        let data = r.bytes(len);
        let sched: Vec<Option<usize>> = match r.below(7) {
            0 => vec![],                                                       // full buffers
            1 => (0..len + 2).map(|_| Some(1)).collect(),                      // byte by byte
            2 => (0..60).map(|_| Some(1 + r.below(130))).collect(),            // short reads
            3 => (0..40).map(|_| Some(*r.pick(&[1usize, 63, 64, 65, 127, 128, 129, 1024, 4096]))).collect(),
            4 => (0..30).map(|_| if r.chance(1, 8) { Some(0) } else { Some(1 + r.below(700)) }).collect(), // an early "end"
            5 => (0..30).map(|_| if r.chance(1, 10) { None } else { Some(1 + r.below(700)) }).collect(),   // a failing read
            _ => (0..20).map(|_| Some(r.below(2100))).collect(),
        };
        let algs: Vec<HashAlgorithm> = match r.below(7) {
            0 => vec![],
            1 => vec![HashAlgorithm::Sha256],
            2 => vec![HashAlgorithm::Sha512],
            3 => r.pick(&[vec![HashAlgorithm::Sha256, HashAlgorithm::Sha256], vec![HashAlgorithm::Sha256, HashAlgorithm::Sha256, HashAlgorithm::Sha512], vec![HashAlgorithm::Sha512, HashAlgorithm::Sha512, HashAlgorithm::Sha256], vec![HashAlgorithm::Sha256, HashAlgorithm::Sha512, HashAlgorithm::Sha256]]).clone(),
            4 => vec![HashAlgorithm::Sha512, HashAlgorithm::Sha256],
            _ => vec![HashAlgorithm::Sha256, HashAlgorithm::Sha512],
        };
        let log = std::rc::Rc::new(std::cell::RefCell::new(vec![]));
        let reader = ChunkReader { data: data.clone(), pos: 0, sched, i: 0, log: log.clone() };
        let a2 = algs.clone();
        let res = guarded(std::panic::AssertUnwindSafe(move || calculate_hashes(reader, &a2)));
        let name = |a: &HashAlgorithm| match a {
            HashAlgorithm::Sha256 => "sha256",
            HashAlgorithm::Sha512 => "sha512",
            _ => "other",
        };
        let alg_tok = if algs.is_empty() { "-".to_string() } else { algs.iter().map(name).collect::<Vec<_>>().join(",") };
        let reads = log.borrow().clone();
        let op = format!("hashes {} {}", alg_tok, reads.join(" ")).trim_end().to_string();
        let ans = match &res {
            Err(()) => {
                sink.oracle(false, "calculate_hashes panicked", &op);
                continue;
            }
            Ok(Err(_)) => "err".to_string(),
            Ok(Ok((size, m))) => {
                let mut items: Vec<String> = m.iter().map(|(a, v)| format!("{}={}", name(a), v)).collect();
                items.sort();
                // the statement itself: the standard digests of the bytes that were read
                let mut seen: Vec<u8> = vec![];
                for t in &reads {
                    if t == "D-" || t == "E" {
                        break;
                    }
                    seen.extend((2..t.len()).step_by(2).map(|j| u8::from_str_radix(&t[j - 1..j + 1], 16).unwrap()));
                }
                sink.oracle(*size as usize == seen.len(), "the size reported by calculate_hashes is not the number of bytes read", &op);
                for (a, v) in m {
                    let want = match a {
                        HashAlgorithm::Sha256 => hex(ring::digest::digest(&ring::digest::SHA256, &seen).as_ref()),
                        HashAlgorithm::Sha512 => hex(ring::digest::digest(&ring::digest::SHA512, &seen).as_ref()),
                        _ => continue,
                    };
                    sink.oracle(v.to_string() == want, "a digest computed from a stream is not the standard digest of the bytes read", &op);
                }
                let want_algs: std::collections::BTreeSet<&str> = algs.iter().map(name).collect();
                sink.oracle(m.len() == want_algs.len(), "calculate_hashes does not return one digest per requested algorithm", &op);
                format!("ok {} {}", size, items.join(" ")).trim_end().to_string()
            }
        };
        sink.stat(&format!("hashes/{}", ans.split(' ').next().unwrap()));
        sink.op(&op, &ans, reads.len() > 2);
        let _ = i;
    }
}
