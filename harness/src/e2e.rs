//! End-to-end scenarios for `in_toto_verify`: abstract scenario -> real files, keys and signatures
//! -> real verification in a scratch directory -> protocol line for the Lean pipeline model.
//!
//! Ground truth is constructed, never read back from the code under test: the generator knows which
//! private key signed which content and what it corrupted afterwards.
use crate::c03::digest;
use crate::c04::keyid_hex;
use crate::meta::KeyInfo;
use crate::proto::{guarded, hex, hexs};
use crate::rng::Rng;
use chrono::{DateTime, Duration, TimeZone, Utc};
use in_toto::crypto::{KeyId, PublicKey};
use in_toto::models::byproducts::ByProducts;
use in_toto::models::inspection::Inspection;
use in_toto::models::rule::{Artifact, ArtifactRule};
use in_toto::models::step::Step;
use in_toto::models::{
    LayoutMetadataBuilder, LinkMetadata, LinkMetadataBuilder, Metablock, MetadataWrapper, TargetDescription, VirtualTargetPath,
};
use in_toto::verifylib::in_toto_verify;
use serde_json::{json, Value};
use std::collections::{BTreeMap, HashMap};
use std::path::{Path, PathBuf};
use std::str::FromStr;

// ------------------------------------------------------------------ abstract scenario

#[derive(Clone, Debug)]
pub struct SLink {
    pub name: String,
    pub mats: Vec<(String, u8)>,
    pub prods: Vec<(String, u8)>,
    pub stdout: String,
    pub command: Vec<String>,
    /// recorded environment (`None` = the member is absent)
    pub env: Option<Vec<(String, String)>>,
}

#[derive(Clone, Debug)]
pub struct SStep {
    pub name: String,
    pub threshold: u32,
    pub pubkeys: Vec<usize>,
    pub mats: Vec<ArtifactRule>,
    pub prods: Vec<ArtifactRule>,
    /// further authorized key ids that no key of the layout (or of the pool) has
    pub ghost_keys: Vec<String>,
    /// `expected_command` (verification only warns when the recorded command differs)
    pub expected_command: Vec<String>,
}

#[derive(Clone, Debug)]
pub struct SInsp {
    pub name: String,
    pub mats: Vec<ArtifactRule>,
    pub prods: Vec<ArtifactRule>,
    /// shell script body; `None` = a command that does not exist
    pub script: Option<String>,
}

#[derive(Clone, Debug)]
pub struct SLayout {
    pub expires: DateTime<Utc>,
    pub keys: Vec<usize>,
    pub steps: Vec<SStep>,
    pub inspect: Vec<SInsp>,
    pub readme: String,
    /// write `expires` in the file with this UTC offset (minutes) instead of `Z` (same instant)
    pub offset_min: Option<i32>,
    /// write every command with its arguments split again at white space (another value, same words)
    pub resplit_commands: bool,
}

#[derive(Clone, Debug)]
pub enum SMeta {
    Layout(SLayout),
    Link(SLink),
}

#[derive(Clone, Debug)]
pub struct SSig {
    /// key whose id the entry claims
    pub label: usize,
    /// key that actually made the signature value (over the content as it was at signing time)
    pub signer: usize,
    pub corrupt: bool,
}

#[derive(Clone, Debug)]
pub struct SBlock {
    /// list the first signature a second time under this key id (no key of the pool has it)
    pub dup_first_sig_as: Option<String>,
    pub sigs: Vec<SSig>,
    pub meta: SMeta,
    /// content that was signed, if it differs from `meta` (tampering after signing)
    pub signed_over: Option<Box<SMeta>>,
}

#[derive(Clone, Debug)]
pub enum SFile {
    Garbage,
    Block(SBlock),
}

#[derive(Clone, Debug, Default)]
pub struct SDir {
    pub files: Vec<(String, SFile)>,
    pub subs: Vec<(String, SDir)>,
    /// names of `files` that are put into the directory as symbolic links to the real file
    pub symlinked: Vec<String>,
}

#[derive(Clone, Debug)]
pub struct Scenario {
    pub block: SBlock,
    pub caller_keys: Vec<usize>,
    /// file the second caller key under the id of the first one's *other* alias (same key, two ids)
    pub alias_ids: bool,
    pub dir: SDir,
    pub name: Option<String>,
    pub now: DateTime<Utc>,
    /// injected faults: (property, description, necessarily fatal?)
    pub faults: Vec<(&'static str, String, bool)>,
    /// a change made to the parsed layout in memory, after signing: its key table re-filed
    /// (`extra` = a listed key entered once more under an id of its own making, `swap` = two listed
    /// keys under each other's ids)
    pub mem_refile: Option<&'static str>,
    /// the second caller key is the first one once more, read from a description of it that carries
    /// another `keyid` member; the layout lists the owner's signature a second time under that id
    pub alias_described: bool,
    /// the caller also supplies a key that cannot verify anything (an RSA key imported with a scheme the
    /// library does not know); the layout lists an entry under that key's id (`dup_first_sig_as`)
    pub caller_unusable: bool,
}

// ------------------------------------------------------------------ materialisation

pub fn kid(pool: &[KeyInfo], i: usize) -> String {
    keyid_hex(pool[i].public())
}

pub fn prefix8(pool: &[KeyInfo], i: usize) -> String {
    kid(pool, i)[..8].to_string()
}

fn arts_of(a: &[(String, u8)]) -> BTreeMap<VirtualTargetPath, TargetDescription> {
    a.iter().map(|(p, d)| (VirtualTargetPath::new(p.clone()).unwrap(), digest(*d))).collect()
}

pub fn link_of(l: &SLink) -> LinkMetadata {
    let mut b = LinkMetadataBuilder::new();
    if let Some(e) = &l.env {
        b = b.env(Some(e.iter().cloned().collect()));
    }
    b.name(l.name.clone())
        .materials(arts_of(&l.mats))
        .products(arts_of(&l.prods))
        .byproducts(ByProducts::new().set_stdout(l.stdout.clone()).set_return_value(0))
        .command(l.command.clone().into())
        .build()
        .unwrap()
}

pub fn meta_of(pool: &[KeyInfo], m: &SMeta) -> MetadataWrapper {
    match m {
        SMeta::Link(l) => MetadataWrapper::Link(link_of(l)),
        SMeta::Layout(l) => {
            // the builder is code under test: an expiry it cannot take is recorded (as an oracle failure
            // of the run) and replaced
            let e0 = l.expires;
            let expires = match crate::proto::guarded(move || LayoutMetadataBuilder::new().expires(e0).build().map(|_| ())) {
                Ok(_) => l.expires,
                Err(()) => {
                    crate::proto::generator_panic("building a layout with a representable expiry panicked", format!("LayoutMetadataBuilder::new().expires({:?}).build()", l.expires));
                    base_now() + Duration::days(30)
                }
            };
            let mut b = LayoutMetadataBuilder::new().expires(expires).readme(l.readme.clone());
            for &k in &l.keys {
                b = b.add_key(pool[k].public().clone());
            }
            for s in &l.steps {
                let mut st = Step::new(&s.name).threshold(s.threshold).expected_materials(s.mats.clone()).expected_products(s.prods.clone());
                for &k in &s.pubkeys {
                    st = st.add_key(pool[k].public().key_id().clone());
                }
                for g in &s.ghost_keys {
                    st = st.add_key(KeyId::from_str(g).unwrap());
                }
                if !s.expected_command.is_empty() {
                    st = st.expected_command(s.expected_command.clone().into());
                }
                b = b.add_step(st);
            }
            for i in &l.inspect {
                let cmd = insp_cmd(l, i);
                b = b.add_inspect(Inspection::new(&i.name).run(cmd.into()).expected_materials(i.mats.clone()).expected_products(i.prods.clone()));
            }
            MetadataWrapper::Layout(b.build().unwrap())
        }
    }
}

/// the command vector of an inspection as the scenario means it
pub fn insp_cmd(l: &SLayout, i: &SInsp) -> Vec<String> {
    let cmd: Vec<String> = match &i.script {
        Some(s) => vec!["sh".into(), "-c".into(), s.clone()],
        None => vec!["/nonexistent/itv-no-such-command".into()],
    };
    if l.resplit_commands {
        cmd.iter().flat_map(|a| a.split_whitespace().map(String::from).collect::<Vec<_>>()).collect()
    } else {
        cmd
    }
}

/// JSON text of a signed block, with real signature values.
pub fn block_text(pool: &[KeyInfo], b: &SBlock) -> String {
    let final_meta = meta_of(pool, &b.meta);
    let mut signed = serde_json::to_value(&final_meta).unwrap();
    let mut reread = None;
    if let SMeta::Layout(l) = &b.meta {
        // argument boundaries of commands are written from the scenario, not through the library's
        // serialiser (which is under test too)
        for (k, i) in l.inspect.iter().enumerate() {
            signed["inspect"][k]["run"] = json!(insp_cmd(l, i));
        }
        if let Some(off) = l.offset_min {
            let tz = chrono::FixedOffset::east_opt(off * 60).unwrap();
            signed["expires"] = Value::String(l.expires.with_timezone(&tz).to_rfc3339_opts(chrono::SecondsFormat::Secs, false));
            // the owner signs with this library what it reads from the document as written
            reread = MetadataWrapper::from_bytes(signed.to_string().as_bytes(), in_toto::models::MetadataType::Layout).ok();
        }
    }
    let signed_meta = match &b.signed_over {
        Some(m) => meta_of(pool, m),
        None => reread.unwrap_or_else(|| final_meta.clone()),
    };
    let mut sigs = vec![];
    for s in &b.sigs {
        let mb = Metablock::new(signed_meta.clone(), &[&pool[s.signer].key]).unwrap();
        let mut v = mb.signatures[0].value().as_bytes().to_vec();
        if s.corrupt {
            let n = v.len();
            v[n / 2] ^= 0x04;
        }
        sigs.push(json!({"keyid": kid(pool, s.label), "sig": hex(&v)}));
    }
    if let (Some(label), Some(first)) = (&b.dup_first_sig_as, sigs.first().cloned()) {
        sigs.push(json!({"keyid": label, "sig": first["sig"].clone()}));
    }
    json!({"signatures": sigs, "signed": signed}).to_string()
}

/// ground truth: is signature entry `s` of block `b` valid under the key it is attributed to?
pub fn sig_valid(b: &SBlock, s: &SSig, pool: &[KeyInfo]) -> bool {
    !s.corrupt && b.signed_over.is_none() && kid(pool, s.label) == kid(pool, s.signer)
}

pub fn write_dir(pool: &[KeyInfo], d: &SDir, at: &Path) {
    write_dir_ordered(pool, d, at, false)
}

/// `reversed`: create the entries (files and sub-directories alike) in the opposite order - on a file
/// system that lists a directory by age (tmpfs) the listing order is then the opposite one
pub fn write_dir_ordered(pool: &[KeyInfo], d: &SDir, at: &Path, reversed: bool) {
    std::fs::create_dir_all(at).unwrap();
    enum E<'a> {
        F(&'a String, &'a SFile),
        D(&'a String, &'a SDir),
    }
    let mut entries: Vec<E> = d.files.iter().map(|(n, f)| E::F(n, f)).collect();
    entries.extend(d.subs.iter().map(|(n, x)| E::D(n, x)));
    if reversed {
        entries.reverse();
    }
    for e in entries {
        match e {
            E::F(name, f) => {
                let text = match f {
                    SFile::Garbage => "{ this is not a link file".to_string(),
                    SFile::Block(b) => block_text(pool, b),
                };
                if d.symlinked.contains(name) {
                    // the real file lives in a side directory; the link directory holds a relative symbolic link
                    let store = at.join(".itv-store");
                    std::fs::create_dir_all(&store).unwrap();
                    std::fs::write(store.join(name), text).unwrap();
                    // (a scenario may list a file name twice - the later file replaces the earlier one, as writing does)
                    let _ = std::fs::remove_file(at.join(name));
                    std::os::unix::fs::symlink(Path::new(".itv-store").join(name), at.join(name)).unwrap();
                } else {
                    let _ = std::fs::remove_file(at.join(name));
                    std::fs::write(at.join(name), text).unwrap();
                }
            }
            E::D(name, sub) => write_dir_ordered(pool, sub, &at.join(name), reversed),
        }
    }
}

// ------------------------------------------------------------------ protocol encoding

fn enc_arts(a: &[(String, u8)]) -> String {
    let mut bm: BTreeMap<&String, u8> = BTreeMap::new();
    for (k, v) in a {
        bm.insert(k, *v);
    }
    let mut out = format!("{}", bm.len());
    for (k, v) in bm {
        out.push_str(&format!(" {} {}", hexs(k), hex(&digest_token(&digest(v)))));
    }
    out
}

/// canonical token of a digest map (the model only compares digests for equality)
pub fn digest_token(d: &TargetDescription) -> Vec<u8> {
    let mut items: Vec<String> = d.iter().map(|(a, v)| format!("{}={}", serde_json::to_value(a).unwrap().as_str().unwrap_or("?"), v)).collect();
    items.sort();
    let s = items.join(";");
    if s.is_empty() {
        b"none".to_vec()
    } else {
        ring::digest::digest(&ring::digest::SHA256, s.as_bytes()).as_ref()[..8].to_vec()
    }
}

fn enc_real_arts(a: &BTreeMap<VirtualTargetPath, TargetDescription>) -> String {
    let mut out = format!("{}", a.len());
    for (k, v) in a {
        out.push_str(&format!(" {} {}", hexs(k.value()), hex(&digest_token(v))));
    }
    out
}

/// opaque token for command + byproducts (+ environment)
pub fn extra_token(l: &LinkMetadata) -> Vec<u8> {
    // the default (nothing recorded) is the empty token, as in the model's `emptyLink`
    if l.byproducts == ByProducts::new() && l.command.is_empty() {
        return vec![];
    }
    let j = json!({"b": serde_json::to_value(&l.byproducts).unwrap(), "c": serde_json::to_value(&l.command).unwrap()});
    ring::digest::digest(&ring::digest::SHA256, j.to_string().as_bytes()).as_ref()[..8].to_vec()
}

pub fn enc_real_link(l: &LinkMetadata) -> String {
    format!("{} {} {} {}", hexs(&l.name), enc_real_arts(&l.materials), enc_real_arts(&l.products), hex(&extra_token(l)))
}

fn enc_rules(rs: &[ArtifactRule]) -> String {
    let mut out = format!("{}", rs.len());
    for r in rs {
        out.push(' ');
        out.push_str(&crate::c03::rule_tok(r));
    }
    out
}

fn enc_meta(pool: &[KeyInfo], m: &SMeta) -> String {
    match m {
        SMeta::Link(l) => format!("N {}", enc_real_link(&link_of(l))),
        SMeta::Layout(l) => {
            let mut out = format!("Y {} {}", l.expires.timestamp(), l.keys.len());
            for &k in &l.keys {
                out.push_str(&format!(" {}", kid(pool, k)));
            }
            out.push_str(&format!(" {}", l.steps.len()));
            for s in &l.steps {
                out.push_str(&format!(" {} {} {}", hexs(&s.name), s.threshold, s.pubkeys.len() + s.ghost_keys.len()));
                for &k in &s.pubkeys {
                    out.push_str(&format!(" {}", kid(pool, k)));
                }
                for g in &s.ghost_keys {
                    out.push_str(&format!(" {}", g));
                }
                out.push_str(&format!(" {} {}", enc_rules(&s.mats), enc_rules(&s.prods)));
            }
            out.push_str(&format!(" {}", l.inspect.len()));
            for i in &l.inspect {
                out.push_str(&format!(" {} {} {}", hexs(&i.name), enc_rules(&i.mats), enc_rules(&i.prods)));
            }
            out
        }
    }
}

fn enc_block(pool: &[KeyInfo], b: &SBlock) -> String {
    let mut out = format!("B {}", sig_count(b));
    for s in &b.sigs {
        out.push_str(&format!(" {}:{}", kid(pool, s.label), if sig_valid(b, s, pool) { 1 } else { 0 }));
    }
    if let (Some(label), true) = (&b.dup_first_sig_as, !b.sigs.is_empty()) {
        out.push_str(&format!(" {}:0", label));
    }
    out.push(' ');
    out.push_str(&enc_meta(pool, &b.meta));
    out
}

fn sig_count(b: &SBlock) -> usize {
    b.sigs.len() + if b.dup_first_sig_as.is_some() && !b.sigs.is_empty() { 1 } else { 0 }
}

fn enc_dir(pool: &[KeyInfo], d: &SDir) -> String {
    // glob() yields matches sorted by name
    let mut files: Vec<&(String, SFile)> = d.files.iter().collect();
    files.sort_by(|a, b| a.0.cmp(&b.0));
    let mut out = format!("D {}", files.len());
    for (n, f) in files {
        out.push_str(&format!(" {} ", hexs(n)));
        match f {
            SFile::Garbage => out.push('U'),
            SFile::Block(b) => out.push_str(&enc_block(pool, b)),
        }
    }
    out.push_str(&format!(" {}", d.subs.len()));
    for (n, s) in &d.subs {
        out.push_str(&format!(" {} {}", hexs(n), enc_dir(pool, s)));
    }
    out
}

/// all inspections of the scenario with the layout path they belong to
fn inspections(pool: &[KeyInfo], b: &SBlock, d: &SDir, path: &str, out: &mut Vec<(String, SInsp)>) {
    if let SMeta::Layout(l) = &b.meta {
        for i in &l.inspect {
            out.push((path.to_string(), i.clone()));
        }
        for s in &l.steps {
            for (fname, f) in &d.files {
                if let SFile::Block(fb) = f {
                    if fname.starts_with(&format!("{}.", s.name)) && fname.ends_with(".link") {
                        if let SMeta::Layout(_) = fb.meta {
                            let short = &fname[s.name.len() + 1..fname.len() - 5];
                            let subname = format!("{}.{}", s.name, short);
                            let sub = d.subs.iter().find(|x| x.0 == subname).map(|x| x.1.clone()).unwrap_or_default();
                            let p = if path.is_empty() { subname.clone() } else { format!("{}/{}", path, subname) };
                            inspections(pool, fb, &sub, &p, out);
                        }
                    }
                }
            }
        }
    }
}

// ------------------------------------------------------------------ running the real code

/// the `TZ` the next verifications run under (`None`: the variable is left alone)
/// how the link directory is named in the next verifications: 0 by its absolute path, 1 through a symbolic
/// link and `..`, 2 `links`, 3 `./links/`, 4 `.`, 5 the empty text (4 and 5 from inside it), 6 absolute with a
/// trailing separator
pub static SPELL_LINK_DIR: std::sync::Mutex<u8> = std::sync::Mutex::new(0);

thread_local! {
    /// this thread verifies next to others: do not touch the process's working directory
    pub static NO_CHDIR: std::cell::Cell<bool> = const { std::cell::Cell::new(false) };
}

/// A key that cannot verify anything: the first RSA key of the pool, imported from its SubjectPublicKeyInfo
/// under a scheme the library does not know (the importer takes the scheme from the caller).
pub fn unusable_key(pool: &[KeyInfo]) -> Option<PublicKey> {
    let rsa = pool.iter().find(|k| *k.public().typ() == in_toto::crypto::KeyType::Rsa)?;
    let spki = rsa.public().as_spki().ok()?;
    PublicKey::from_spki(&spki, in_toto::crypto::SignatureScheme::Unknown("rsassa-pss-sha3-256".into())).ok()
}

/// does any layout of the scenario - the top one or a delegated one - list an inspection?
pub fn has_inspections(b: &SBlock, d: &SDir) -> bool {
    let own = matches!(&b.meta, SMeta::Layout(l) if !l.inspect.is_empty());
    own || d.files.iter().any(|(_, f)| matches!(f, SFile::Block(fb) if has_inspections(fb, &SDir::default())))
        || d.subs.iter().any(|(_, sd)| sd.files.iter().any(|(_, f)| matches!(f, SFile::Block(fb) if has_inspections(fb, &SDir::default()))))
}

/// The scenarios verified at the same time, one thread each; the answers in the order of the scenarios.
pub fn run_concurrently(pool: &[KeyInfo], scenarios: &[Scenario]) -> Vec<String> {
    std::thread::scope(|sc| {
        let handles: Vec<_> = scenarios.iter().map(|s| sc.spawn(move || {
            NO_CHDIR.with(|c| c.set(true));
            run(pool, s).answer
        })).collect();
        handles.into_iter().map(|h| h.join().unwrap_or_else(|_| "thread-panicked".to_string())).collect()
    })
}

/// One scenario (without inspections), materialised once, verified by `threads` threads at the same time,
/// `rounds` times each - all of them released together at the start of every round. Returns what a single
/// verification answered beforehand, and every answer of the crowd that differs from it.
pub fn run_crowd(pool: &[KeyInfo], s: &Scenario, threads: usize, rounds: usize) -> (String, Vec<String>) {
    let tmp = tempfile::Builder::new().prefix("itv-e2e-crowd-").tempdir().unwrap();
    let links = tmp.path().join("links");
    write_dir_ordered(pool, &s.dir, &links, false);
    let text = block_text(pool, &s.block);
    let mut keys: HashMap<KeyId, PublicKey> = HashMap::new();
    for &k in &s.caller_keys {
        keys.insert(pool[k].public().key_id().clone(), pool[k].public().clone());
    }
    let links_str = links.to_str().unwrap().to_string();
    let now = s.now;
    let once = |text: &str, keys: &HashMap<KeyId, PublicKey>, links_str: &str, name: Option<&str>| -> String {
        in_toto::verif_hooks::set_now(Some(now));
        let res = guarded(std::panic::AssertUnwindSafe(|| {
            let block: Metablock = serde_json::from_str(text).map_err(|e| format!("parse: {}", e))?;
            in_toto_verify(&block, keys.clone(), links_str, name).map_err(|e| format!("{}", e))
        }));
        in_toto::verif_hooks::set_now(None);
        match res {
            Err(()) => "panic".to_string(),
            Ok(Err(_)) => "err".to_string(),
            Ok(Ok(mb)) => format!("ok {}", serde_json::to_value(&mb.metadata).map(|v| v.to_string()).unwrap_or_default()),
        }
    };
    let alone = once(&text, &keys, &links_str, s.name.as_deref());
    let barrier = std::sync::Barrier::new(threads);
    let different: Vec<String> = std::thread::scope(|sc| {
        let handles: Vec<_> = (0..threads)
            .map(|_| {
                sc.spawn(|| {
                    let mut diff = vec![];
                    for _ in 0..rounds {
                        barrier.wait();
                        let a = once(&text, &keys, &links_str, s.name.as_deref());
                        if a != alone {
                            diff.push(a);
                        }
                    }
                    diff
                })
            })
            .collect();
        handles.into_iter().flat_map(|h| h.join().unwrap_or_else(|_| vec!["thread-panicked".to_string()])).collect()
    });
    (alone, different)
}

/// the next verifications read the system clock themselves (the clock hook is left unset)
pub static REAL_CLOCK: std::sync::Mutex<bool> = std::sync::Mutex::new(false);

pub static PROCESS_TZ: std::sync::Mutex<Option<String>> = std::sync::Mutex::new(None);

pub struct Outcome {
    pub answer: String,
    pub ok: bool,
    pub panicked: bool,
    /// the verification did not come back within the deadline
    pub hung: bool,
    pub events: Vec<String>,
    pub op: String,
    /// members of the returned summary link that the summary is not made of (must be absent)
    pub summary_extra: Option<String>,
    /// names of the top-level layout's inspections in the order their commands started
    pub top_events_in_order: Vec<String>,
    /// what is wrong with the materials an inspection recorded (they are the files as they were when
    /// its command started: among them the link file the verifier wrote for the inspection before it)
    pub inspection_material_faults: Vec<String>,
}

/// Run the real `in_toto_verify` on the scenario in a fresh scratch directory and build the model's op.
pub fn run(pool: &[KeyInfo], s: &Scenario) -> Outcome {
    run_in(pool, s, None, false)
}

/// `base`: where the scratch directory is made (default: the system's temporary directory);
/// `reversed`: the link directory's entries are created in the opposite order
pub fn run_in(pool: &[KeyInfo], s: &Scenario, base: Option<&Path>, reversed: bool) -> Outcome {
    let b = tempfile::Builder::new();
    let mut b = b;
    b.prefix("itv-e2e-");
    let tmp = match base {
        Some(p) => b.tempdir_in(p).unwrap(),
        None => b.tempdir().unwrap(),
    };
    run_at(pool, s, tmp.path(), reversed)
}

fn regular_files(dir: &Path, rel: &str, out: &mut BTreeMap<String, (u64, std::time::SystemTime)>) {
    if let Ok(rd) = std::fs::read_dir(dir) {
        for e in rd.flatten() {
            let name = e.file_name().to_string_lossy().to_string();
            let r = if rel.is_empty() { name.clone() } else { format!("{}/{}", rel, name) };
            if let Ok(md) = std::fs::symlink_metadata(e.path()) {
                if md.is_dir() {
                    regular_files(&e.path(), &r, out);
                } else if md.is_file() {
                    if let Ok(t) = md.modified() {
                        out.insert(r, (md.len(), t));
                    }
                }
            }
        }
    }
}

/// The scenario materialised *at a given place* and verified there. Whatever was at that place from an
/// earlier scenario is replaced - and a file that has the size its predecessor of the same name had also
/// gets that file's modification time (as `cp -p`, `rsync -t` or a reproducible build leave it): the same
/// path, size and time, other content. What the verifier answers depends on what the files say now.
pub fn run_at(pool: &[KeyInfo], s: &Scenario, root: &Path, reversed: bool) -> Outcome {
    let tmp = root;
    // how the link directory is named to the verifier: plainly, or through a symbolic link and back out of
    // it (`<root>/hop/../links`, `hop -> elsewhere/deep`): the operating system says which directory that is
    // (`<root>/elsewhere/links`), and that is where the scenario lies
    let spelling = *SPELL_LINK_DIR.lock().unwrap();
    let spelled = spelling == 1;
    let links = if spelled { tmp.join("elsewhere").join("links") } else { tmp.join("links") };
    if spelled {
        let _ = std::fs::create_dir_all(tmp.join("elsewhere").join("deep"));
        let _ = std::fs::remove_file(tmp.join("hop"));
        let _ = std::os::unix::fs::symlink(tmp.join("elsewhere").join("deep"), tmp.join("hop"));
    }
    let cwd = tmp.join("cwd");
    let mut before = BTreeMap::new();
    regular_files(&links, "", &mut before);
    let _ = std::fs::remove_dir_all(&links);
    let _ = std::fs::remove_dir_all(&cwd);
    std::fs::create_dir_all(&cwd).unwrap();
    write_dir_ordered(pool, &s.dir, &links, reversed);
    if !before.is_empty() {
        let mut now_there = BTreeMap::new();
        regular_files(&links, "", &mut now_there);
        for (rel, (len, _)) in &now_there {
            if let Some((old_len, old_time)) = before.get(rel) {
                if old_len == len {
                    if let Ok(f) = std::fs::OpenOptions::new().write(true).open(links.join(rel)) {
                        let _ = f.set_modified(*old_time);
                    }
                }
            }
        }
    }
    std::fs::write(cwd.join("foo"), b"foo content").unwrap();
    let text = block_text(pool, &s.block);
    let mut keys: HashMap<KeyId, PublicKey> = HashMap::new();
    for (n, &k) in s.caller_keys.iter().enumerate() {
        if s.alias_described && n > 0 {
            let fake = format!("{:064x}", 0xa11a5u64 + n as u64);
            let mut j = serde_json::to_value(pool[k].public()).unwrap();
            j["keyid"] = json!(fake.clone());
            if let Ok(Ok(pk)) = guarded(move || serde_json::from_value::<PublicKey>(j)) {
                keys.insert(KeyId::from_str(&fake).unwrap(), pk);
            }
            continue;
        }
        let id = if s.alias_ids && n > 0 {
            // the same key filed a second time under an unrelated id
            KeyId::from_str(&format!("{:064x}", n)).unwrap()
        } else {
            pool[k].public().key_id().clone()
        };
        keys.insert(id, pool[k].public().clone());
    }
    // (several verifications at once, on threads of their own, leave the process's working directory alone:
    // they are scenarios without inspections, which is all the working directory is for)
    if s.caller_unusable {
        if let Some(p) = unusable_key(pool) {
            keys.insert(p.key_id().clone(), p);
        }
    }
    let chdir = !NO_CHDIR.with(|c| c.get());
    let old = if chdir { std::env::current_dir().unwrap() } else { PathBuf::new() };
    // other ways to name the same directory: relative to the working directory (`links`, `./links`), with a
    // trailing separator, and - the working directory being the link directory itself - `.` and the empty text
    // (those three for scenarios without inspections, whose working directory is otherwise their own)
    let relative = chdir && matches!(spelling, 2 | 3 | 4 | 5) && !has_inspections(&s.block, &s.dir);
    if chdir {
        std::env::set_current_dir(if relative && matches!(spelling, 4 | 5) { &links } else if relative { tmp } else { &cwd }).unwrap();
    }
    let links_str = if spelled {
        tmp.join("hop").join("..").join("links").to_str().unwrap().to_string()
    } else if relative {
        match spelling { 2 => "links".to_string(), 3 => "./links/".to_string(), 4 => ".".to_string(), _ => String::new() }
    } else if spelling == 6 {
        format!("{}/", links.to_str().unwrap())
    } else {
        links.to_str().unwrap().to_string()
    };
    let name = s.name.clone();
    let refile = s.mem_refile;
    // the time zone of the verifying process (`TZ`): an instant is an instant wherever the verifier sits.
    // chrono reads the variable once per thread and remembers it for a while: a fresh thread per zone.
    let tz = PROCESS_TZ.lock().unwrap().clone();
    if let Some(z) = &tz {
        std::env::set_var("TZ", z);
    }
    let now = s.now;
    let in_thread = tz.is_some();
    let real_clock = *REAL_CLOCK.lock().unwrap();
    let body = move || {
    in_toto::verif_hooks::set_now(if real_clock { None } else { Some(now) });
    let res = guarded(std::panic::AssertUnwindSafe(|| {
        let mut block: Metablock = serde_json::from_str(&text).map_err(|e| format!("parse: {}", e))?;
        if let (Some(kind), MetadataWrapper::Layout(l)) = (refile, &mut block.metadata) {
            let mut ids: Vec<KeyId> = l.keys.keys().cloned().collect();
            ids.sort();
            if kind == "swap" && ids.len() >= 2 {
                let (a, b) = (l.keys.remove(&ids[0]).unwrap(), l.keys.remove(&ids[1]).unwrap());
                l.keys.insert(ids[0].clone(), b);
                l.keys.insert(ids[1].clone(), a);
            } else if let Some(first) = ids.first() {
                let k = l.keys[first].clone();
                l.keys.insert(KeyId::from_str(&"5a".repeat(32)).unwrap(), k);
            }
        }
        in_toto_verify(&block, keys, &links_str, name.as_deref()).map_err(|e| format!("{}", e))
    }));
    in_toto::verif_hooks::set_now(None);
    res
    };
    // (always on a thread of its own, with a deadline: verification terminates on every input, and a harness
    // that waited for ever would turn a hang into silence)
    // (a verification that runs next to others - `NO_CHDIR` - is on a thread of its own already)
    let own_thread = in_thread || !chdir;
    let already_hung = crate::proto::HUNG.load(std::sync::atomic::Ordering::SeqCst);
    let (res, hung) = match crate::proto::with_deadline_on(crate::proto::DEADLINE_SECS, own_thread, body) {
        Some(r) => (r, false),
        None => (Err(()), true),
    };
    if tz.is_some() {
        std::env::remove_var("TZ");
    }
    if chdir {
        std::env::set_current_dir(&old).unwrap();
    }
    // events: what the inspection scripts logged
    let log = std::fs::read_to_string(cwd.join("run.log")).unwrap_or_default();
    let mut events: Vec<String> = log.lines().map(|l| l.to_string()).collect();
    let top_events_in_order: Vec<String> = events.iter().filter_map(|e| e.strip_prefix('|').map(String::from)).collect();
    let events_in_order = events.clone();
    events.sort();
    // each top-level inspection that ran recorded, among its materials, the link file of the inspection
    // that ran before it - with the digest of that file (no inspection command touches those files)
    let mut inspection_material_faults = vec![];
    for w in top_events_in_order.windows(2) {
        let (prev, cur) = (&w[0], &w[1]);
        let link = std::fs::read_to_string(cwd.join(format!("{}.link", cur))).ok().and_then(|t| serde_json::from_str::<Metablock>(&t).ok());
        let prev_link = std::fs::read_to_string(cwd.join(format!("{}.link", prev))).ok().and_then(|t| serde_json::from_str::<Metablock>(&t).ok());
        if let (Some(Metablock { metadata: MetadataWrapper::Link(l), .. }), Some(Metablock { metadata: MetadataWrapper::Link(pl), .. })) = (&link, &prev_link) {
            // nothing but the verifier's writing of `<prev>.link` happens between the two commands: apart
            // from that file, what one inspection leaves is what the next one finds
            let skip = format!("{}.link", prev);
            let differs = l.materials.iter().filter(|(k, _)| k.value() != skip).ne(pl.products.iter().filter(|(k, _)| k.value() != skip));
            if differs {
                inspection_material_faults.push(format!("the materials recorded for inspection {} are not the files inspection {} left behind", cur, prev));
            }
        }
        if let Some(Metablock { metadata: MetadataWrapper::Link(l), .. }) = link {
            let key = VirtualTargetPath::new(format!("{}.link", prev)).unwrap();
            match (l.materials.get(&key), std::fs::read(cwd.join(format!("{}.link", prev)))) {
                (None, Ok(_)) => inspection_material_faults.push(format!("the materials recorded for inspection {} lack {}.link, which was there when its command started", cur, prev)),
                (Some(d), Ok(bytes)) => {
                    let want = hex(ring::digest::digest(&ring::digest::SHA256, &bytes).as_ref());
                    if d.get(&in_toto::crypto::HashAlgorithm::Sha256).map(|h| h.to_string()) != Some(want) {
                        inspection_material_faults.push(format!("the materials recorded for inspection {} carry another digest for {}.link than that file has", cur, prev));
                    }
                }
                _ => {}
            }
        }
    }
    // inspection outcomes observed on disk (their link files), for the model's `run` parameter
    let mut insps = vec![];
    inspections(pool, &s.block, &s.dir, "", &mut insps);
    let mut runs = format!("R {}", insps.len());
    for (path, i) in &insps {
        runs.push_str(&format!(" {} {}", hexs(path), hexs(&i.name)));
        let status = std::fs::read_to_string(cwd.join(format!("{}.status", i.name))).ok().and_then(|t| t.trim().parse::<i32>().ok());
        let link = std::fs::read_to_string(cwd.join(format!("{}.link", i.name)))
            .ok()
            .and_then(|t| serde_json::from_str::<Metablock>(&t).ok())
            .and_then(|m| match m.metadata {
                MetadataWrapper::Link(l) => Some(l),
                _ => None,
            });
        match (i.script.is_some(), status, link) {
            (false, _, _) => runs.push_str(" F"),
            (true, Some(st), Some(l)) => runs.push_str(&format!(" {} {}", st, enc_real_link(&l))),
            (true, Some(st), None) => runs.push_str(&format!(" {} {} 0 0 -", st, hexs(&i.name))),
            (true, None, _) => runs.push_str(&format!(" 0 {} 0 0 -", hexs(&i.name))),
        }
    }
    // the products recorded for the last top-level inspection are the files as they are now (only its
    // own link file was written since): every file with its digest, and nothing else
    if let Some(last) = top_events_in_order.last() {
        let link = std::fs::read_to_string(cwd.join(format!("{}.link", last))).ok().and_then(|t| serde_json::from_str::<Metablock>(&t).ok());
        if let Some(Metablock { metadata: MetadataWrapper::Link(l), .. }) = link {
            fn walk(dir: &Path, rel: &str, out: &mut BTreeMap<String, Vec<u8>>) {
                if let Ok(rd) = std::fs::read_dir(dir) {
                    for e in rd.flatten() {
                        let name = e.file_name().to_string_lossy().to_string();
                        let r = if rel.is_empty() { name.clone() } else { format!("{}/{}", rel, name) };
                        let p = e.path();
                        if p.is_dir() {
                            walk(&p, &r, out);
                        } else if let Ok(b) = std::fs::read(&p) {
                            out.insert(r, b);
                        }
                    }
                }
            }
            let mut disk = BTreeMap::new();
            walk(&cwd, "", &mut disk);
            disk.remove(&format!("{}.link", last));
            let recorded: BTreeMap<String, String> = l.products.iter().filter(|(k, _)| k.value() != format!("{}.link", last)).filter_map(|(k, d)| d.get(&in_toto::crypto::HashAlgorithm::Sha256).map(|h| (k.value().to_string(), h.to_string()))).collect();
            let actual: BTreeMap<String, String> = disk.iter().map(|(k, b)| (k.clone(), hex(ring::digest::digest(&ring::digest::SHA256, b).as_ref()))).collect();
            if recorded != actual {
                inspection_material_faults.push(format!("the products recorded for inspection {} are not the files its command left behind", last));
            }
        }
    }
    let ev_tok: Vec<String> = events_in_order.iter().map(|e| {
        let (p, n) = e.split_once('|').unwrap_or(("", e));
        format!("{}:{}", hexs(p), hexs(n))
    }).collect();
    // (the inspection commands in the order in which they were started - delegated evidence is visited
    // in layout order and key-id order, so the sequence is determined, in failing runs too)
    let ev_str = if ev_tok.is_empty() { "E0".to_string() } else { format!("E{} {}", ev_tok.len(), ev_tok.join(" ")) };
    let ev_err = ev_str.clone();
    let summary_extra = match &res {
        Ok(Ok(mb)) => match &mb.metadata {
            MetadataWrapper::Link(l) if l.env.is_some() => Some(format!("environment = {:?}", l.env)),
            _ => None,
        },
        _ => None,
    };
    let (answer, ok, panicked) = match &res {
        Err(()) if hung => ((if already_hung { "not-started-after-a-hang" } else { "hung" }).to_string(), false, false),
        Err(()) => ("panic".to_string(), false, true),
        Ok(Err(_)) => (format!("err {}", ev_err), false, false),
        Ok(Ok(mb)) => match &mb.metadata {
            MetadataWrapper::Link(l) => (format!("ok {} {}", enc_real_link(l), ev_str), true, false),
            _ => ("ok-but-not-a-link".to_string(), true, false),
        },
    };
    let mut op = format!(
        "verify {} {} K {}",
        s.name.as_ref().map(|n| hexs(n)).unwrap_or_else(|| "~".into()),
        s.now.timestamp(),
        s.caller_keys.len()
    );
    for &k in &s.caller_keys {
        op.push_str(&format!(" {}", kid(pool, k)));
    }
    if s.caller_unusable {
        if let Some(p) = unusable_key(pool) {
            // (one more supplied key, in the count as well)
            op = op.replacen(&format!(" K {}", s.caller_keys.len()), &format!(" K {}", s.caller_keys.len() + 1), 1);
            op.push_str(&format!(" {}", serde_json::to_value(p.key_id()).unwrap().as_str().unwrap()));
        }
    }
    op.push_str(&format!(" {} {} {}", enc_block(pool, &s.block), enc_dir(pool, &s.dir), runs));
    Outcome { answer, ok, panicked, hung: hung && !already_hung, events, op, summary_extra, top_events_in_order, inspection_material_faults }
}

// ------------------------------------------------------------------ generator

pub fn vp(s: &str) -> VirtualTargetPath {
    VirtualTargetPath::new(s.to_string()).unwrap()
}

pub fn base_now() -> DateTime<Utc> {
    Utc.with_ymd_and_hms(2031, 5, 17, 12, 0, 0).unwrap()
}

/// inspection script: logs `<path>|<name>`, records its exit status, optionally touches files
pub fn script(path: &str, name: &str, exit: i32, action: &str) -> String {
    if exit < 0 {
        // ends by a signal instead of exiting: `-9` = SIGKILL, `-15` = SIGTERM, ... (no exit status exists)
        return format!("echo '{}|{}' >> run.log; {} echo {} > '{}.status'; kill -{} $$; sleep 5", path, name, action, exit, name, -exit);
    }
    format!("echo '{}|{}' >> run.log; {} echo {} > '{}.status'; exit {}", path, name, action, exit, name, exit)
}

pub struct Gen<'a> {
    pub r: &'a mut Rng,
    pub pool: &'a [KeyInfo],
    pub insp_counter: usize,
    pub force_delegate: bool,
    /// many functionaries per step and thresholds 2..3 (multi-party scenarios)
    pub multi_party: bool,
    /// two functionaries of a threshold-2 step delegate with one and the same sub-layout
    pub co_delegate: bool,
    /// the moment of verification of the scenario being generated (differs from scenario to scenario, so
    /// that a clock reading carried over from an earlier verification shows)
    pub now: DateTime<Utc>,
    /// keys of the enclosing layout's functionaries: a sub-layout's functionaries are drawn from them
    /// now and then (one person, two roles - and link files of the same name on two levels)
    pub reuse_keys: Vec<usize>,
    /// every delegated sub-layout carries inspections (so that several sibling sub-layouts do)
    pub inner_insp_always: bool,
    /// the first two functionaries are one key material under two ids (an RSA key declared with two
    /// schemes); both are authorized for every step and both hand in a link
    pub same_material_pair: bool,
}

/// A moment of verification: mostly near `base_now`, sometimes years away from it.
pub fn gen_now(r: &mut Rng) -> DateTime<Utc> {
    let d = match r.below(6) {
        0 => Duration::zero(),
        1 => Duration::seconds(r.below(7200) as i64 - 3600),
        2 => Duration::days(r.below(800) as i64 - 400),
        3 => Duration::days(365 * (r.below(60) as i64 - 30)),
        _ => Duration::seconds(r.below(200_000_000) as i64 - 100_000_000),
    };
    base_now() + d
}

impl<'a> Gen<'a> {
    fn pick_keys(&mut self, n: usize, avoid: &[usize]) -> Vec<usize> {
        let mut v = vec![];
        let mut guard = 0;
        while v.len() < n && guard < 200 {
            guard += 1;
            let mut k = self.r.below(self.pool.len());
            if !self.reuse_keys.is_empty() && self.r.chance(1, 3) {
                k = *self.r.pick(&self.reuse_keys);
            }
            // (every third selection starts with a key that has a twin in the pool, if there is one)
            if guard == 1 && n >= 2 && self.r.chance(1, 3) {
                let tw: Vec<usize> = (0..self.pool.len()).filter(|&a| (0..self.pool.len()).any(|b| b != a && prefix8(self.pool, a) == prefix8(self.pool, b) && kid(self.pool, a) != kid(self.pool, b))).collect();
                if !tw.is_empty() {
                    k = *self.r.pick(&tw);
                }
            }
            // distinct key ids
            // (and distinct key id prefixes: files are named after them)
            if !v.contains(&k) && !avoid.contains(&k) && !v.iter().chain(avoid.iter()).any(|&o| prefix8(self.pool, o) == prefix8(self.pool, k)) {
                v.push(k);
            }
        }
        v
    }

    /// A layout that verifies, with its link directory. `signers`: keys that sign the layout block.
    pub fn valid_layout(&mut self, depth: usize, path: &str, signers: &[usize], allow_insp: bool) -> (SBlock, SDir) {
        let nsteps = 1 + self.r.below(3);
        let nfun = if self.multi_party { 3 + self.r.below(2) } else { 2 + self.r.below(2) };
        let mut funs = self.pick_keys(nfun, signers);
        if self.same_material_pair {
            let pair = (0..self.pool.len()).find_map(|a| (0..self.pool.len()).find(|&b| b != a && self.pool[a].pk8 == self.pool[b].pk8 && kid(self.pool, a) != kid(self.pool, b) && prefix8(self.pool, a) != prefix8(self.pool, b)).map(|b| (a, b)));
            if let Some((a, b)) = pair {
                if !signers.contains(&a) && !signers.contains(&b) {
                    funs.retain(|&k| k != a && k != b && prefix8(self.pool, k) != prefix8(self.pool, a) && prefix8(self.pool, k) != prefix8(self.pool, b));
                    funs.insert(0, b);
                    funs.insert(0, a);
                }
            }
        }
        let mut steps = vec![];
        let mut dir = SDir::default();
        let mut prev_prods: Vec<(String, u8)> = vec![];
        let mut delegated = false;
        // (the artifacts of a sub-layout's steps are not those of the enclosing layout's steps: a link of
        // one level taken for the like-named link of the other does not pass)
        let salt = if path.is_empty() { String::new() } else { format!("-d{}", path.matches('/').count() + 1) };
        // step names: distinct, free of glob metacharacters, otherwise anything a file name may hold
        // (dots, spaces, non-ASCII letters, a leading dot) - they become parts of file and directory names
        let step_names: Vec<String> = (0..nsteps)
            .map(|i| match self.r.below(if depth == 0 { 32 } else { 10 }) {
                // (names that hold pattern syntax of the glob crate: the evidence of a step is looked up
                // with `glob("<dir>/<name>.????????.link")`, which reads such a name as a pattern - one that
                // still matches its own spelling (`*`, `?`), one that never does (`[x]`), one that is
                // rejected (`[`, `**` inside a component); innermost layouts only, and mostly the
                // satisfiable kind, so that the fault catalogue keeps most of its scenarios)
                10 | 11 => format!("s{}*", i),
                12 | 13 => format!("s{}?", i),
                14 => format!("*{}", i),
                15 => format!("s{}]", i),
                16 => match self.r.below(3) {
                    0 => format!("s{}[x]", i),
                    1 => format!("s{}[", i),
                    _ => format!("s**{}", i),
                },
                0 => format!("s{}.x86", i),
                1 => format!("s{}.tar.gz", i),
                2 => format!(".s{}", i),
                3 => format!("s{} final", i),
                4 => format!("s{}-\u{e9}t\u{e9}", i),
                5 => format!("s{}.", i),
                _ => format!("s{}", i),
            })
            .collect();
        for i in 0..nsteps {
            let name = step_names[i].clone();
            let co = self.co_delegate && depth > 0 && i == 0;
            let threshold = if co { 2 } else if self.multi_party { *self.r.pick(&[2u32, 2, 3]) } else { *self.r.pick(&[1u32, 1, 1, 2]) };
            let threshold = if self.same_material_pair && !co { 1 } else { threshold };
            let nauth = if self.multi_party { funs.len() } else if self.same_material_pair { funs.len().min(2 + self.r.below(2)) } else { (threshold as usize).max(1 + self.r.below(2)).min(funs.len()) };
            let auth: Vec<usize> = funs.iter().cloned().take(nauth).collect();
            let threshold = threshold.min(auth.len() as u32);
            let mats = prev_prods.clone();
            // (a multi-party step now and then consumes its inputs: its products are the new artifact alone,
            // so that materials and products have no path in common)
            let mut prods = if self.multi_party && i > 0 && self.r.chance(1, 3) { vec![] } else { mats.clone() };
            // (multi-party scenarios record two digest algorithms per artifact: sha256 = v, sha512 = v + 1)
            prods.push((format!("out{}{}", i, salt), if self.multi_party { 4 * (1 + i as u8) + 3 } else { 1 + (i as u8) }));
            if i > 0 && prods.len() > 1 && self.r.chance(1, 3) {
                prods[0].1 = 9; // modified
            }
            let mat_rules = if i == 0 {
                vec![ArtifactRule::Disallow(vp("*"))]
            } else {
                vec![
                    ArtifactRule::Match { pattern: vp("*"), in_src: None, with: Artifact::Products, in_dst: None, from: step_names[i - 1].clone() },
                    ArtifactRule::Disallow(vp("*")),
                ]
            };
            let prod_rules = vec![ArtifactRule::Create(vp(&format!("out{}{}", i, salt))), ArtifactRule::Allow(vp("*"))];
            // evidence: every authorized key provides a link (more than the threshold needs, sometimes)
            let nlinks = if self.multi_party || self.same_material_pair || self.r.chance(1, 2) { auth.len() } else { threshold as usize };
            let mut shared: Option<(SBlock, SDir)> = None;
            for (j, &k) in auth.iter().enumerate().take(nlinks.max(threshold as usize)) {
                let delegate = depth > 0 && ((j == 0 && threshold == 1 && (self.force_delegate || self.r.chance(1, 3))) || (co && j < 2));
                let env = match self.r.below(4) {
                    0 => Some(vec![]),
                    1 => Some(vec![("CC".to_string(), "gcc-13".to_string()), ("workdir".to_string(), format!("/home/f{}/app", i))]),
                    _ => None,
                };
                let link = SLink { name: name.clone(), mats: mats.clone(), prods: prods.clone(), stdout: format!("built {}", i), command: vec!["make".into(), format!("t{}", i)], env: if self.multi_party { None } else { env } };
                let fname = format!("{}.{}.link", name, prefix8(self.pool, k));
                if delegate {
                    delegated = true;
                    let subname = format!("{}.{}", name, prefix8(self.pool, k));
                    let subpath = if path.is_empty() { subname.clone() } else { format!("{}/{}", path, subname) };
                    let inner_insp = allow_insp && !co && (self.inner_insp_always || self.r.chance(1, 3));
                    let (b, subdir) = match shared.take() {
                        // the same sub-layout and evidence, signed by this functionary
                        Some((mut b, d)) => {
                            b.sigs = vec![SSig { label: k, signer: k, corrupt: false }];
                            (b, d)
                        }
                        None => {
                            let (auth_now, co_now) = (auth.clone(), self.co_delegate);
                            self.co_delegate = false;
                            self.reuse_keys = funs.clone();
                            let x = self.valid_layout(depth - 1, &subpath, if co { &auth_now } else { std::slice::from_ref(&k) }, inner_insp);
                            self.co_delegate = co_now;
                            let mut b = x.0;
                            b.sigs = vec![SSig { label: k, signer: k, corrupt: false }];
                            // a sub-layout may carry further signatures (a reviewer's, another functionary's
                            // of this layout), before or after the delegating functionary's own
                            if !co && self.r.chance(1, 3) {
                                let others: Vec<usize> = funs.iter().cloned().filter(|&o| prefix8(self.pool, o) != prefix8(self.pool, k)).collect();
                                if !others.is_empty() {
                                    let c = *self.r.pick(&others);
                                    let sig = SSig { label: c, signer: c, corrupt: false };
                                    if self.r.chance(1, 2) {
                                        b.sigs.insert(0, sig);
                                    } else {
                                        b.sigs.push(sig);
                                    }
                                }
                            }
                            if co {
                                shared = Some((b.clone(), x.1.clone()));
                            }
                            (b, x.1)
                        }
                    };
                    dir.files.push((fname, SFile::Block(b)));
                    dir.subs.push((subname, subdir));
                } else {
                    dir.files.push((fname, SFile::Block(SBlock { dup_first_sig_as: None, sigs: vec![SSig { label: k, signer: k, corrupt: false }], meta: SMeta::Link(link), signed_over: None })));
                }
            }
            // the expected command: absent, the recorded one, a proper prefix of it, longer, or different
            let expected_command: Vec<String> = match self.r.below(6) {
                0 => vec!["make".into(), format!("t{}", i)],
                1 => vec!["make".into()],
                2 => vec!["make".into(), format!("t{}", i), "--jobs=4".into()],
                3 => vec!["ninja".into(), format!("t{}", i)],
                _ => vec![],
            };
            // (symbolic links in the link directory: some evidence files are reached through one)
            for (fname, _) in &dir.files {
                if fname.starts_with(&format!("{}.", name)) && self.r.chance(1, 5) && !dir.symlinked.contains(fname) {
                    dir.symlinked.push(fname.clone());
                }
            }
            steps.push(SStep { name, threshold, pubkeys: auth, mats: mat_rules, prods: prod_rules, ghost_keys: vec![], expected_command });
            prev_prods = prods;
        }
        let mut inspect = vec![];
        if allow_insp {
            for _ in 0..*self.r.pick(&[0usize, 1, 2, 2, 3, 4]) {
                let n = format!("insp{}", self.insp_counter);
                self.insp_counter += 1;
                // (the last one: a directory that is there under two names - its own and a symbolic link to it)
                let action = *self.r.pick(&["", "echo new > created.txt;", "echo more >> foo;", "rm -f foo;", "mkdir -p build-7; echo built > build-7/out.txt; ln -sfn build-7 latest;"]);
                // (an inspection may rely on what the one listed before it left behind: its link file)
                let mut mats = vec![ArtifactRule::Allow(vp("*"))];
                if let Some(prev) = inspect.last().map(|p: &SInsp| p.name.clone()) {
                    if self.r.chance(2, 3) {
                        mats = vec![ArtifactRule::Require(vp(&format!("{}.link", prev))), ArtifactRule::Allow(vp("*"))];
                    }
                }
                inspect.push(SInsp { name: n.clone(), mats, prods: vec![ArtifactRule::Allow(vp("*"))], script: Some(script(path, &n, 0, action)) });
            }
        }
        let mut keys = funs.clone();
        // a key that is defined but has no role - when a functionary has a "twin" (another key whose id
        // starts with the same eight digits) in the pool, preferably that one
        let twins: Vec<usize> = (0..self.pool.len())
            .filter(|&k| !funs.contains(&k) && !signers.contains(&k) && funs.iter().any(|&f| prefix8(self.pool, f) == prefix8(self.pool, k) && kid(self.pool, f) != kid(self.pool, k)))
            .collect();
        if !twins.is_empty() && self.r.chance(2, 3) {
            keys.push(*self.r.pick(&twins));
        } else if self.r.chance(1, 3) {
            keys.extend(self.pick_keys(1, &funs));
        }
        if delegated {
            for st in &mut steps {
                st.mats = vec![ArtifactRule::Allow(vp("*"))];
                st.prods = vec![ArtifactRule::Allow(vp("*"))];
            }
        }
        let layout = SLayout { expires: self.now + Duration::days(30), keys, steps, inspect, readme: "readme".into(), offset_min: None, resplit_commands: false };
        let sigs = signers.iter().map(|&k| SSig { label: k, signer: k, corrupt: false }).collect();
        (SBlock { dup_first_sig_as: None, sigs, meta: SMeta::Layout(layout), signed_over: None }, dir)
    }

    /// Inspections of sibling sub-layouts that can tell which of them ran first: all inspections record
    /// the one working directory, where the verifier leaves `<name>.link` after each - a rule of one
    /// sub-layout's inspection requires or forbids the link file of an inspection of another sub-layout.
    /// (The order in which delegated evidence is verified must therefore be determined.)
    fn interfere(&mut self, dir: &mut SDir) {
        let mut with_insp: Vec<(usize, Vec<String>)> = vec![];
        for (n, (_, f)) in dir.files.iter().enumerate() {
            if let SFile::Block(SBlock { meta: SMeta::Layout(l), .. }) = f {
                if !l.inspect.is_empty() {
                    with_insp.push((n, l.inspect.iter().map(|i| i.name.clone()).collect()));
                }
            }
        }
        if with_insp.len() < 2 {
            return;
        }
        for a in 0..with_insp.len() {
            if !self.r.chance(2, 3) {
                continue;
            }
            let mut b = self.r.below(with_insp.len());
            if b == a {
                b = (b + 1) % with_insp.len();
            }
            let other = self.r.pick(&with_insp[b].1).clone();
            let rule = if self.r.chance(1, 2) { ArtifactRule::Disallow(vp(&format!("{}.link", other))) } else { ArtifactRule::Require(vp(&format!("{}.link", other))) };
            if let SFile::Block(SBlock { meta: SMeta::Layout(l), .. }) = &mut dir.files[with_insp[a].0].1 {
                let k = self.r.below(l.inspect.len());
                if self.r.chance(1, 2) {
                    l.inspect[k].mats.insert(0, rule);
                } else {
                    l.inspect[k].prods.insert(0, rule);
                }
            }
        }
    }

    pub fn valid(&mut self, depth: usize, allow_insp: bool) -> Scenario {
        self.now = gen_now(self.r);
        let nown = 1 + self.r.below(2);
        let owners = self.pick_keys(nown, &[]);
        let (block, mut dir) = self.valid_layout(depth, "", &owners, allow_insp);
        if self.inner_insp_always {
            self.interfere(&mut dir);
            for n in 0..dir.subs.len() {
                let mut sd = std::mem::take(&mut dir.subs[n].1);
                self.interfere(&mut sd);
                dir.subs[n].1 = sd;
            }
        }
        Scenario { block, caller_keys: owners, alias_ids: false, dir, name: if self.r.chance(1, 2) { Some("final".into()) } else { None }, now: self.now, faults: vec![], mem_refile: None, alias_described: false, caller_unusable: false }
    }
}

pub fn scratch_root() -> PathBuf {
    std::env::temp_dir()
}
