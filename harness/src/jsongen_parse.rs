//! Parse the protocol notation of a JSON value back (used by replay).
use serde_json::{Map, Number, Value};

pub fn parse_proto(s: &str) -> Option<Value> {
    let toks: Vec<&str> = s.split(' ').collect();
    let mut i = 0;
    let v = go(&toks, &mut i)?;
    if i == toks.len() {
        Some(v)
    } else {
        None
    }
}

fn go(t: &[&str], i: &mut usize) -> Option<Value> {
    let tok = *t.get(*i)?;
    *i += 1;
    match tok {
        "N" => Some(Value::Null),
        "T" => Some(Value::Bool(true)),
        "F" => Some(Value::Bool(false)),
        "X" => Some(Value::Number(Number::from_f64(0.5)?)),
        _ => {
            let (tag, body) = tok.split_at(1);
            match tag {
                "I" => {
                    if let Ok(i) = body.parse::<i64>() {
                        Some(Value::Number(Number::from(i)))
                    } else {
                        Some(Value::Number(Number::from(body.parse::<u64>().ok()?)))
                    }
                }
                "S" => Some(Value::String(String::from_utf8(crate::proto::unhex(body)?).ok()?)),
                "A" => {
                    let n: usize = body.parse().ok()?;
                    let mut xs = vec![];
                    for _ in 0..n {
                        xs.push(go(t, i)?);
                    }
                    Some(Value::Array(xs))
                }
                "O" => {
                    let n: usize = body.parse().ok()?;
                    let mut m = Map::new();
                    for _ in 0..n {
                        let k = match go(t, i)? {
                            Value::String(s) => s,
                            _ => return None,
                        };
                        let v = go(t, i)?;
                        m.insert(k, v);
                    }
                    Some(Value::Object(m))
                }
                _ => None,
            }
        }
    }
}
