//! C17: decoding does not depend on the channel (string, slice, reader, JSON tree) nor on the
//! spelling (whitespace, escapes) of the text.
use crate::attgen;
use crate::jsongen::spell;
use crate::meta::{gen_layout, gen_link, key_pool};
use crate::proto::{guarded, hex, Sink};
use crate::rng::Rng;
use crate::Cfg;
use in_toto::crypto::{PublicKey, Signature};
use in_toto::interchange::{DataInterchange, Json};
use in_toto::models::rule::ArtifactRule;
use in_toto::models::step::Step;
use in_toto::models::{LayoutMetadata, LinkMetadata, Metablock, MetadataWrapper, PredicateWrapper, StatementWrapper};
use serde::de::DeserializeOwned;
use serde::Serialize;
use serde_json::Value;

/// decode `text` through every channel; the answers (as re-serialised JSON, or "reject") must agree
pub fn channels<T: DeserializeOwned + Serialize + 'static>(text: &str) -> Vec<(&'static str, String)> {
    fn show<T: Serialize, E>(r: Result<Result<T, E>, ()>) -> String {
        match r {
            Err(()) => "PANIC".into(),
            Ok(Err(_)) => "reject".into(),
            Ok(Ok(v)) => serde_json::to_value(&v).map(|j| j.to_string()).unwrap_or_else(|_| "unserialisable".into()),
        }
    }
    let t = text.to_string();
    let mut out = vec![];
    out.push(("from_str", show(guarded({ let t = t.clone(); move || serde_json::from_str::<T>(&t) }))));
    out.push(("from_slice", show(guarded({ let t = t.clone(); move || serde_json::from_slice::<T>(t.as_bytes()) }))));
    out.push(("from_reader", show(guarded({ let t = t.clone(); move || serde_json::from_reader::<_, T>(std::io::Cursor::new(t.into_bytes())) }))));
    out.push(("from_value", show(guarded({ let t = t.clone(); move || serde_json::from_str::<Value>(&t).and_then(serde_json::from_value::<T>) }))));
    out.push(("Json::from_slice", show(guarded({ let t = t.clone(); move || Json::from_slice::<T>(t.as_bytes()) }))));
    out.push(("Json::from_reader", show(guarded({ let t = t.clone(); move || Json::from_reader::<_, T>(std::io::Cursor::new(t.into_bytes())) }))));
    out.push(("Json::deserialize", show(guarded({ let t = t.clone(); move || serde_json::from_str::<Value>(&t).map_err(|_| ()).and_then(|v| Json::deserialize::<T>(&v).map_err(|_| ())) }))));
    out
}

/// compact text of a value with the members of every object in reverse (descending) order
fn reverse_members(v: &Value) -> String {
    match v {
        Value::Object(m) => {
            let items: Vec<String> = m.iter().rev().map(|(k, x)| format!("{}:{}", Value::String(k.clone()), reverse_members(x))).collect();
            format!("{{{}}}", items.join(","))
        }
        Value::Array(xs) => format!("[{}]", xs.iter().map(reverse_members).collect::<Vec<_>>().join(",")),
        x => x.to_string(),
    }
}

fn case<T: DeserializeOwned + Serialize + 'static>(sink: &mut Sink, r: &mut Rng, ty: &str, doc: &Value) {
    let texts = vec![("compact", doc.to_string()), ("pretty", serde_json::to_string_pretty(doc).unwrap()), ("respelled", spell(doc, r)), ("respelled2", spell(doc, r))];
    // texts that are not one JSON document: every channel must reject them alike (each group is
    // compared within itself: `reference` is reset)
    let c = doc.to_string();
    let trail = *r.pick(&[" null", "}", "]", ",", "\u{0}", " x", "\n\n{}", "[]", "\"\"", "0"]);
    let mut cut = c.clone();
    cut.pop();
    let odd = vec![
        ("trailing-bytes", format!("{}{}", c, trail)),
        ("two-documents", format!("{}{}", c, c)),
        ("truncated", cut),
        ("trailing-whitespace", format!("{} \n\t\r", c)),
        ("leading-bom", format!("\u{feff}{}", c)),
    ];
    for (sp, text) in &odd {
        let ans = channels::<T>(text);
        let replay = format!("decode {} {} {}", ty, sp, hex(text.as_bytes()));
        let first = ans[0].1.clone();
        for (ch, a) in &ans {
            sink.oracle(a != "PANIC", "decoder panicked", &replay);
            sink.oracle(*a == first, &format!("{}: {} decides differently than from_str on a text that is not exactly one document ({})", ty, ch, sp), &replay);
        }
        sink.stat(&format!("{}/{}/{}", ty, sp, if first == "reject" { "reject" } else { "accept" }));
    }
    let mut reference: Option<String> = None;
    for (sp, text) in &texts {
        let ans = channels::<T>(text);
        let replay = format!("decode {} {} {}", ty, sp, hex(text.as_bytes()));
        for (ch, a) in &ans {
            sink.oracle(a != "PANIC", "decoder panicked", &replay);
            match &reference {
                None => reference = Some(a.clone()),
                Some(r0) => {
                    if r0 != a {
                        sink.oracle(false, &format!("{}: {} decodes differently than from_str of the compact text", ty, ch), &replay);
                    } else {
                        sink.oracle(true, "", "");
                    }
                }
            }
        }
        sink.stat(&format!("{}/{}", ty, if reference.as_deref() == Some("reject") { "reject" } else { "accept" }));
    }
    // near-valid documents: one leaf replaced by a neighbour of its value (other length in bytes or
    // characters, other case, decorated, out of range ...). Whatever the verdict is, every channel and
    // every spelling must give the same one.
    let mut near: Vec<(String, Value)> = vec![];
    if r.chance(1, 3) {
        let edits = crate::c05::leaf_edits(doc, r);
        for _ in 0..edits.len().min(6) {
            near.push(edits[r.below(edits.len())].clone());
        }
    }
    // structural mutations of any node (member deleted / renamed / added - also as another spelling of a
    // member that is already there -, value of another shape)
    for _ in 0..2 {
        near.push(("mutation".to_string(), crate::c16_doc::mutate(doc, r)));
    }
    for (path, d2) in &near {
        // member order in the text: sorted (as a JSON tree holds them) and reversed
        let rev = reverse_members(d2);
        let texts = [("compact", d2.to_string()), ("respelled", spell(d2, r)), ("reversed", rev)];
        let mut first: Option<String> = None;
        for (sp, text) in &texts {
            let ans = channels::<T>(text);
            let replay = format!("decode {} {} {} // edited at {}", ty, sp, hex(text.as_bytes()), path);
            for (ch, a) in &ans {
                sink.oracle(a != "PANIC", "decoder panicked", &replay);
                match &first {
                    None => first = Some(a.clone()),
                    Some(f) => sink.oracle(f == a, &format!("{}: {} decides or decodes differently than from_str on a near-valid document", ty, ch), &replay),
                }
            }
        }
        sink.stat(&format!("{}/edited/{}", ty, if first.as_deref() == Some("reject") { "reject" } else { "accept" }));
    }
    // one op per document for the record (the model's claim is about the request table, see Props/C17)
    sink.op(&format!("strreq-all-owned {}", ty), "true", reference.as_deref() != Some("reject"));
}

pub fn run(cfg: &Cfg) {
    let mut sink = Sink::new(&cfg.out);
    let mut r = Rng::new(cfg.seed);
    let pool = key_pool(0);
    let n = if cfg.thorough { 3000 } else { 250 };
    for i in 0..n {
        let layout = gen_layout(&mut r, &pool);
        let lj = serde_json::to_value(&layout).unwrap();
        case::<LayoutMetadata>(&mut sink, &mut r, "LayoutMetadata", &lj);
        case::<MetadataWrapper>(&mut sink, &mut r, "MetadataWrapper(layout)", &lj);
        let link = gen_link(&mut r, None);
        let kj = serde_json::to_value(&link).unwrap();
        case::<LinkMetadata>(&mut sink, &mut r, "LinkMetadata", &kj);
        let key = r.pick(&pool);
        let mb = Metablock::new(MetadataWrapper::Layout(layout.clone()), &[&key.key]).unwrap();
        case::<Metablock>(&mut sink, &mut r, "Metablock", &serde_json::to_value(&mb).unwrap());
        case::<PublicKey>(&mut sink, &mut r, "PublicKey", &serde_json::to_value(key.public()).unwrap());
        case::<Signature>(&mut sink, &mut r, "Signature", &serde_json::to_value(&mb.signatures[0]).unwrap());
        for st in &layout.steps {
            case::<Step>(&mut sink, &mut r, "Step", &serde_json::to_value(st).unwrap());
            for rule in st.expected_materials.iter().chain(st.expected_products.iter()) {
                let rj = serde_json::to_value(rule).unwrap();
                case::<ArtifactRule>(&mut sink, &mut r, "ArtifactRule", &rj);
                if i % 7 == 0 {
                    // malformed rule: every channel must reject alike
                    if let Value::Array(mut a) = rj.clone() {
                        if !a.is_empty() {
                            a[0] = Value::String("CREATEX".into());
                        }
                        case::<ArtifactRule>(&mut sink, &mut r, "ArtifactRule(bad)", &Value::Array(a));
                    }
                }
            }
        }
        let (pf, pred) = attgen::gen_predicate(&mut r);
        let _ = pf;
        case::<PredicateWrapper>(&mut sink, &mut r, "PredicateWrapper", &pred);
        let naive = attgen::gen_naive(&mut r);
        case::<StatementWrapper>(&mut sink, &mut r, "StatementWrapper(naive)", &naive);
        let (v01, _, _) = attgen::gen_v01(&mut r);
        case::<StatementWrapper>(&mut sink, &mut r, "StatementWrapper(v0.1)", &v01);
        if i % 3 == 0 {
            let p1 = attgen::perturb(&v01, &mut r);
            case::<StatementWrapper>(&mut sink, &mut r, "StatementWrapper(perturbed)", &p1);
            let p2 = attgen::perturb(&pred, &mut r);
            case::<PredicateWrapper>(&mut sink, &mut r, "PredicateWrapper(perturbed)", &p2);
        }
    }
    // what the text reader makes of a text, spelling by spelling (Model/JsonText.lean)
    crate::textgen::run_text_cases(&mut sink, &mut r, if cfg.thorough { 20000 } else { 1500 });
    sink.finish(&cfg.out, serde_json::json!({}));
}
