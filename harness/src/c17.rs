//! C17: decoding does not depend on the channel (string, slice, reader, JSON tree) nor on the
//! spelling (whitespace, escapes) of the text.
use crate::attgen;
use crate::jsongen::spell;
use crate::meta::{gen_layout, gen_link, key_pool};
use crate::proto::{guarded, hex, Sink};
use crate::rng::Rng;
use crate::Cfg;
use in_toto::crypto::{PublicKey, Signature};
use in_toto::interchange::{DataInterchange, Json};
use in_toto::models::rule::ArtifactRule;
use in_toto::models::step::Step;
use in_toto::models::{LayoutMetadata, LinkMetadata, Metablock, MetadataWrapper, PredicateWrapper, StatementWrapper};
use serde::de::DeserializeOwned;
use serde::Serialize;
use serde_json::Value;

/// decode `text` through every channel; the answers (as re-serialised JSON, or "reject") must agree
pub fn channels<T: DeserializeOwned + Serialize + 'static>(text: &str) -> Vec<(&'static str, String)> {
    fn show<T: Serialize, E>(r: Result<Result<T, E>, ()>) -> String {
        match r {
            Err(()) => "PANIC".into(),
            Ok(Err(_)) => "reject".into(),
            Ok(Ok(v)) => serde_json::to_value(&v).map(|j| j.to_string()).unwrap_or_else(|_| "unserialisable".into()),
        }
    }
    let t = text.to_string();
    let mut out = vec![];
    out.push(("from_str", show(guarded({ let t = t.clone(); move || serde_json::from_str::<T>(&t) }))));
    out.push(("from_slice", show(guarded({ let t = t.clone(); move || serde_json::from_slice::<T>(t.as_bytes()) }))));
    out.push(("from_reader", show(guarded({ let t = t.clone(); move || serde_json::from_reader::<_, T>(std::io::Cursor::new(t.into_bytes())) }))));
    out.push(("from_value", show(guarded({ let t = t.clone(); move || serde_json::from_str::<Value>(&t).and_then(serde_json::from_value::<T>) }))));
    out.push(("Json::from_slice", show(guarded({ let t = t.clone(); move || Json::from_slice::<T>(t.as_bytes()) }))));
    out.push(("Json::from_reader", show(guarded({ let t = t.clone(); move || Json::from_reader::<_, T>(std::io::Cursor::new(t.into_bytes())) }))));
    out.push(("Json::deserialize", show(guarded({ let t = t.clone(); move || serde_json::from_str::<Value>(&t).map_err(|_| ()).and_then(|v| Json::deserialize::<T>(&v).map_err(|_| ())) }))));
    // the pretty interchange reads exactly as the compact one does
    out.push(("JsonPretty::from_slice", show(guarded({ let t = t.clone(); move || in_toto::interchange::JsonPretty::from_slice::<T>(t.as_bytes()) }))));
    out.push(("JsonPretty::from_reader", show(guarded({ let t = t.clone(); move || in_toto::interchange::JsonPretty::from_reader::<_, T>(std::io::Cursor::new(t.into_bytes())) }))));
    out.push(("JsonPretty::deserialize", show(guarded({ let t = t.clone(); move || serde_json::from_str::<Value>(&t).map_err(|_| ()).and_then(|v| in_toto::interchange::JsonPretty::deserialize::<T>(&v).map_err(|_| ())) }))));
    // readers that hand out their bytes in portions (a pipe, a socket, two chained sources): one byte per
    // call, and two portions cut in the middle and just before the end
    out.push(("from_reader(1 byte at a time)", show(guarded({ let t = t.clone(); move || serde_json::from_reader::<_, T>(OneByte(t.into_bytes(), 0)) }))));
    out.push(("Json::from_reader(1 byte at a time)", show(guarded({ let t = t.clone(); move || Json::from_reader::<_, T>(OneByte(t.into_bytes(), 0)) }))));
    out.push(("JsonPretty::from_reader(1 byte at a time)", show(guarded({ let t = t.clone(); move || in_toto::interchange::JsonPretty::from_reader::<_, T>(OneByte(t.into_bytes(), 0)) }))));
    for (name, at) in [("Json::from_reader(two portions, middle)", t.len() / 2), ("Json::from_reader(two portions, last byte apart)", t.len().saturating_sub(1))] {
        use std::io::Read;
        let (a, b) = (t.as_bytes()[..at].to_vec(), t.as_bytes()[at..].to_vec());
        out.push((name, show(guarded(move || Json::from_reader::<_, T>(std::io::Cursor::new(a).chain(std::io::Cursor::new(b)))))));
    }
    // the wrapper's own readers of raw bytes (they try the layout reader, then the link reader - what the
    // untagged wrapper does through serde)
    // They are the layout reader and then the link reader, each reading the text itself (the serde wrapper
    // first builds a tree of the text, which not every text has): what they answer is what `from_str` of the
    // layout type, or else of the link type, answers on the very same text - in every spelling. Where that is
    // so, the channel is entered with the wrapper's own `from_str` answer; where not, with what it said.
    if std::any::TypeId::of::<T>() == std::any::TypeId::of::<MetadataWrapper>() {
        let seq = show(guarded({
            let t = t.clone();
            move || serde_json::from_str::<LayoutMetadata>(&t).map(MetadataWrapper::Layout).or_else(|_| serde_json::from_str::<LinkMetadata>(&t).map(MetadataWrapper::Link))
        }));
        let first = out[0].1.clone();
        for (name, ans) in [
            ("MetadataWrapper::try_from_bytes", show(guarded({ let t = t.clone(); move || MetadataWrapper::try_from_bytes(t.as_bytes()) }))),
            ("MetablockBuilder::from_raw_metadata", show(guarded({ let t = t.clone(); move || in_toto::models::MetablockBuilder::from_raw_metadata(t.as_bytes()).map(|b| b.build().metadata) }))),
        ] {
            out.push((name, if ans == seq { first.clone() } else { format!("NOT-LAYOUT-THEN-LINK: {} (the layout reader, then the link reader: {})", ans.chars().take(60).collect::<String>(), seq.chars().take(60).collect::<String>()) }));
        }
    }
    out
}

struct OneByte(Vec<u8>, usize);
impl std::io::Read for OneByte {
    fn read(&mut self, buf: &mut [u8]) -> std::io::Result<usize> {
        if self.1 >= self.0.len() || buf.is_empty() {
            return Ok(0);
        }
        buf[0] = self.0[self.1];
        self.1 += 1;
        Ok(1)
    }
}

fn object_paths(v: &Value, cur: &mut Vec<String>, out: &mut Vec<Vec<String>>) {
    match v {
        Value::Object(m) => {
            if !m.is_empty() {
                out.push(cur.clone());
            }
            for (k, x) in m {
                cur.push(k.clone());
                object_paths(x, cur, out);
                cur.pop();
            }
        }
        Value::Array(xs) => {
            for (i, x) in xs.iter().enumerate() {
                cur.push(format!("#{}", i));
                object_paths(x, cur, out);
                cur.pop();
            }
        }
        _ => {}
    }
}

/// `doc` with one member of one of its objects present a second time under another spelling of its name
fn alias_member(doc: &Value, r: &mut Rng) -> Option<Value> {
    let mut ps = vec![];
    object_paths(doc, &mut vec![], &mut ps);
    if ps.is_empty() {
        return None;
    }
    // (small objects - digest maps, key values - are where enumerated names live: prefer them)
    ps.sort_by_key(|p| p.len());
    let p = if r.chance(2, 3) { ps[ps.len() - 1 - r.below((ps.len() + 1) / 2)].clone() } else { r.pick(&ps).clone() };
    let mut out = doc.clone();
    let mut cur = &mut out;
    for seg in &p {
        cur = match cur {
            Value::Object(m) => m.get_mut(seg)?,
            Value::Array(xs) => xs.get_mut(seg.strip_prefix('#')?.parse::<usize>().ok()?)?,
            _ => return None,
        };
    }
    let m = cur.as_object_mut()?;
    let keys: Vec<String> = m.keys().cloned().collect();
    let k0 = r.pick(&keys).clone();
    let k = match r.below(5) {
        0 => k0.to_uppercase(),
        1 => match k0.find(|c: char| c.is_ascii_digit()) {
            Some(i) => format!("{}-{}", &k0[..i], &k0[i..]),
            None => format!("{}_", k0),
        },
        2 => k0.replace('-', "_"),
        3 => k0.replace('_', "-"),
        _ => {
            let mut cs: Vec<char> = k0.chars().collect();
            if let Some(c) = cs.first_mut() {
                *c = c.to_ascii_uppercase();
            }
            cs.into_iter().collect()
        }
    };
    if k == k0 || m.contains_key(&k) {
        return None;
    }
    let v = match m.get(&k0) {
        Some(Value::String(s)) if !s.is_empty() => {
            let mut b: Vec<char> = s.chars().collect();
            let i = r.below(b.len());
            b[i] = if b[i] == '1' { '2' } else { '1' };
            Value::String(b.into_iter().collect())
        }
        Some(x) => x.clone(),
        None => return None,
    };
    m.insert(k, v);
    Some(out)
}

/// compact text of a value with the members of every object in reverse (descending) order
fn reverse_members(v: &Value) -> String {
    match v {
        Value::Object(m) => {
            let items: Vec<String> = m.iter().rev().map(|(k, x)| format!("{}:{}", Value::String(k.clone()), reverse_members(x))).collect();
            format!("{{{}}}", items.join(","))
        }
        Value::Array(xs) => format!("[{}]", xs.iter().map(reverse_members).collect::<Vec<_>>().join(",")),
        x => x.to_string(),
    }
}

fn case<T: DeserializeOwned + Serialize + 'static>(sink: &mut Sink, r: &mut Rng, ty: &str, doc: &Value) {
    let texts = vec![("compact", doc.to_string()), ("pretty", serde_json::to_string_pretty(doc).unwrap()), ("respelled", spell(doc, r)), ("respelled2", spell(doc, r))];
    // texts that are not one JSON document: every channel must reject them alike (each group is
    // compared within itself: `reference` is reset)
    let c = doc.to_string();
    let trail = *r.pick(&[" null", "}", "]", ",", "\u{0}", " x", "\n\n{}", "[]", "\"\"", "0"]);
    let mut cut = c.clone();
    cut.pop();
    let odd = vec![
        ("trailing-bytes", format!("{}{}", c, trail)),
        ("two-documents", format!("{}{}", c, c)),
        ("truncated", cut),
        ("trailing-whitespace", format!("{} \n\t\r", c)),
        ("leading-bom", format!("\u{feff}{}", c)),
    ];
    for (sp, text) in &odd {
        let ans = channels::<T>(text);
        let replay = format!("decode {} {} {}", ty, sp, hex(text.as_bytes()));
        let first = ans[0].1.clone();
        for (ch, a) in &ans {
            sink.oracle(a != "PANIC", "decoder panicked", &replay);
            sink.oracle(*a == first, &format!("{}: {} decides differently than from_str on a text that is not exactly one document ({})", ty, ch, sp), &replay);
        }
        sink.stat(&format!("{}/{}/{}", ty, sp, if first == "reject" { "reject" } else { "accept" }));
    }
    let mut reference: Option<String> = None;
    for (sp, text) in &texts {
        let ans = channels::<T>(text);
        let replay = format!("decode {} {} {}", ty, sp, hex(text.as_bytes()));
        for (ch, a) in &ans {
            sink.oracle(a != "PANIC", "decoder panicked", &replay);
            match &reference {
                None => reference = Some(a.clone()),
                Some(r0) => {
                    if r0 != a {
                        sink.oracle(false, &format!("{}: {} decodes differently than from_str of the compact text", ty, ch), &replay);
                    } else {
                        sink.oracle(true, "", "");
                    }
                }
            }
        }
        sink.stat(&format!("{}/{}", ty, if reference.as_deref() == Some("reject") { "reject" } else { "accept" }));
    }
    // near-valid documents: one leaf replaced by a neighbour of its value (other length in bytes or
    // characters, other case, decorated, out of range ...). Whatever the verdict is, every channel and
    // every spelling must give the same one.
    let mut near: Vec<(String, Value)> = vec![];
    if r.chance(1, 3) {
        let edits = crate::c05::leaf_edits(doc, r);
        for _ in 0..edits.len().min(6) {
            near.push(edits[r.below(edits.len())].clone());
        }
    }
    // structural mutations of any node (member deleted / renamed / added - also as another spelling of a
    // member that is already there -, value of another shape)
    for _ in 0..2 {
        near.push(("mutation".to_string(), crate::c16_doc::mutate(doc, r)));
    }
    // one member given a second time under another spelling of its name (other letter case, a hyphen
    // before the digits, `_` for `-`, a capital first letter) with other content: a reader that takes
    // both spellings for one name would let the order of the members decide
    for _ in 0..2 {
        if let Some(d2) = alias_member(doc, r) {
            near.push(("alias".to_string(), d2));
        }
    }
    for (path, d2) in &near {
        // member order in the text: sorted (as a JSON tree holds them) and reversed
        let rev = reverse_members(d2);
        let texts = [("compact", d2.to_string()), ("respelled", spell(d2, r)), ("reversed", rev)];
        let mut first: Option<String> = None;
        for (sp, text) in &texts {
            let ans = channels::<T>(text);
            let replay = format!("decode {} {} {} // edited at {}", ty, sp, hex(text.as_bytes()), path);
            for (ch, a) in &ans {
                sink.oracle(a != "PANIC", "decoder panicked", &replay);
                match &first {
                    None => first = Some(a.clone()),
                    Some(f) => sink.oracle(f == a, &format!("{}: {} decides or decodes differently than from_str on a near-valid document", ty, ch), &replay),
                }
            }
        }
        sink.stat(&format!("{}/edited/{}", ty, if first.as_deref() == Some("reject") { "reject" } else { "accept" }));
    }
    // texts a JSON tree cannot carry: a member given twice (same name, the second time with the same or with
    // other content), and a member nobody asks for whose content a tree builder would have to evaluate (a
    // number out of every range, nesting beyond the reader's limit, half a surrogate pair). Every channel that
    // reads TEXT - string, bytes, readers, in one piece or in portions, the crate's helpers - decides alike.
    {
        fn write_odd(v: &Value, path: &[String], cur: &mut Vec<String>, odd: &dyn Fn(&serde_json::Map<String, Value>) -> String, out: &mut String) {
            match v {
                Value::Object(m) => {
                    out.push('{');
                    let mut first = true;
                    for (k, x) in m {
                        if !first {
                            out.push(',');
                        }
                        first = false;
                        out.push_str(&Value::String(k.clone()).to_string());
                        out.push(':');
                        cur.push(k.clone());
                        write_odd(x, path, cur, odd, out);
                        cur.pop();
                    }
                    if cur.as_slice() == path {
                        let extra = odd(m);
                        if !extra.is_empty() {
                            if !first {
                                out.push(',');
                            }
                            out.push_str(&extra);
                        }
                    }
                    out.push('}');
                }
                Value::Array(xs) => {
                    out.push('[');
                    for (i, x) in xs.iter().enumerate() {
                        if i > 0 {
                            out.push(',');
                        }
                        cur.push(format!("#{}", i));
                        write_odd(x, path, cur, odd, out);
                        cur.pop();
                    }
                    out.push(']');
                }
                other => out.push_str(&other.to_string()),
            }
        }
        let mut paths = vec![];
        object_paths(doc, &mut vec![], &mut paths);
        if !paths.is_empty() {
            for round in 0..4 {
                let path = r.pick(&paths).clone();
                let pick = r.next() as usize;
                let kind = round;
                let deep = format!("{}0{}", "[".repeat(140), "]".repeat(140));
                let odd = move |m: &serde_json::Map<String, Value>| -> String {
                    match kind {
                        0 | 1 => {
                            // one of the object's own members once more
                            if m.is_empty() {
                                return String::new();
                            }
                            let (k, x) = m.iter().nth(pick % m.len()).unwrap();
                            let again = if kind == 0 { x.clone() } else { Value::String("second".into()) };
                            format!("{}:{}", Value::String(k.clone()), again)
                        }
                        2 => format!("\"zz-nobody-asks\":{}", ["1e999", "-1e999", "\"\\ud800\"", "123456789012345678901234567890"][pick % 4]),
                        _ => format!("\"zz-nobody-asks\":{}", deep),
                    }
                };
                let mut text = String::new();
                write_odd(doc, &path, &mut vec![], &odd, &mut text);
                let ans: Vec<(&str, String)> = channels::<T>(&text).into_iter().filter(|(ch, _)| !ch.contains("from_value") && !ch.contains("deserialize")).collect();
                let replay = format!("decode {} tree-less-{} {}", ty, round, hex(text.as_bytes()));
                let first = ans[0].1.clone();
                for (ch, a) in &ans {
                    sink.oracle(a != "PANIC", "decoder panicked", &replay);
                    sink.oracle(*a == first, &format!("{}: {} decides or decodes differently than from_str on a text with {}", ty, ch, if round < 2 { "a member given twice" } else { "a member nobody asks for that has unusual content" }), &replay);
                }
                sink.stat(&format!("{}/tree-less-{}/{}", ty, round, if first == "reject" { "reject" } else { "accept" }));
            }
        }
    }
    // a source that fails half way (a connection reset, a medium error), then the next document from a
    // sound source: the failed read is an error, and it leaves nothing behind for the call that follows
    {
        struct Fails(Vec<u8>, usize, usize);
        impl std::io::Read for Fails {
            fn read(&mut self, buf: &mut [u8]) -> std::io::Result<usize> {
                if self.1 >= self.2 {
                    return Err(std::io::Error::new(std::io::ErrorKind::ConnectionReset, "source failed"));
                }
                let n = buf.len().min(self.2 - self.1).min(7);
                buf[..n].copy_from_slice(&self.0[self.1..self.1 + n]);
                self.1 += n;
                Ok(n)
            }
        }
        let text = doc.to_string();
        let cut = 1 + r.below(text.len().max(2) - 1);
        for pretty in [false, true] {
            let t1 = text.clone();
            let failed = guarded(move || {
                let src = Fails(t1.into_bytes(), 0, cut);
                if pretty { in_toto::interchange::JsonPretty::from_reader::<_, T>(src).is_ok() } else { Json::from_reader::<_, T>(src).is_ok() }
            });
            sink.oracle(failed == Ok(false), "a document from a source that failed half way was accepted (or the reader panicked)", &format!("decode {} failing-source {}", ty, hex(text.as_bytes())));
            let t2 = text.clone();
            let after = {
                let g = guarded(move || if pretty { in_toto::interchange::JsonPretty::from_reader::<_, T>(std::io::Cursor::new(t2.into_bytes())) } else { Json::from_reader::<_, T>(std::io::Cursor::new(t2.into_bytes())) });
                match g {
                    Err(()) => "PANIC".to_string(),
                    Ok(Err(_)) => "reject".to_string(),
                    Ok(Ok(v)) => serde_json::to_value(&v).map(|j| j.to_string()).unwrap_or_else(|_| "unserialisable".into()),
                }
            };
            let want = channels::<T>(&text)[0].1.clone();
            sink.oracle(after == want, &format!("{}: the crate's reader decides or decodes differently than from_str when the call before it met a failing source", ty), &format!("decode {} after-failing-source {}", ty, hex(text.as_bytes())));
        }
    }
    // one op per document for the record (the model's claim is about the request table, see Props/C17)
    sink.op(&format!("strreq-all-owned {}", ty), "true", reference.as_deref() != Some("reject"));
}

/// a document that is not text: one byte of the compact text replaced by a byte (sequence) that is no
/// well-formed UTF-8 - a Latin-1 letter, a lone lead byte, a truncated or overlong sequence, a surrogate.
/// Every channel that takes bytes decides alike (and none of them makes up a character for it).
fn bytes_case<T: DeserializeOwned + Serialize + 'static>(sink: &mut Sink, r: &mut Rng, ty: &str, doc: &Value) {
    fn show<T: Serialize, E>(r: Result<Result<T, E>, ()>) -> String {
        match r {
            Err(()) => "PANIC".into(),
            Ok(Err(_)) => "reject".into(),
            Ok(Ok(v)) => serde_json::to_value(&v).map(|j| j.to_string()).unwrap_or_else(|_| "unserialisable".into()),
        }
    }
    let text = doc.to_string().into_bytes();
    let letters: Vec<usize> = (0..text.len()).filter(|&i| text[i].is_ascii_alphanumeric()).collect();
    if letters.is_empty() {
        return;
    }
    let at = *r.pick(&letters);
    let bad: &[u8] = *r.pick(&[&[0xe9u8][..], &[0xc3], &[0xff], &[0xe2, 0x82], &[0xc0, 0xaf], &[0xed, 0xa0, 0x80], &[0xf4, 0x90, 0x80, 0x80], &[0x80]]);
    let mut b = text[..at].to_vec();
    b.extend_from_slice(bad);
    b.extend_from_slice(&text[at + 1..]);
    let mut out: Vec<(&'static str, String)> = vec![];
    out.push(("from_slice", show(guarded({ let b = b.clone(); move || serde_json::from_slice::<T>(&b) }))));
    out.push(("from_reader", show(guarded({ let b = b.clone(); move || serde_json::from_reader::<_, T>(std::io::Cursor::new(b)) }))));
    out.push(("Json::from_slice", show(guarded({ let b = b.clone(); move || Json::from_slice::<T>(&b) }))));
    out.push(("Json::from_reader", show(guarded({ let b = b.clone(); move || Json::from_reader::<_, T>(std::io::Cursor::new(b)) }))));
    out.push(("JsonPretty::from_slice", show(guarded({ let b = b.clone(); move || in_toto::interchange::JsonPretty::from_slice::<T>(&b) }))));
    out.push(("Json::from_reader(1 byte at a time)", show(guarded({ let b = b.clone(); move || Json::from_reader::<_, T>(OneByte(b, 0)) }))));
    if std::any::TypeId::of::<T>() == std::any::TypeId::of::<MetadataWrapper>() {
        use in_toto::models::MetadataType;
        out.push(("MetadataWrapper::try_from_bytes", show(guarded({ let b = b.clone(); move || MetadataWrapper::try_from_bytes(&b) }))));
        out.push(("MetablockBuilder::from_raw_metadata", show(guarded({ let b = b.clone(); move || in_toto::models::MetablockBuilder::from_raw_metadata(&b).map(|x| x.build().metadata) }))));
        out.push(("MetadataWrapper::from_bytes(either type)", show(guarded({ let b = b.clone(); move || MetadataWrapper::from_bytes(&b, MetadataType::Layout).or_else(|_| MetadataWrapper::from_bytes(&b, MetadataType::Link)) }))));
    }
    let replay = format!("decode {} bytes {}", ty, hex(&b));
    let first = out[0].1.clone();
    for (ch, a) in &out {
        sink.oracle(a != "PANIC", "decoder panicked", &replay);
        sink.oracle(*a == first, &format!("{}: {} decides differently than serde_json::from_slice on a document that is not well-formed UTF-8", ty, ch), &replay);
    }
    sink.stat(&format!("{}/not-utf8/{}", ty, if first == "reject" { "reject" } else { "accept" }));
}

pub fn run(cfg: &Cfg) {
    let mut sink = Sink::new(&cfg.out);
    let mut r = Rng::new(cfg.seed);
    let pool = key_pool(0);
    let n = if cfg.thorough { 3000 } else { 180 };
    for i in 0..n {
        let mut r = r.at(i as u64);
        let layout = gen_layout(&mut r, &pool);
        let lj = serde_json::to_value(&layout).unwrap();
        case::<LayoutMetadata>(&mut sink, &mut r, "LayoutMetadata", &lj);
        case::<MetadataWrapper>(&mut sink, &mut r, "MetadataWrapper(layout)", &lj);
        let link = gen_link(&mut r, None);
        let kj = serde_json::to_value(&link).unwrap();
        case::<LinkMetadata>(&mut sink, &mut r, "LinkMetadata", &kj);
        case::<MetadataWrapper>(&mut sink, &mut r, "MetadataWrapper(link)", &kj);
        for _ in 0..3 {
            bytes_case::<MetadataWrapper>(&mut sink, &mut r, "MetadataWrapper(link)", &kj);
            bytes_case::<MetadataWrapper>(&mut sink, &mut r, "MetadataWrapper(layout)", &lj);
            bytes_case::<LinkMetadata>(&mut sink, &mut r, "LinkMetadata", &kj);
            bytes_case::<LayoutMetadata>(&mut sink, &mut r, "LayoutMetadata", &lj);
        }
        if i % 4 == 0 {
            // documents whose `_type` member says one thing and whose members say another: a layout labelled
            // "link", a link labelled "layout", the members of both under either label, no label at all
            let mut a = lj.clone();
            a["_type"] = Value::String("link".into());
            case::<MetadataWrapper>(&mut sink, &mut r, "MetadataWrapper(layout-labelled-link)", &a);
            let mut b = kj.clone();
            b["_type"] = Value::String("layout".into());
            case::<MetadataWrapper>(&mut sink, &mut r, "MetadataWrapper(link-labelled-layout)", &b);
            let mut both = lj.clone();
            if let (Value::Object(m), Value::Object(k)) = (&mut both, &kj) {
                for (name, v) in k {
                    if !m.contains_key(name) {
                        m.insert(name.clone(), v.clone());
                    }
                }
            }
            for label in ["link", "layout"] {
                both["_type"] = Value::String(label.into());
                case::<MetadataWrapper>(&mut sink, &mut r, "MetadataWrapper(members-of-both)", &both);
            }
            let mut none = kj.clone();
            none.as_object_mut().unwrap().remove("_type");
            case::<MetadataWrapper>(&mut sink, &mut r, "MetadataWrapper(no-label)", &none);
        }
        let key = r.pick(&pool);
        let mb = Metablock::new(MetadataWrapper::Layout(layout.clone()), &[&key.key]).unwrap();
        case::<Metablock>(&mut sink, &mut r, "Metablock", &serde_json::to_value(&mb).unwrap());
        case::<PublicKey>(&mut sink, &mut r, "PublicKey", &serde_json::to_value(key.public()).unwrap());
        case::<Signature>(&mut sink, &mut r, "Signature", &serde_json::to_value(&mb.signatures[0]).unwrap());
        for st in &layout.steps {
            case::<Step>(&mut sink, &mut r, "Step", &serde_json::to_value(st).unwrap());
            for rule in st.expected_materials.iter().chain(st.expected_products.iter()) {
                let rj = serde_json::to_value(rule).unwrap();
                case::<ArtifactRule>(&mut sink, &mut r, "ArtifactRule", &rj);
                if i % 7 == 0 {
                    // malformed rule: every channel must reject alike
                    if let Value::Array(mut a) = rj.clone() {
                        if !a.is_empty() {
                            a[0] = Value::String("CREATEX".into());
                        }
                        case::<ArtifactRule>(&mut sink, &mut r, "ArtifactRule(bad)", &Value::Array(a));
                    }
                }
            }
        }
        let (pf, pred) = attgen::gen_predicate(&mut r);
        let _ = pf;
        case::<PredicateWrapper>(&mut sink, &mut r, "PredicateWrapper", &pred);
        let naive = attgen::gen_naive(&mut r);
        case::<StatementWrapper>(&mut sink, &mut r, "StatementWrapper(naive)", &naive);
        let (v01, _, _) = attgen::gen_v01(&mut r);
        case::<StatementWrapper>(&mut sink, &mut r, "StatementWrapper(v0.1)", &v01);
        if i % 3 == 0 {
            let p1 = attgen::perturb(&v01, &mut r);
            case::<StatementWrapper>(&mut sink, &mut r, "StatementWrapper(perturbed)", &p1);
            let p2 = attgen::perturb(&pred, &mut r);
            case::<PredicateWrapper>(&mut sink, &mut r, "PredicateWrapper(perturbed)", &p2);
        }
    }
    // what the text reader makes of a text, spelling by spelling (Model/JsonText.lean)
    crate::textgen::run_text_cases(&mut sink, &mut r, if cfg.thorough { 20000 } else { 1500 });
    sink.finish(&cfg.out, serde_json::json!({}));
}
