//! C16 / C05: the derived codecs of whole documents (link, step, inspection, layout, signature,
//! signed block) against `Model/Codec.lean`.
//!
//! For a JSON document `d` (valid, or mutated) the implementation decodes it with
//! `serde_json::from_value::<T>` and, when accepted, writes it again with `to_value`; the model does
//! the same (`doc_dec`).  Both must agree on accept / reject and on the rewritten document.  Nothing
//! is handed to the model besides the document: key descriptions are read by Model/KeyJson.lean (PEM,
//! DER, hex, SHA-256 for the ids), `expires` by Model/Time.lean; both are also exercised on their own
//! (`key_dec`, `rfc3339` / `fmttime`).
use crate::jsongen::{gen_string, proto};
use crate::meta::*;
use crate::proto::{guarded, Sink};
use crate::rng::Rng;
use in_toto::crypto::{PublicKey, Signature};
use in_toto::interchange::{DataInterchange, Json};
use in_toto::models::inspection::Inspection;
use in_toto::models::step::Step;
use in_toto::models::{LayoutMetadata, LinkMetadata, Metablock, MetadataWrapper};
use serde::de::DeserializeOwned;
use serde::Serialize;
use serde_json::{json, Value};

fn collect_member<'a>(v: &'a Value, name: &str, out: &mut Vec<&'a Value>) {
    match v {
        Value::Object(m) => {
            for (k, x) in m {
                if k == name {
                    out.push(x);
                }
                collect_member(x, name, out);
            }
        }
        Value::Array(xs) => xs.iter().for_each(|x| collect_member(x, name, out)),
        _ => {}
    }
}

/// the description of a key with its material in the spellings the key types do *not* use: PEM for
/// hex-spelled types (Ed25519, ECDSA), hex of the DER / of the bare key for the PEM-spelled type (RSA),
/// each with and without the hash-algorithm list; plus every other key type / scheme name on top
pub fn respelled_keys(k: &PublicKey) -> Vec<Value> {
    let kj = serde_json::to_value(k).unwrap();
    let mut out = vec![];
    let spki = k.as_spki().ok();
    let mut materials: Vec<String> = vec![];
    if let Some(der) = &spki {
        materials.push(pem::encode(&pem::Pem::new("PUBLIC KEY", der.clone())));
        materials.push(pem::encode(&pem::Pem::new("PUBLIC KEY", der.clone())).replace("\r\n", "\n"));
        materials.push(crate::proto::hex(der));
    }
    materials.push(crate::proto::hex(k.as_bytes()));
    let own = kj["keyval"]["public"].as_str().unwrap_or("").to_string();
    materials.push(own.clone());
    for m in materials {
        // (the hash-algorithm list is part of the description as it is written: other orders, repeats, other
        // names and the empty list are other descriptions - with ids of their own)
        for algs in [None, Some(json!(["sha256", "sha512"])), Some(json!(["sha512"])), Some(json!(["sha512", "sha256"])), Some(json!(["sha256", "sha256"])), Some(json!(["sha512", "sha256", "sha512"])), Some(json!(["zz", "sha256", "aa"])), Some(json!([]))] {
            let mut v = kj.clone();
            v["keyval"]["public"] = Value::String(m.clone());
            match algs {
                None => {
                    v.as_object_mut().unwrap().remove("keyid_hash_algorithms");
                }
                Some(a) => v["keyid_hash_algorithms"] = a,
            }
            out.push(v.clone());
            for (t, sc) in [("ecdsa", "ecdsa-sha2-nistp256"), ("ed25519", "ed25519"), ("rsa", "rsassa-pss-sha256")] {
                if v["keytype"] != t {
                    let mut w = v.clone();
                    w["keytype"] = json!(t);
                    w["scheme"] = json!(sc);
                    out.push(w);
                }
            }
        }
    }
    out
}

/// a key description read and written again, with its id: `key_dec`
pub fn key_case(sink: &mut Sink, doc: &Value, class: &str) {
    if doc.to_string().contains("\"Unknown\"") {
        return;
    }
    let op = format!("key_dec {}", proto(doc, &mut None));
    let d = doc.clone();
    let ans = match guarded(move || serde_json::from_value::<PublicKey>(d)) {
        Err(()) => {
            sink.oracle(false, "the key reader panicked", &op);
            return;
        }
        Ok(Err(_)) => "reject".to_string(),
        Ok(Ok(k)) => {
            let id = serde_json::to_value(k.key_id()).unwrap();
            let written = serde_json::to_value(&k).unwrap();
            // the key that was read is the key the document describes: its type, scheme and
            // hash-algorithm list (absent stays absent) are the document's, and it survives its own
            // description with the same id
            for m in ["keytype", "scheme", "keyid_hash_algorithms"] {
                // (a `null` member is an absent one)
                sink.oracle(written.get(m) == doc.get(m).filter(|x| !x.is_null()), &format!("a key read from a description has another `{}` than the description gives (its id is that of another description)", m), &op);
            }
            // the id is the SHA-256 of the reference canonical form of the description: type, scheme,
            // hash-algorithm list (if any) and public key material - recomputed here without the crate
            {
                let mut shim = serde_json::Map::new();
                for m in ["keytype", "scheme", "keyid_hash_algorithms"] {
                    if let Some(x) = written.get(m) {
                        shim.insert(m.to_string(), x.clone());
                    }
                }
                shim.insert("keyval".into(), json!({"public": written["keyval"]["public"].clone()}));
                if let Some(bytes) = crate::olpc::olpc(&Value::Object(shim)) {
                    let want = crate::proto::hex(ring::digest::digest(&ring::digest::SHA256, &bytes).as_ref());
                    sink.oracle(id.as_str() == Some(want.as_str()), "a key's id is not the SHA-256 of the canonical description of its type, scheme, hash-algorithm list and material", &op);
                }
            }
            match serde_json::from_value::<PublicKey>(written.clone()) {
                Ok(k2) => sink.oracle(k2 == k && k2.key_id() == k.key_id(), "a key changes (or changes its id) when written and read again", &op),
                Err(_) => sink.oracle(false, "the description written for an accepted key is rejected", &op),
            }
            format!("ok {} {}", id.as_str().unwrap(), proto(&written, &mut None))
        }
    };
    sink.stat(&format!("key_dec/{}/{}", class, ans.split(' ').next().unwrap()));
    sink.op(&op, &ans, doc.is_object());
}

fn answer<T: Serialize + DeserializeOwned + PartialEq + 'static>(sink: &mut Sink, doc: &Value, op: &str) -> String {
    let d = doc.clone();
    match guarded(move || serde_json::from_value::<T>(d)) {
        Err(()) => {
            sink.oracle(false, "a document reader panicked", op);
            "panic".into()
        }
        Ok(Err(_)) => "reject".into(),
        Ok(Ok(v)) => match serde_json::to_value(&v) {
            Err(_) => {
                sink.oracle(false, "an accepted document cannot be written again", op);
                "unwritable".into()
            }
            Ok(j) => {
                // what was accepted survives its own wire form unchanged
                match serde_json::from_value::<T>(j.clone()) {
                    Ok(v2) => {
                        sink.oracle(v2 == v, "an accepted document changes when written and read again", op);
                        sink.oracle(serde_json::to_value(&v2).ok().as_ref() == Some(&j), "writing an accepted document twice gives different JSON", op);
                    }
                    Err(_) => sink.oracle(false, "an accepted document is rejected after being written again", op),
                }
                // what was read is what the document says: the artifact paths and rule patterns written
                // again are those of the document, character for character
                let (mut a, mut b) = (vec![], vec![]);
                path_strings(doc, false, false, &mut a);
                path_strings(&j, false, false, &mut b);
                a.sort();
                a.dedup();
                b.sort();
                b.dedup();
                // (a reader may leave members aside - the union of a layout's and a link's members reads as
                // a layout -, but it does not invent or respell any)
                sink.oracle(b.iter().all(|x| a.contains(x)), "a document read and written again names an artifact path or rule pattern that the document does not", op);
                // ... and no number is written that the document does not hold at that place
                let mut nums = vec![];
                number_leaves(&j, &mut vec![], &mut nums);
                for (path, n) in nums {
                    let mut cur = Some(doc);
                    for seg in &path {
                        cur = match cur {
                            Some(Value::Object(m)) => m.get(seg),
                            Some(Value::Array(xs)) => seg.strip_prefix('#').and_then(|i| i.parse::<usize>().ok()).and_then(|i| xs.get(i)),
                            _ => None,
                        };
                    }
                    if let Some(Value::Number(orig)) = cur {
                        sink.oracle(*orig == n, &format!("a number of an accepted document is written back as another number ({} -> {})", orig, n), op);
                    }
                }
                format!("ok {}", proto(&j, &mut None))
            }
        },
    }
}

fn number_leaves(v: &Value, cur: &mut Vec<String>, out: &mut Vec<(Vec<String>, serde_json::Number)>) {
    match v {
        Value::Number(n) => out.push((cur.clone(), n.clone())),
        Value::Object(m) => {
            for (k, x) in m {
                cur.push(k.clone());
                number_leaves(x, cur, out);
                cur.pop();
            }
        }
        Value::Array(xs) => {
            for (i, x) in xs.iter().enumerate() {
                cur.push(format!("#{}", i));
                number_leaves(x, cur, out);
                cur.pop();
            }
        }
        _ => {}
    }
}

/// artifact paths (member names under `materials` / `products`) and rule patterns (second string of
/// the arrays under `expected_materials` / `expected_products`) of a document
fn path_strings(v: &Value, under_arts: bool, in_rules: bool, out: &mut Vec<String>) {
    match v {
        Value::Object(m) => {
            for (k, x) in m {
                if under_arts {
                    out.push(format!("artifact {}", k));
                }
                path_strings(x, k == "materials" || k == "products", k == "expected_materials" || k == "expected_products", out);
            }
        }
        Value::Array(xs) => {
            for x in xs {
                if in_rules {
                    if let Some(Value::String(p)) = x.as_array().and_then(|t| t.get(1)) {
                        out.push(format!("pattern {}", p));
                    }
                }
                path_strings(x, false, false, out);
            }
        }
        _ => {}
    }
}

/// the text the library writes for an accepted document (`serde_json::to_string_pretty(&doc)`, as
/// `in_toto_run` and the CLI do, and the compact `to_string`) against the model's writers applied to
/// the model's encoding (`doc_text`): this pins the member order of every derive and the writers; the
/// text must also read back (`from_str`) as the same document.
fn text_answer<T: Serialize + DeserializeOwned + PartialEq + 'static>(sink: &mut Sink, doc: &Value, op: &str) -> Option<(u8, String)> {
    let d = doc.clone();
    let v = match guarded(move || serde_json::from_value::<T>(d)) {
        Ok(Ok(v)) => v,
        Ok(Err(_)) => return Some((1, "reject".into())),
        Err(()) => return None,
    };
    let pretty = serde_json::to_string_pretty(&v).ok()?;
    let compact = serde_json::to_string(&v).ok()?;
    for (text, what) in [(&pretty, "pretty-printed"), (&compact, "compact")] {
        match serde_json::from_str::<T>(text) {
            Ok(v2) => sink.oracle(v2 == v, &format!("a document changes when written as {} text and read again", what), op),
            Err(_) => sink.oracle(false, &format!("the {} text written for a document is rejected by its reader", what), op),
        }
        match serde_json::from_slice::<T>(text.as_bytes()) {
            Ok(v2) => sink.oracle(v2 == v, &format!("a document changes when written as {} bytes and read again", what), op),
            Err(_) => sink.oracle(false, &format!("the {} bytes written for a document are rejected by its reader", what), op),
        }
    }
    // `JsonPretty::to_writer` goes through a `Value` (members sorted): comparable for every document
    let mut jp: Vec<u8> = Vec::new();
    if in_toto::interchange::JsonPretty::to_writer(&mut jp, &v).is_err() {
        sink.oracle(false, "JsonPretty::to_writer fails on an accepted document", op);
        return None;
    }
    match in_toto::interchange::JsonPretty::from_slice::<T>(&jp) {
        Ok(v2) => {
            sink.oracle(v2 == v, "a document changes when written by JsonPretty::to_writer and read again", op);
            // ... and serializing that again yields byte-identical JSON: the value that was read back, and
            // the same document read once more (equal values held in other map instances)
            let again = serde_json::from_value::<T>(doc.clone()).ok();
            for (val, what) in [(Some(v2), "the value read back from it"), (again, "an equal value read from the same document")] {
                if let Some(val) = val {
                    let mut jp2: Vec<u8> = Vec::new();
                    let w = in_toto::interchange::JsonPretty::to_writer(&mut jp2, &val);
                    sink.oracle(w.is_ok() && jp2 == jp, &format!("JsonPretty::to_writer writes other bytes for {} than for the value itself", what), op);
                    let (c1, c2) = (Json::canonicalize(&Json::serialize(&v).ok()?).ok(), Json::canonicalize(&Json::serialize(&val).ok()?).ok());
                    sink.oracle(c1.is_some() && c1 == c2, &format!("the canonical JSON of {} differs from that of the value itself", what), op);
                }
            }
        }
        Err(_) => sink.oracle(false, "the text written by JsonPretty::to_writer is rejected by its reader", op),
    }
    // digest maps and the layout's key table are `HashMap`s: with two or more entries the order in
    // which the derive writes them is unspecified, so the direct texts are compared only without those
    if hash_ordered(&serde_json::to_value(&v).ok()?, false) {
        return Some((0, format!("ok - - {}", crate::proto::hex(&jp))));
    }
    Some((1, format!("ok {} {} {}", crate::proto::hex(pretty.as_bytes()), crate::proto::hex(compact.as_bytes()), crate::proto::hex(&jp))))
}

/// does the document hold a `HashMap` with two or more entries (a digest map under `materials` /
/// `products`, the `keys` table)?
fn hash_ordered(v: &Value, in_artifacts: bool) -> bool {
    match v {
        Value::Object(m) => m.iter().any(|(k, x)| {
            let arts = k == "materials" || k == "products";
            if k == "keys" || in_artifacts {
                if x.as_object().map_or(false, |o| o.len() >= 2) {
                    return true;
                }
            }
            hash_ordered(x, arts)
        }),
        Value::Array(xs) => xs.iter().any(|x| hash_ordered(x, false)),
        _ => false,
    }
}

pub fn doc_text_case(sink: &mut Sink, kind: &str, doc: &Value, class: &str) {
    if doc.to_string().contains("\"Unknown\"") {
        return;
    }
    let op = format!("doc_text {} {}", kind, proto(doc, &mut None));
    let ans = match kind {
        "link" => text_answer::<LinkMetadata>(sink, doc, &op),
        "step" => text_answer::<Step>(sink, doc, &op),
        "insp" => text_answer::<Inspection>(sink, doc, &op),
        "sig" => text_answer::<Signature>(sink, doc, &op),
        "layout" => text_answer::<LayoutMetadata>(sink, doc, &op),
        "meta" => text_answer::<MetadataWrapper>(sink, doc, &op),
        "block" => text_answer::<Metablock>(sink, doc, &op),
        _ => unreachable!(),
    };
    if let Some((flag, ans)) = ans {
        sink.stat(&format!("doc_text/{}/{}/{}", kind, class, ans.split(' ').next().unwrap()));
        sink.op(&format!("doc_text {} {} {}", kind, flag, proto(doc, &mut None)), &ans, doc.is_object());
    }
}

fn has_float(v: &Value) -> bool {
    match v {
        Value::Number(n) => !(n.is_i64() || n.is_u64()),
        Value::Array(xs) => xs.iter().any(has_float),
        Value::Object(m) => m.values().any(has_float),
        _ => false,
    }
}

/// serde_json's two writers on an arbitrary value: `writetext`
pub fn write_text_case(sink: &mut Sink, v: &Value) {
    if has_float(v) {
        return;
    }
    let op = format!("writetext {}", proto(v, &mut None));
    let compact = serde_json::to_string(v).unwrap();
    let pretty = serde_json::to_string_pretty(v).unwrap();
    sink.oracle(serde_json::from_str::<Value>(&pretty).ok().as_ref() == Some(v), "a value changes when pretty-printed and read again", &op);
    sink.oracle(serde_json::from_str::<Value>(&compact).ok().as_ref() == Some(v), "a value changes when written and read again", &op);
    let mut jp: Vec<u8> = Vec::new();
    let w = in_toto::interchange::JsonPretty::to_writer(&mut jp, v);
    sink.oracle(w.is_ok() && jp == pretty.as_bytes(), "JsonPretty::to_writer differs from serde_json's pretty printer on a value", &op);
    sink.stat("writetext");
    sink.op(&op, &format!("{} {}", crate::proto::hex(compact.as_bytes()), crate::proto::hex(pretty.as_bytes())), v.is_object() || v.is_array());
}

pub fn doc_case(sink: &mut Sink, kind: &str, doc: &Value, class: &str) {
    // (the `{"Unknown": s}` form of a signature scheme is outside the key model)
    if doc.to_string().contains("\"Unknown\"") {
        return;
    }
    let op = format!("doc_dec {} {}", kind, proto(doc, &mut None));
    let ans = match kind {
        "link" => answer::<LinkMetadata>(sink, doc, &op),
        "step" => answer::<Step>(sink, doc, &op),
        "insp" => answer::<Inspection>(sink, doc, &op),
        "sig" => answer::<Signature>(sink, doc, &op),
        "layout" => answer::<LayoutMetadata>(sink, doc, &op),
        "meta" => answer::<MetadataWrapper>(sink, doc, &op),
        "block" => answer::<Metablock>(sink, doc, &op),
        _ => unreachable!(),
    };
    sink.stat(&format!("doc_dec/{}/{}/{}", kind, class, ans.split(' ').next().unwrap()));
    if ans == "panic" || ans == "unwritable" {
        return;
    }
    sink.op(&op, &ans, doc.is_object());
}

// ---------------------------------------------------------------------------------------------
// mutations

fn paths(v: &Value, cur: &mut Vec<String>, out: &mut Vec<Vec<String>>) {
    out.push(cur.clone());
    match v {
        Value::Object(m) => {
            for (k, x) in m {
                cur.push(k.clone());
                paths(x, cur, out);
                cur.pop();
            }
        }
        Value::Array(xs) => {
            for (i, x) in xs.iter().enumerate() {
                cur.push(format!("#{}", i));
                paths(x, cur, out);
                cur.pop();
            }
        }
        _ => {}
    }
}

fn at_mut<'a>(v: &'a mut Value, p: &[String]) -> Option<&'a mut Value> {
    let mut cur = v;
    for seg in p {
        cur = match cur {
            Value::Object(m) => m.get_mut(seg)?,
            Value::Array(xs) => xs.get_mut(seg.strip_prefix('#')?.parse::<usize>().ok()?)?,
            _ => return None,
        };
    }
    Some(cur)
}

fn odd_value(r: &mut Rng) -> Value {
    match r.below(16) {
        0 => Value::Null,
        1 => json!(0),
        2 => json!(-1),
        3 => json!(4294967295u64),
        4 => json!(4294967296u64),
        5 => json!(2147483648u64),
        6 => json!(-2147483649i64),
        7 => json!(1.5),
        8 => json!(1.0),
        9 => json!(""),
        10 => json!(true),
        11 => json!([]),
        12 => json!({}),
        13 => json!(["x", 1]),
        14 => json!({"k": 1}),
        _ => Value::String(gen_string(r)),
    }
}

fn odd_string(s: &str, r: &mut Rng) -> String {
    match r.below(9) {
        0 => s.to_uppercase(),
        1 => {
            let mut t: Vec<char> = s.chars().collect();
            t.pop();
            t.into_iter().collect()
        }
        2 => format!("{}g", s),
        3 => format!("{}0", s),
        4 => "\u{e9}".repeat(32), // 64 bytes, 32 characters
        5 => "a".repeat(63),
        6 => "a".repeat(65),
        7 => "f".repeat(64),
        _ => String::new(),
    }
}

const EXPIRES: &[&str] = &[
    "2030-01-01T00:00:00Z", "2030-01-01T05:30:00+05:30", "2030-01-01T00:00:00.5Z", "2030-01-01t00:00:00z", "2030-01-01 00:00:00Z",
    "2030-02-30T00:00:00Z", "2030-01-01T00:00:00", "2030-01-01T24:00:00Z", "2030-01-01T23:59:60Z", "+10000-01-01T00:00:00Z", "",
    "2030-01-01T00:00:00-00:00", "0000-01-01T00:00:00Z",
];

/// the document with a backslash in one of its artifact paths or rule patterns (a member name under
/// `materials` / `products`, a string of a rule array): `\` is an ordinary character of a path - a
/// file `dist\out` is not the file `dist/out` - and has to survive as it is
/// the document with one of its key ids (a `keyid` member, an entry of `pubkeys`, a name in the `keys` table)
/// written with upper-case digits: another text - refused, or kept as written; never rewritten
pub fn uppercase_keyid(doc: &Value, r: &mut Rng) -> Option<Value> {
    fn is_id(s: &str) -> bool {
        s.len() == 64 && s.bytes().all(|c| c.is_ascii_hexdigit()) && s.bytes().any(|c| c.is_ascii_lowercase())
    }
    fn go(v: &mut Value, key: &str, r: &mut Rng, done: &mut bool) {
        match v {
            Value::String(s) if (key == "keyid" || key == "pubkeys") && is_id(s) && !*done && r.chance(1, 2) => {
                *s = s.to_uppercase();
                *done = true;
            }
            Value::Object(m) => {
                if key == "keys" && !*done && r.chance(1, 2) {
                    if let Some(k) = m.keys().find(|k| is_id(k)).cloned() {
                        let x = m.remove(&k).unwrap();
                        m.insert(k.to_uppercase(), x);
                        *done = true;
                    }
                }
                // (the `keyid` member of a key description is redundant - the reader computes the id and writes the
                // computed one: not a field it accepts)
                let is_key = m.contains_key("keyval");
                for (k, x) in m.iter_mut() {
                    if is_key && k == "keyid" {
                        continue;
                    }
                    go(x, k, r, done);
                }
            }
            Value::Array(xs) => {
                for x in xs.iter_mut() {
                    go(x, key, r, done);
                }
            }
            _ => {}
        }
    }
    let mut d = doc.clone();
    let mut done = false;
    for _ in 0..4 {
        if !done {
            go(&mut d, "", r, &mut done);
        }
    }
    if done { Some(d) } else { None }
}

pub fn backslash_path(doc: &Value, r: &mut Rng) -> Option<Value> {
    fn go(v: &mut Value, under_arts: bool, in_rules: bool, r: &mut Rng, done: &mut bool) {
        match v {
            Value::Object(m) => {
                if under_arts && !m.is_empty() && !*done && r.chance(1, 2) {
                    let keys: Vec<String> = m.keys().cloned().collect();
                    let k = r.pick(&keys).clone();
                    let nk = if k.contains('/') && r.chance(1, 2) { k.replace('/', "\\") } else { format!("dist\\{}", k) };
                    if !m.contains_key(&nk) {
                        let x = m.remove(&k).unwrap();
                        m.insert(nk, x.clone());
                        // sometimes both spellings side by side
                        if r.chance(1, 3) {
                            m.insert(k, x);
                        }
                        *done = true;
                    }
                }
                for (k, x) in m.iter_mut() {
                    let arts = k == "materials" || k == "products";
                    let rules = k == "expected_materials" || k == "expected_products";
                    go(x, arts, rules, r, done);
                }
            }
            Value::Array(xs) => {
                if in_rules && !*done {
                    // a rule is an array of strings: keyword, pattern, ...
                    for x in xs.iter_mut() {
                        if let Value::Array(toks) = x {
                            if toks.len() >= 2 && !*done && r.chance(1, 2) {
                                if let Some(Value::String(p)) = toks.get_mut(1) {
                                    *p = if p.contains('/') { p.replace('/', "\\") } else { format!("dist\\{}", p) };
                                    *done = true;
                                }
                            }
                        }
                    }
                }
                for x in xs.iter_mut() {
                    go(x, false, false, r, done);
                }
            }
            _ => {}
        }
    }
    let mut d = doc.clone();
    let mut done = false;
    go(&mut d, false, false, r, &mut done);
    if done { Some(d) } else { None }
}

/// one mutation of a valid document
pub fn mutate(doc: &Value, r: &mut Rng) -> Value {
    let mut d = doc.clone();
    let mut ps = vec![];
    paths(&d, &mut vec![], &mut ps);
    let p = r.pick(&ps).clone();
    let names = ["_type", "name", "materials", "products", "environment", "byproducts", "command", "threshold", "expected_materials", "expected_products",
        "pubkeys", "expected_command", "run", "expires", "readme", "keys", "steps", "inspect", "keyid", "sig", "signatures", "signed", "sha256", "sha512",
        "stdout", "stderr", "return-value", "keyval", "keytype", "scheme", "public", "keyid_hash_algorithms"];
    match r.below(10) {
        // delete a member / element
        0 | 1 => {
            if let Some((last, parent)) = p.split_last() {
                match at_mut(&mut d, parent) {
                    Some(Value::Object(m)) => {
                        m.remove(last);
                    }
                    Some(Value::Array(xs)) => {
                        if let Some(i) = last.strip_prefix('#').and_then(|x| x.parse::<usize>().ok()) {
                            if i < xs.len() {
                                xs.remove(i);
                            }
                        }
                    }
                    _ => {}
                }
            }
        }
        // rename a member
        2 => {
            if let Some((last, parent)) = p.split_last() {
                if let Some(Value::Object(m)) = at_mut(&mut d, parent) {
                    if let Some(x) = m.remove(last) {
                        let nn = match r.below(4) {
                            0 => format!("{}x", last),
                            1 => last.to_uppercase(),
                            2 => r.pick(&["md5", "Unknown", "sha1", "SHA256", "sha512", "sha256"]).to_string(),
                            _ => r.pick(&names).to_string(),
                        };
                        m.insert(nn, x);
                    }
                }
            }
        }
        // add a member (unknown, or a known one that is absent)
        3 => {
            if let Some(Value::Object(m)) = at_mut(&mut d, &p) {
                if !m.is_empty() && r.chance(1, 3) {
                    // another spelling of a member that is already there (other letter case, a hyphen before
                    // the digits, an underscore for a hyphen), with a value of the same shape but other content
                    let keys: Vec<String> = m.keys().cloned().collect();
                    let k0 = r.pick(&keys).clone();
                    let k = match r.below(4) {
                        0 => k0.to_uppercase(),
                        1 => match k0.find(|c: char| c.is_ascii_digit()) {
                            Some(i) => format!("{}-{}", &k0[..i], &k0[i..]),
                            None => format!("{}_", k0),
                        },
                        2 => k0.replace('-', "_").replace("return_value", "return-value "),
                        _ => {
                            let mut cs: Vec<char> = k0.chars().collect();
                            if let Some(c) = cs.first_mut() {
                                *c = c.to_ascii_uppercase();
                            }
                            cs.into_iter().collect()
                        }
                    };
                    let v = match m.get(&k0) {
                        Some(Value::String(s)) if !s.is_empty() => {
                            let mut b: Vec<char> = s.chars().collect();
                            let i = r.below(b.len());
                            b[i] = if b[i] == '1' { '2' } else { '1' };
                            Value::String(b.into_iter().collect())
                        }
                        Some(x) => x.clone(),
                        None => odd_value(r),
                    };
                    if k != k0 {
                        m.entry(k).or_insert(v);
                    }
                } else {
                    let k = if r.chance(1, 2) { r.pick(&names).to_string() } else { gen_string(r) };
                    let v = odd_value(r);
                    m.entry(k).or_insert(v);
                }
            }
        }
        // replace a value by one of another shape
        4 | 5 => {
            if !p.is_empty() {
                if let Some(x) = at_mut(&mut d, &p) {
                    *x = odd_value(r);
                }
            }
        }
        // damage a string in place
        6 | 7 => {
            if let Some(x) = at_mut(&mut d, &p) {
                if let Value::String(s) = x {
                    *x = Value::String(odd_string(s, r));
                } else if let Value::Number(n) = x {
                    if let Some(i) = n.as_i64() {
                        *x = json!(i.wrapping_add(1));
                    } else if let Some(u) = n.as_u64() {
                        *x = json!(u.wrapping_add(1));
                    }
                }
            }
        }
        // a different spelling of the expiry
        8 => {
            let mut stack = vec![&mut d];
            while let Some(v) = stack.pop() {
                match v {
                    Value::Object(m) => {
                        for (k, x) in m.iter_mut() {
                            if k == "expires" {
                                *x = Value::String(r.pick(EXPIRES).to_string());
                            } else {
                                stack.push(x);
                            }
                        }
                    }
                    Value::Array(xs) => stack.extend(xs.iter_mut()),
                    _ => {}
                }
            }
        }
        // key table: file an entry under another id, or swap two entries' ids
        _ => {
            let mut stack = vec![&mut d];
            while let Some(v) = stack.pop() {
                match v {
                    Value::Object(m) => {
                        if let Some(Value::Object(t)) = m.get_mut("keys") {
                            let ids: Vec<String> = t.keys().cloned().collect();
                            if let Some(id) = ids.first() {
                                let e = t.remove(id).unwrap();
                                let nid = match r.below(3) {
                                    0 => "0".repeat(64),
                                    1 => ids.last().unwrap().clone(),
                                    _ => format!("{}0", &id[..id.len().min(63)]),
                                };
                                t.insert(nid, e);
                            }
                        }
                        stack.extend(m.values_mut());
                    }
                    Value::Array(xs) => stack.extend(xs.iter_mut()),
                    _ => {}
                }
            }
        }
    }
    d
}

pub fn run_docs(sink: &mut Sink, r: &mut Rng, pool: &[KeyInfo], n: usize) {
    for i in 0..n {
        let layout = gen_layout(r, pool);
        let link = gen_link(r, None);
        let mut docs: Vec<(&str, Value)> = vec![("layout", serde_json::to_value(&layout).unwrap()), ("link", serde_json::to_value(&link).unwrap())];
        for st in &layout.steps {
            docs.push(("step", serde_json::to_value(st).unwrap()));
        }
        for ins in &layout.inspect {
            docs.push(("insp", serde_json::to_value(ins).unwrap()));
        }
        let meta = if i % 2 == 0 { MetadataWrapper::Layout(layout.clone()) } else { MetadataWrapper::Link(link.clone()) };
        docs.push(("meta", serde_json::to_value(&meta).unwrap()));
        let nsig = r.below(3);
        let signers: Vec<&in_toto::crypto::PrivateKey> = (0..nsig).map(|_| &r.pick(pool).key).collect();
        if let Ok(mb) = Metablock::new(meta, &signers) {
            for s in &mb.signatures {
                docs.push(("sig", serde_json::to_value(s).unwrap()));
            }
            docs.push(("block", serde_json::to_value(&mb).unwrap()));
        }
        // a link read as a layout and the other way round, and both through the untagged reader
        docs.push(("layout", serde_json::to_value(&link).unwrap()));
        docs.push(("link", serde_json::to_value(&layout).unwrap()));
        for (kind, d) in &docs {
            doc_case(sink, kind, d, "valid");
            if let Some(b) = backslash_path(d, r) {
                doc_case(sink, kind, &b, "backslash");
                doc_text_case(sink, kind, &b, "backslash");
            }
            if let Some(b) = uppercase_keyid(d, r) {
                doc_case(sink, kind, &b, "upper-case-keyid");
                // directly: whatever is accepted is written back with the id as it was written
                fn upper_ids(v: &Value, out: &mut Vec<String>) {
                    let is = |s: &str| s.len() == 64 && s.bytes().all(|c| c.is_ascii_hexdigit()) && s.bytes().any(|c| c.is_ascii_uppercase());
                    match v {
                        Value::String(s) if is(s) => out.push(s.clone()),
                        Value::Object(m) => {
                            for (k, x) in m {
                                if is(k) {
                                    out.push(k.clone());
                                }
                                upper_ids(x, out);
                            }
                        }
                        Value::Array(xs) => xs.iter().for_each(|x| upper_ids(x, out)),
                        _ => {}
                    }
                }
                let mut ids = vec![];
                upper_ids(&b, &mut ids);
                let b2 = b.clone();
                let k2 = kind.to_string();
                let written: Option<Value> = guarded(move || match k2.as_str() {
                    "link" => serde_json::from_value::<LinkMetadata>(b2).ok().and_then(|x| serde_json::to_value(&x).ok()),
                    "step" => serde_json::from_value::<Step>(b2).ok().and_then(|x| serde_json::to_value(&x).ok()),
                    "insp" => serde_json::from_value::<Inspection>(b2).ok().and_then(|x| serde_json::to_value(&x).ok()),
                    "sig" => serde_json::from_value::<Signature>(b2).ok().and_then(|x| serde_json::to_value(&x).ok()),
                    "layout" => serde_json::from_value::<LayoutMetadata>(b2).ok().and_then(|x| serde_json::to_value(&x).ok()),
                    "meta" => serde_json::from_value::<MetadataWrapper>(b2).ok().and_then(|x| serde_json::to_value(&x).ok()),
                    _ => serde_json::from_value::<Metablock>(b2).ok().and_then(|x| serde_json::to_value(&x).ok()),
                })
                .ok()
                .flatten();
                if let Some(w) = written {
                    let text = w.to_string();
                    for id in &ids {
                        // (a key table entry filed under an id that is not the key's own is dropped by the reader:
                        // that is the table's rule, not a rewriting - the entry is gone, not re-spelled)
                        let lower = id.to_lowercase();
                        let respelled = text.matches(lower.as_str()).count() > b.to_string().matches(lower.as_str()).count();
                        sink.oracle(!respelled, "a key id written with upper-case digits was accepted and written back in lower case (the reader altered a key id it accepted)", &format!("doc_dec {} {}", kind, proto(&b, &mut None)));
                    }
                    sink.stat("upper-case-keyid/accepted");
                }
            }
            doc_text_case(sink, kind, d, "valid");
            write_text_case(sink, d);
            for _ in 0..3 {
                let m = mutate(d, r);
                doc_case(sink, kind, &m, "mutated");
                if r.chance(1, 3) {
                    doc_text_case(sink, kind, &m, "mutated");
                    write_text_case(sink, &m);
                }
                if r.chance(1, 3) {
                    let m2 = mutate(&m, r);
                    doc_case(sink, kind, &m2, "mutated2");
                }
            }
        }
        // a document that satisfies both readers: the union of a layout's and a link's members
        if let (Value::Object(a), Value::Object(b)) = (serde_json::to_value(&layout).unwrap(), serde_json::to_value(&link).unwrap()) {
            let mut u = a.clone();
            for (k, v) in b {
                u.entry(k).or_insert(v);
            }
            doc_case(sink, "meta", &Value::Object(u), "both");
        }
    }
}
