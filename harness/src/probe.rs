pub fn run() {
    for paths in [vec!["."], vec!["d"], vec!["./d/"], vec!["d/a.txt"], vec!["d/sub", "d"], vec!["d/rel_link"], vec!["d/link2link"]] {
        let r = in_toto::runlib::record_artifacts(&paths, None, None);
        match r {
            Ok(m) => eprintln!("{:?} -> {:?}", paths, m.keys().map(|k| k.value().to_string()).collect::<Vec<_>>()),
            Err(e) => eprintln!("{:?} -> ERR {}", paths, e),
        }
    }
}
