//! C11: signed bytes and key-id preimages vs the reference (OLPC) encoding.
//! Also provides the "which text is signed" probes shared with C05 / C09.
use crate::jsongen::proto;
use crate::meta::{gen_layout, gen_link, key_pool, KeyInfo};
use crate::model::Model;
use crate::olpc::olpc;
use crate::proto::{guarded, hex, unhex, Sink};
use crate::rng::Rng;
use crate::Cfg;
use in_toto::crypto::PrivateKey;
use in_toto::models::{Metablock, MetablockBuilder, MetadataWrapper};
use serde_json::Value;

/// Probe all three places that derive the signed text from metadata, using a deterministic
/// (ed25519) key: returns (constructor signature, builder signature, does `verify` accept a
/// signature made over `text`?).
pub struct Probe {
    pub sig_new: Vec<u8>,
    pub sig_builder: Vec<u8>,
}

pub fn probe_sign(meta: &MetadataWrapper, key: &PrivateKey) -> Option<Probe> {
    let mb = Metablock::new(meta.clone(), &[key]).ok()?;
    let sig_new = mb.signatures.first()?.value().as_bytes().to_vec();
    let b = MetablockBuilder::from_metadata(meta.clone().into_trait()).sign(&[key]).ok()?.build();
    let sig_builder = b.signatures.first()?.value().as_bytes().to_vec();
    Some(Probe { sig_new, sig_builder })
}

pub fn verify_accepts(meta: &MetadataWrapper, key: &PrivateKey, text: &[u8]) -> bool {
    let sig = match key.sign(text) {
        Ok(s) => s,
        Err(_) => return false,
    };
    let mb = Metablock { signatures: vec![sig], metadata: meta.clone() };
    mb.verify(1, [key.public()]).is_ok()
}

fn sign_bytes(key: &PrivateKey, text: &[u8]) -> Vec<u8> {
    key.sign(text).map(|s| s.value().as_bytes().to_vec()).unwrap_or_default()
}

/// Only the model-vs-implementation part of `case` (used by C05 / C09).
pub fn case_corr_only(sink: &mut Sink, model: &mut Model, key: &KeyInfo, meta: &MetadataWrapper) {
    case_inner(sink, model, key, meta, "corr", false)
}

pub fn case(sink: &mut Sink, model: &mut Model, key: &KeyInfo, meta: &MetadataWrapper, class: &str) {
    case_inner(sink, model, key, meta, class, true)
}

fn case_inner(sink: &mut Sink, model: &mut Model, key: &KeyInfo, meta: &MetadataWrapper, class: &str, with_oracle: bool) {
    let j: Value = match serde_json::to_value(meta) {
        Ok(j) => j,
        Err(_) => {
            sink.stat("serialize-failed");
            return;
        }
    };
    let p = proto(&j, &mut None);
    let replay = format!("signed {}", p);
    let (m2, k2) = (meta.clone(), key.reload());
    let probe = match guarded(move || probe_sign(&m2, &k2)) {
        Ok(Some(p)) => p,
        Ok(None) => {
            sink.stat("sign-failed");
            return;
        }
        Err(()) => {
            sink.oracle(false, "signing panicked", &replay);
            return;
        }
    };
    // --- correspondence: the model's signed text, signed with the same key, must be the library's signature
    let ans = model.ask(&replay);
    let model_text = ans.strip_prefix("ok ").and_then(unhex);
    let impl_answer = match &model_text {
        Some(t) => {
            let s = sign_bytes(&key.key, t);
            let v = verify_accepts(meta, &key.key, t);
            if s == probe.sig_new && s == probe.sig_builder && v {
                ans.clone()
            } else {
                format!(
                    "library-signs-other-bytes new={} builder={} verify={}",
                    s == probe.sig_new,
                    s == probe.sig_builder,
                    v
                )
            }
        }
        None => "library-signed-but-model-did-not".to_string(),
    };
    sink.op(&replay, &impl_answer, true);
    if !with_oracle {
        return;
    }
    // --- oracle: the reference encoding is what is signed and what verifies
    let reference = match olpc(&j) {
        Some(b) => b,
        None => return,
    };
    let s_ref = sign_bytes(&key.key, &reference);
    let same = s_ref == probe.sig_new && s_ref == probe.sig_builder;
    sink.oracle(same, "signature is not over the reference canonical JSON", &replay);
    sink.oracle(verify_accepts(meta, &key.key, &reference), "signature made over the reference canonical JSON is rejected", &replay);
    sink.stat(&format!("{}/{}", class, if same { "ref-equal" } else { "ref-differs" }));
    // the other direction of "interoperable": a file as a reference implementation writes it - the document,
    // and a signature over the reference encoding of that document - read here (compact and indented text),
    // verifies here
    {
        let sig = sign_bytes(&key.key, &reference);
        let kid = serde_json::to_value(key.public().key_id()).ok().and_then(|v| v.as_str().map(String::from)).unwrap_or_default();
        let file = serde_json::json!({"signatures": [{"keyid": kid, "sig": hex(&sig)}], "signed": j.clone()});
        for text in [file.to_string(), serde_json::to_string_pretty(&file).unwrap_or_default()] {
            let pk = key.public().clone();
            let res = guarded(move || serde_json::from_str::<Metablock>(&text).map(|mb| mb.verify(1, [&pk]).is_ok()));
            match res {
                Ok(Ok(ok)) => sink.oracle(ok, "a file signed over the reference canonical JSON of its document (as a reference implementation writes it) does not verify here", &replay),
                Ok(Err(_)) => sink.oracle(false, "a file holding a document this library wrote, signed by a reference implementation, is not accepted by the reader", &replay),
                Err(()) => sink.oracle(false, "reading or verifying a reference-signed file panicked", &replay),
            }
        }
    }
    // the third place that signs: `MetablockBuilder::from_raw_metadata(document).sign(..)`. Whatever the
    // document looks like - indented, with a member the model does not know, without an optional member,
    // an expiry in another notation - what is signed is the reference encoding of the metadata the block
    // then carries
    {
        let mut docs: Vec<(&str, Value)> = vec![("own", j.clone())];
        let mut extra = j.clone();
        if let Some(o) = extra.as_object_mut() {
            o.insert("x-unknown-member".into(), serde_json::json!({"a": [1, "two"]}));
            docs.push(("foreign member", extra));
        }
        let mut lean = j.clone();
        if let Some(o) = lean.as_object_mut() {
            if o.remove("environment").is_some() {
                docs.push(("without environment", lean));
            }
        }
        let mut zoned = j.clone();
        if let Some(e) = zoned.get("expires").and_then(|e| e.as_str()).map(String::from) {
            if let Some(stem) = e.strip_suffix('Z') {
                zoned["expires"] = Value::String(format!("{}+00:00", stem));
                docs.push(("expiry with an offset", zoned));
            }
        }
        for (what, doc) in docs {
            for text in [doc.to_string(), serde_json::to_string_pretty(&doc).unwrap_or_default()] {
                let k2 = key.reload();
                let built = guarded(move || MetablockBuilder::from_raw_metadata(text.as_bytes()).and_then(|b| b.sign(&[&k2])).map(|b| b.build()));
                match built {
                    Err(()) => sink.oracle(false, "MetablockBuilder::from_raw_metadata / sign panicked", &replay),
                    Ok(Err(_)) => sink.stat(&format!("raw/{}/rejected", what)),
                    Ok(Ok(mb)) => {
                        sink.stat(&format!("raw/{}/signed", what));
                        let carried = serde_json::to_value(&mb.metadata).ok().and_then(|v| olpc(&v));
                        let got = mb.signatures.first().map(|s| s.value().as_bytes().to_vec()).unwrap_or_default();
                        let ok = carried.as_ref().map(|t| sign_bytes(&key.key, t) == got).unwrap_or(false);
                        sink.oracle(ok, &format!("the signature made through from_raw_metadata ({}) is not over the reference canonical JSON of the metadata the block carries", what), &replay);
                        let (mb2, pk) = (mb.clone(), key.public().clone());
                        sink.oracle(guarded(move || mb2.verify(1, [&pk]).is_ok()) == Ok(true), &format!("a block signed through from_raw_metadata ({}) does not verify", what), &replay);
                    }
                }
            }
        }
    }
    // ... and nothing else verifies: a signature over any other rendering of the same content (the
    // canonical text with its escape sequences left in place, the same with only the line feed undone,
    // serde_json's compact or indented text, the reference text followed by a line feed) is a signature
    // over other bytes - no reference implementation would accept it
    {
        let canonical = guarded({ let m = meta.clone(); move || m.to_bytes() }).ok().and_then(|r| r.ok()).unwrap_or_default();
        let mut with_lf = reference.clone();
        with_lf.push(b'\n');
        let renderings: Vec<(&str, Vec<u8>)> = vec![
            ("canonical text with escapes", canonical.clone()),
            ("canonical text with only \\n undone", String::from_utf8_lossy(&canonical).replace("\\n", "\n").into_bytes()),
            ("serde_json compact text", serde_json::to_vec(&j).unwrap_or_default()),
            ("serde_json indented text", serde_json::to_vec_pretty(&j).unwrap_or_default()),
            ("reference text plus a line feed", with_lf),
        ];
        for (what, text) in renderings {
            if text == reference || text.is_empty() {
                continue;
            }
            sink.stat(&format!("other-rendering/{}", what));
            sink.oracle(!verify_accepts(meta, &key.key, &text), &format!("a signature made over another rendering of the content ({}) verifies", what), &replay);
        }
    }
    // the bytes the crate itself hands out for the metadata (`to_bytes`, on the wrapper and on the trait
    // object a builder is fed with) are one canonical JSON text, and signing its signable form is
    // signing the reference encoding
    {
        use in_toto::interchange::{DataInterchange, Json};
        let (m2, m3) = (meta.clone(), meta.clone());
        let a = guarded(move || m2.to_bytes()).ok().and_then(|r| r.ok());
        let b = guarded(move || m3.into_trait().to_bytes()).ok().and_then(|r| r.ok());
        let c = Json::canonicalize(&j).ok();
        sink.oracle(a.is_some() && a == b && a == c, "to_bytes of the metadata (wrapper / trait object) is not the canonical JSON of its serialisation", &replay);
        let ty = meta.clone().into_trait().typ();
        sink.oracle(format!("{}", ty) == j["_type"].as_str().unwrap_or("?"), "the metadata reports another type than its `_type` member", &replay);
    }
    // the harness's reference encoder and the Lean `refCanon` must agree (reference vs reference)
    sink.op(&format!("refcanon {}", p), &format!("ok {}", hex(&reference)), true);
}

/// key id = sha256(reference encoding of the key description)
pub fn keyid_case(sink: &mut Sink, model: &mut Model, key: &KeyInfo) {
    let mut j: Value = serde_json::to_value(key.public()).unwrap();
    if let Value::Object(m) = &mut j {
        m.remove("keyid");
        if let Some(Value::Object(kv)) = m.get_mut("keyval") {
            kv.remove("private");
        }
    }
    let p = proto(&j, &mut None);
    let replay = format!("signed {}", p);
    let id = format!("{:?}", key.public().key_id());
    let id_hex: String = id.chars().filter(|c| c.is_ascii_hexdigit() && !c.is_ascii_uppercase()).collect();
    let sha = |b: &[u8]| hex(ring::digest::digest(&ring::digest::SHA256, b).as_ref());
    let ans = model.ask(&replay);
    let impl_answer = match ans.strip_prefix("ok ").and_then(unhex) {
        Some(t) if id_hex.ends_with(&sha(&t)) => ans.clone(),
        _ => "key-id-is-not-sha256-of-model-text".to_string(),
    };
    sink.op(&replay, &impl_answer, true);
    let reference = olpc(&j).unwrap();
    sink.oracle(id_hex.ends_with(&sha(&reference)), "key id is not the SHA-256 of the reference encoding of the key description", &replay);
    sink.stat("keyid");
}

fn replay(cfg: &Cfg, path: &std::path::Path) {
    let mut sink = Sink::new(&cfg.out);
    let mut model = Model::start();
    let pool = key_pool(0);
    for line in std::fs::read_to_string(path).unwrap().lines() {
        let ok = line.strip_prefix("signed ").and_then(crate::jsongen_parse::parse_proto).and_then(|j| {
            let meta: MetadataWrapper = serde_json::from_value(j).ok()?;
            case(&mut sink, &mut model, &pool[0], &meta, "replay");
            Some(())
        });
        if ok.is_none() {
            sink.oracle(false, "unparsable replay line (not a layout or link document)", line);
        }
    }
    sink.finish(&cfg.out, serde_json::json!({}));
}

pub fn run(cfg: &Cfg) {
    if let Some(p) = &cfg.replay {
        return replay(cfg, p);
    }
    let mut sink = Sink::new(&cfg.out);
    let mut r = Rng::new(cfg.seed);
    let mut model = Model::start();
    let pool = key_pool(1);
    let ed: Vec<&KeyInfo> = pool.iter().filter(|k| k.deterministic()).collect();
    for k in &pool {
        keyid_case(&mut sink, &mut model, k);
    }
    // the key-id preimage for every description of the pool's keys a document may carry - the same
    // material in every spelling, with and without a hash-algorithm list, under every type / scheme name -
    // read one after the other in this thread, twice (what an earlier reading left behind must not show)
    let pool_all = crate::meta::key_pool_all_sizes(1);
    for round in 0..2 {
        for k in &pool_all {
            let mut vs = crate::c16_doc::respelled_keys(k.public());
            if round == 1 {
                vs.reverse();
            }
            for v in vs {
                crate::c16_doc::key_case(&mut sink, &v, "respelled");
            }
        }
    }
    // RSA keys of every length (made up; 49 consecutive modulus sizes, so that the DER length takes every
    // residue modulo the 48 bytes a line of PEM holds): the id is the SHA-256 of the reference encoding of the
    // description with the key material in the reference PEM form - written here, not by the crate: 64
    // characters a line, a line feed after every line, none after the END line
    for nbytes in (256usize..=304).chain([384, 432, 512]) {
        let spki = match crate::c12::made_up_rsa_spki(&mut r, &mut model, nbytes) {
            Some(b) => b,
            None => continue,
        };
        for scheme in [in_toto::crypto::SignatureScheme::RsaSsaPssSha256, in_toto::crypto::SignatureScheme::RsaSsaPssSha512] {
            let scheme_name = serde_json::to_value(&scheme).unwrap();
            let k = match guarded({ let d = spki.clone(); move || in_toto::crypto::PublicKey::from_spki(&d, scheme) }) {
                Ok(Ok(k)) => k,
                _ => continue,
            };
            let b64 = data_encoding::BASE64.encode(&spki);
            let mut pem_text = String::from("-----BEGIN PUBLIC KEY-----\n");
            for line in b64.as_bytes().chunks(64) {
                pem_text.push_str(std::str::from_utf8(line).unwrap());
                pem_text.push('\n');
            }
            pem_text.push_str("-----END PUBLIC KEY-----");
            let written = serde_json::to_value(&k).unwrap();
            let replay = format!("rsa key of {} modulus bytes, SubjectPublicKeyInfo {}", nbytes, hex(&spki));
            sink.oracle(written["keyval"]["public"].as_str() == Some(pem_text.as_str()), "the key material of an RSA key is not written in the reference PEM form", &replay);
            let desc = serde_json::json!({"keytype": "rsa", "scheme": scheme_name, "keyid_hash_algorithms": ["sha256", "sha512"], "keyval": {"public": pem_text}});
            let want = hex(ring::digest::digest(&ring::digest::SHA256, &olpc(&desc).unwrap()).as_ref());
            let id = serde_json::to_value(k.key_id()).unwrap();
            sink.oracle(id.as_str() == Some(want.as_str()), "the id of an RSA key is not the SHA-256 of the reference encoding of its description (reference PEM form)", &replay);
            sink.stat(&format!("rsa-sizes/der-length-mod-48={}", spki.len() % 48));
        }
    }
    let n = if cfg.thorough { 20_000 } else { 1_500 };
    for i in 0..n {
        let mut r = r.at(i as u64);
        let key = *r.pick(&ed);
        let meta = if i % 3 == 0 {
            MetadataWrapper::Layout(gen_layout(&mut r, &pool))
        } else {
            MetadataWrapper::Link(gen_link(&mut r, None))
        };
        case(&mut sink, &mut model, key, &meta, if i % 3 == 0 { "layout" } else { "link" });
    }
    // every Unicode scalar value, and every two-character combination over the critical alphabet,
    // in a link name / stdout / command / path
    let stride = if cfg.thorough { 1 } else { 97 };
    let mut cp = 0u32;
    let mut swept = 0u64;
    while cp <= 0x10FFFF {
        if let Some(c) = char::from_u32(cp) {
            let s: String = [c].iter().collect();
            let meta = link_with(&s);
            case(&mut sink, &mut model, ed[0], &meta, "onechar");
            swept += 1;
        }
        cp += if cp < 0x300 { 1 } else { stride * 53 };
    }
    let alpha = ['\\', '"', 'n', '\n', '\t', 'u', 'x', '\u{e9}', '\u{65e5}', '0'];
    for a in alpha {
        for b in alpha {
            for c in alpha {
                let s: String = [a, b, c].iter().collect();
                case(&mut sink, &mut model, ed[0], &link_with(&s), "combos");
            }
        }
    }
    // a literal backslash followed by `u` and four hex digits (captured output that prints a JSON or Java
    // escape, a path like `D:\ufeed`): six characters of text, not an escape
    for t in ["\\u00e9", "D:\\ufeed", "\\u0041", "x\\u000ay", "\\\\u00e9", "\\u00e9\\u00e9", "\"\\u0022", "\\ud83d\\ude00", "\\uD800", "\\u12", "\\u123g", "\\U00e9", "\\n\\u000a\n"] {
        case(&mut sink, &mut model, ed[0], &link_with(t), "backslash-u-hex");
    }
    sink.note(&format!("one-character sweep: {} scalar values (all below U+0300, then a stride); all 3-character strings over {:?}", swept, alpha));
    sink.finish(&cfg.out, serde_json::json!({}));
}

pub(crate) fn link_with(s: &str) -> MetadataWrapper {
    use in_toto::models::byproducts::ByProducts;
    use in_toto::models::{LinkMetadataBuilder, VirtualTargetPath};
    use std::collections::{BTreeMap, HashMap};
    let mut mats = BTreeMap::new();
    mats.insert(VirtualTargetPath::new(format!("p{}", s)).unwrap(), HashMap::new());
    let mut env = BTreeMap::new();
    env.insert(s.to_string(), s.to_string());
    MetadataWrapper::Link(
        LinkMetadataBuilder::new()
            .name(s.to_string())
            .materials(mats)
            .env(Some(env))
            .byproducts(ByProducts::new().set_stdout(s.to_string()).set_other_field(format!("k{}", s), s.to_string()))
            .command(vec![s.to_string()].into())
            .build()
            .unwrap(),
    )
}
