//! Generator of JSON values (as `serde_json::Value`), their protocol notation, and alternative
//! textual spellings of the same value.
use crate::proto::hex;
use crate::rng::Rng;
use serde_json::{Map, Number, Value};

/// Characters that matter for escaping, ordering and UTF-8 width.
pub const TRICKY: &[char] = &[
    '\n', '\r', '\t', '\u{8}', '\u{c}', '\0', '\u{1}', '\u{1f}', '\u{b}', '\u{7}', '\u{e}', '\u{1b}', '\u{7f}', '\u{80}', '\u{9f}', '"', '\\', '/', 'n', 'u',
    'a', 'b', 'z', 'A', ' ', '0', '9', ',', ':', '{', '}', '[', ']', '\u{e9}', '\u{7ff}', '\u{800}', '\u{d7ff}',
    '\u{e000}', '\u{ffff}', '\u{10000}', '\u{1F600}', '\u{10ffff}', '\u{2028}', '\u{feff}',
];

pub fn gen_string(r: &mut Rng) -> String {
    match r.below(10) {
        0 => String::new(),
        1..=5 => {
            let n = 1 + r.below(6);
            (0..n).map(|_| *r.pick(TRICKY)).collect()
        }
        6 => {
            // two-character combinations around backslash, quote, n, LF
            let a = *r.pick(&['\\', '"', 'n', '\n', '\t', 'u']);
            let b = *r.pick(&['\\', '"', 'n', '\n', '\t', 'u']);
            let mut s = String::new();
            if r.chance(1, 2) {
                s.push('x');
            }
            s.push(a);
            s.push(b);
            s
        }
        7 => {
            let n = 1 + r.below(4);
            (0..n).filter_map(|_| char::from_u32((r.next() % 0x11_0000) as u32)).collect()
        }
        _ => {
            let words = ["name", "expires", "_type", "signed", "keyid", "foo/bar.txt", "sha256", "CREATE", "a", "aa", "b"];
            r.pick(&words).to_string()
        }
    }
}

pub fn gen_int(r: &mut Rng) -> Number {
    match r.below(8) {
        0 => Number::from(0u64),
        1 => Number::from(r.below(100) as u64),
        2 => Number::from(-(r.below(100) as i64)),
        3 => Number::from(*r.pick(&[i64::MIN, i64::MIN + 1, -1, i64::MAX, i64::MAX - 1])),
        4 => Number::from(*r.pick(&[u64::MAX, u64::MAX - 1, i64::MAX as u64 + 1, 1u64 << 32, (1u64 << 53) + 1])),
        5 => Number::from(r.next()),
        6 => Number::from(r.next() as i64),
        _ => Number::from(*r.pick(&[10u64, 99, 100, 101, 999, 1000, 1_000_000_000_000])),
    }
}

pub fn gen_float(r: &mut Rng) -> Number {
    let f = *r.pick(&[0.5f64, -0.0, 1e30, -2.25, 1.0e-7, 1.0, 3.0e15, f64::MAX]);
    Number::from_f64(f).unwrap()
}

/// `floats`: probability (per mille) that a number leaf is a non-integer.
pub fn gen_value(r: &mut Rng, depth: usize, floats: u64) -> Value {
    let leaf = depth == 0 || r.chance(2, 5);
    if leaf {
        match r.below(7) {
            0 => Value::Null,
            1 => Value::Bool(r.chance(1, 2)),
            2 | 3 => {
                if r.chance(floats, 1000) {
                    Value::Number(gen_float(r))
                } else {
                    Value::Number(gen_int(r))
                }
            }
            _ => Value::String(gen_string(r)),
        }
    } else if r.chance(1, 2) {
        let n = r.below(5);
        Value::Array((0..n).map(|_| gen_value(r, depth - 1, floats)).collect())
    } else {
        let n = r.below(5);
        let mut m = Map::new();
        for _ in 0..n {
            m.insert(gen_string(r), gen_value(r, depth - 1, floats));
        }
        Value::Object(m)
    }
}

/// Protocol notation of a value; `shuffle` permutes object members (the model must not care).
pub fn proto(v: &Value, shuffle: &mut Option<&mut Rng>) -> String {
    match v {
        Value::Null => "N".into(),
        Value::Bool(true) => "T".into(),
        Value::Bool(false) => "F".into(),
        Value::Number(n) => {
            if let Some(i) = n.as_i64() {
                format!("I{}", i)
            } else if let Some(u) = n.as_u64() {
                format!("I{}", u)
            } else {
                "X".into()
            }
        }
        Value::String(s) => format!("S{}", hex_or_empty(s)),
        Value::Array(xs) => {
            let mut out = format!("A{}", xs.len());
            for x in xs {
                out.push(' ');
                out.push_str(&proto(x, shuffle));
            }
            out
        }
        Value::Object(m) => {
            let mut items: Vec<(&String, &Value)> = m.iter().collect();
            if let Some(r) = shuffle {
                for i in (1..items.len()).rev() {
                    let j = r.below(i + 1);
                    items.swap(i, j);
                }
            }
            let mut out = format!("O{}", items.len());
            for (k, x) in items {
                out.push_str(&format!(" S{} ", hex_or_empty(k)));
                out.push_str(&proto(x, shuffle));
            }
            out
        }
    }
}

fn hex_or_empty(s: &str) -> String {
    hex(s.as_bytes())
}

/// A different textual spelling of the same value: shuffled members, random whitespace, `\uXXXX`
/// escapes (surrogate pairs for non-BMP), `\/`.
pub fn spell(v: &Value, r: &mut Rng) -> String {
    let ws = |r: &mut Rng| -> &'static str { *r.pick(&["", "", " ", "\n", "\t ", "\r\n"]) };
    match v {
        Value::Null => "null".into(),
        Value::Bool(b) => b.to_string(),
        Value::Number(n) => n.to_string(),
        Value::String(s) => spell_str(s, r),
        Value::Array(xs) => {
            let mut out = String::from("[");
            out.push_str(ws(r));
            for (i, x) in xs.iter().enumerate() {
                if i > 0 {
                    out.push(',');
                    out.push_str(ws(r));
                }
                out.push_str(&spell(x, r));
                out.push_str(ws(r));
            }
            out.push(']');
            out
        }
        Value::Object(m) => {
            let mut items: Vec<(&String, &Value)> = m.iter().collect();
            for i in (1..items.len()).rev() {
                let j = r.below(i + 1);
                items.swap(i, j);
            }
            let mut out = String::from("{");
            out.push_str(ws(r));
            for (i, (k, x)) in items.iter().enumerate() {
                if i > 0 {
                    out.push(',');
                    out.push_str(ws(r));
                }
                out.push_str(&spell_str(k, r));
                out.push_str(ws(r));
                out.push(':');
                out.push_str(ws(r));
                out.push_str(&spell(x, r));
                out.push_str(ws(r));
            }
            out.push('}');
            out
        }
    }
}

pub fn spell_str(s: &str, r: &mut Rng) -> String {
    let mut out = String::from("\"");
    for c in s.chars() {
        let must = c == '"' || c == '\\' || (c as u32) < 0x20;
        if must || r.chance(1, 3) {
            if c == '/' && r.chance(1, 2) {
                out.push_str("\\/");
                continue;
            }
            // the two-character escapes, where they exist
            let short = match c {
                '"' => Some("\\\""),
                '\\' => Some("\\\\"),
                '\u{8}' => Some("\\b"),
                '\u{c}' => Some("\\f"),
                '\n' => Some("\\n"),
                '\r' => Some("\\r"),
                '\t' => Some("\\t"),
                _ => None,
            };
            if let Some(sh) = short {
                if r.chance(1, 2) {
                    out.push_str(sh);
                    continue;
                }
            }
            let mut buf = [0u16; 2];
            for u in c.encode_utf16(&mut buf) {
                if r.chance(1, 2) {
                    out.push_str(&format!("\\u{:04x}", u));
                } else {
                    out.push_str(&format!("\\u{:04X}", u));
                }
            }
        } else {
            out.push(c);
        }
    }
    out.push('"');
    out
}
