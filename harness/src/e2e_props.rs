//! The end-to-end properties (C01, C02, C06, C07, C08, C13, C15): valid scenarios plus injected
//! faults with constructed ground truth ("this fault necessarily makes verification fail").
use crate::e2e::*;
use crate::meta::{key_pool_twins, KeyInfo};
use crate::proto::Sink;
use crate::rng::Rng;
use crate::Cfg;
use chrono::{Duration, TimeZone, Utc};
use in_toto::models::rule::ArtifactRule;

type Fault = (&'static str, String, bool);

fn layout_mut(b: &mut SBlock) -> Option<&mut SLayout> {
    match &mut b.meta {
        SMeta::Layout(l) => Some(l),
        _ => None,
    }
}

fn evidence_files<'a>(d: &'a SDir, step: &str) -> Vec<usize> {
    d.files
        .iter()
        .enumerate()
        .filter(|(_, f)| f.0.starts_with(&format!("{}.", step)) && f.0.ends_with(".link") && f.0.len() == step.len() + 14)
        .map(|(i, _)| i)
        .collect()
}

/// keep exactly max(1, threshold) evidence files for the step, so that breaking one is fatal
fn trim_spares(l: &SLayout, d: &mut SDir, si: usize) {
    let need = (l.steps[si].threshold as usize).max(1);
    let idx = evidence_files(d, &l.steps[si].name);
    for &i in idx.iter().skip(need).rev() {
        let (name, _) = d.files.remove(i);
        let sub = name.trim_end_matches(".link").to_string();
        d.subs.retain(|s| s.0 != sub);
    }
}

fn other_key(pool: &[KeyInfo], r: &mut Rng, avoid: &[usize]) -> usize {
    loop {
        let k = r.below(pool.len());
        if !avoid.iter().any(|&a| kid(pool, a) == kid(pool, k)) {
            return k;
        }
    }
}

/// Inject one fault of the family relevant to `prop` into a valid scenario.
pub(crate) fn inject(prop: &str, s: &mut Scenario, r: &mut Rng, pool: &[KeyInfo]) -> Option<Fault> {
    let kinds: &[&str] = match prop {
        "C01" => &["caller_empty", "caller_unusable_key", "caller_unusable_key", "caller_superset", "caller_disjoint", "caller_alias", "caller_alias_described", "caller_alias_described", "owner_sig_missing", "owner_sig_corrupt", "owner_sig_mislabel", "owner_sig_duplicated", "owner_sig_duplicated_apart", "owner_sigs_under_foreign_ids", "owner_sigs_under_foreign_ids", "layout_tampered", "layout_command_resplit", "not_a_layout", "extra_sig", "layout_keys_refiled", "layout_keys_refiled", "none"],
        "C06" => &["expired_1s", "expired_long", "expired_centuries", "expires_now", "expires_plus1", "expires_far_future", "offset_notation", "offset_expired", "verified_again_after_expiry", "verified_again_after_expiry", "sub_expired", "sub_expired_surplus", "sub_expired_surplus", "none"],
        "C02" => &["step_without_functionaries", "step_without_functionaries", "link_removed", "link_wrong_signer", "link_mislabel", "link_tampered", "link_corrupt", "link_unauthorized", "key_not_in_table", "verifier_key_as_functionary", "verifier_key_as_functionary", "link_garbage", "link_misfiled", "link_cosigned_forgery", "cosigned_next_to_differing", "threshold_zero_nolinks", "threshold_zero_norules", "threshold_zero_norules", "threshold_zero_onelink", "threshold_raised", "threshold_raised", "link_wrong_type", "ghost_authorized_prefix", "ghost_authorized_prefix", "twin_unauthorized", "twin_unauthorized", "duplicate_step_unmet", "duplicate_step_unmet", "sub_tampered", "sub_missing_link", "sub_expired", "sub_unlisted_functionary", "sub_unlisted_functionary", "none"],
        "C07" => &["disagree_product_digest", "disagree_material_path", "disagree_extra_entry", "disagree_t1", "agree_extra_differs", "cosigned_next_to_differing", "disagree_path_spelling", "disagree_alias_entry", "disagree_algorithm_set", "disagree_algorithm_set", "disagree_empty_entry", "disagree_moved_across", "disagree_moved_across", "disagree_missing_entry", "disagree_missing_entry", "none"],
        "C13" => &["link_extra_sig_same_prefix", "link_extra_sig_same_prefix", "differing_links_t1", "differing_links_t1_rules", "none", "nested_namesake", "nested_namesake", "nested_namesake", "link_removed", "disagree_product_digest", "disagree_extra_entry", "cosigned_next_to_differing", "cosigned_next_to_differing", "digest_partial_agreement", "digest_partial_agreement", "sub_missing_link", "sub_rule", "sub_expired"],
        "C08" => &["insp_exit", "insp_exit_shadowed", "insp_exit_shadowed", "insp_notfound", "insp_rule", "insp_rule_named_like_step", "pre_expired", "pre_badsig", "pre_link_removed", "pre_rule", "pre_disagree", "pre_cosigned_forgery", "pre_cosigned_forgery", "pre_co_sub_disagree", "pre_co_sub_disagree", "sub_expired", "sub_expired_surplus", "sub_expired_surplus", "sub_insp_exit_surplus", "sub_insp_exit_surplus", "sub_rule_surplus", "sub_tampered", "none"],
        "C15" => &["no_steps", "no_steps_inner", "sub_wrong_signer", "sub_expired", "sub_missing_link", "sub_links_in_parent", "sub_inner_step_names_parent", "sub_inner_step_names_parent", "sub_unlisted_functionary", "sub_links_nested_below", "sub_links_nested_below", "sub_rule", "sub_unauthorized_inner", "sub_delegator_key_as_functionary", "sub_delegator_key_as_functionary", "sub_tampered", "sub_insp_exit", "sub_insp_rule", "sub_dir_misnamed", "sub_dir_misnamed", "sub_misfiled", "sub_misfiled", "sub_rule_surplus", "sub_missing_link_surplus", "sub_expired_surplus", "sub_insp_exit_surplus", "none"],
        // (C12: every way a signature can be attributed to, checked against or counted for another key than
        // the one whose identifier it carries - at the root, in a step, in a sub-layout)
        "C12" => &["link_cosigned_forgery", "link_cosigned_forgery", "link_mislabel", "link_misfiled", "link_wrong_signer", "owner_sig_mislabel", "owner_sigs_under_foreign_ids", "caller_alias", "caller_alias_described", "ghost_authorized_prefix", "twin_unauthorized", "sub_wrong_signer", "sub_misfiled", "key_not_in_table", "verifier_key_as_functionary", "layout_keys_refiled"],
        _ => &["none"],
    };
    let kind = *r.pick(kinds);
    if prop == "C07" && r.chance(1, 2) {
        if let Some(f) = inject_kind(prop, "co_sub_disagree", s, r, pool) {
            return Some(f);
        }
    }
    if prop == "C08" && r.chance(1, 3) {
        if let Some(f) = inject_kind(prop, "pre_co_sub_disagree", s, r, pool) {
            return Some(f);
        }
    }
    // (C02: where a multi-party step has delegated evidence, half of the time one of the sub-layouts is broken)
    if prop == "C02" && r.chance(1, 2) {
        let multi = matches!(&s.block.meta, SMeta::Layout(l) if l.steps.iter().any(|st| st.threshold >= 2
            && evidence_files(&s.dir, &st.name).iter().any(|&f| matches!(&s.dir.files[f].1, SFile::Block(b) if matches!(b.meta, SMeta::Layout(_))))));
        if multi {
            let k = *r.pick(&["sub_tampered", "sub_missing_link", "sub_expired"]);
            if let Some(f) = inject_kind(prop, k, s, r, pool) {
                return Some(f);
            }
        }
    }
    inject_kind(prop, kind, s, r, pool)
}

/// one fault of the catalogue, by name
pub(crate) fn inject_kind(prop: &str, kind: &str, s: &mut Scenario, r: &mut Rng, pool: &[KeyInfo]) -> Option<Fault> {
    let now = s.now;
    let owners = s.caller_keys.clone();
    match kind {
        "none" => None,
        // ---------------------------------------------------------------- C01
        "caller_empty" => {
            s.caller_keys.clear();
            Some(("C01", "the caller supplied no trusted key".into(), true))
        }
        "caller_superset" => {
            let k = other_key(pool, r, &owners);
            s.caller_keys.push(k);
            Some(("C01", "a supplied trusted key has no signature on the layout".into(), true))
        }
        "caller_disjoint" => {
            let k = other_key(pool, r, &owners);
            s.caller_keys = vec![k];
            Some(("C01", "the supplied key did not sign the layout".into(), true))
        }
        "caller_alias" => {
            s.caller_keys = vec![owners[0], owners[0]];
            s.alias_ids = true;
            Some(("C01", "the same key is supplied under two ids".into(), true))
        }
        "caller_alias_described" => {
            // one owner key, supplied twice: once as it is and once read from a description of it that
            // carries another `keyid` member, filed under that id; the layout lists the owner's one
            // signature a second time under that id. One key signed once.
            s.caller_keys = vec![owners[0], owners[0]];
            s.alias_described = true;
            s.block.sigs.truncate(1);
            s.block.dup_first_sig_as = Some(format!("{:064x}", 0xa11a5u64 + 1));
            Some(("C01", "one key is supplied twice, the second time read from a description with another keyid, and its signature is listed under both ids".into(), true))
        }
        "caller_unusable_key" => {
            // next to the genuine owner key(s) the caller supplies a key that cannot verify anything (its scheme
            // is unknown to the library); the layout lists an entry under that key's id - which is no signature
            // of that key, so not every supplied key has signed
            let p = crate::e2e::unusable_key(pool)?;
            s.caller_unusable = true;
            s.block.dup_first_sig_as = Some(serde_json::to_value(p.key_id()).ok()?.as_str()?.to_string());
            Some(("C01", "a supplied trusted key (one that cannot verify anything) has no valid signature on the layout, only an entry under its id".into(), true))
        }
        "owner_sig_missing" => {
            s.block.sigs.remove(0);
            Some(("C01", "an owner signature is missing".into(), true))
        }
        "owner_sig_corrupt" => {
            s.block.sigs[0].corrupt = true;
            Some(("C01", "an owner signature is corrupted".into(), true))
        }
        "owner_sig_mislabel" => {
            let k = other_key(pool, r, &owners);
            s.block.sigs[0].signer = k;
            Some(("C01", "an owner signature was made by another key".into(), true))
        }
        "owner_sigs_under_foreign_ids" => {
            // two trusted keys are supplied, only one of them signed - and its signature is not listed under
            // its own id but (twice, as two entries) under the ids of two keys the caller did not supply.
            // Not every supplied key has a valid signature: one has none, the other none that is its own.
            let a = owners[0];
            let b = match owners.get(1) {
                Some(&b) => b,
                None => {
                    let b = other_key(pool, r, &owners);
                    s.caller_keys.push(b);
                    b
                }
            };
            let x = other_key(pool, r, &[a, b]);
            let y = other_key(pool, r, &[a, b, x]);
            if kid(pool, x) == kid(pool, y) {
                return None;
            }
            s.block.sigs = vec![SSig { label: x, signer: a, corrupt: false }, SSig { label: y, signer: a, corrupt: false }];
            Some(("C01", "of two supplied keys one did not sign at all, and the other's signature is listed only under the ids of keys that were not supplied (twice)".into(), true))
        }
        "owner_sig_duplicated" | "owner_sig_duplicated_apart" => {
            // one owner did not sign; another owner's (valid) signature appears twice instead,
            // adjacent or with an unrelated entry in between
            if owners.len() < 2 {
                let k = other_key(pool, r, &owners);
                s.caller_keys.push(k);
            }
            let a = s.block.sigs[0].clone();
            s.block.sigs.truncate(1);
            if kind == "owner_sig_duplicated_apart" {
                let junk = other_key(pool, r, &s.caller_keys.clone());
                s.block.sigs.push(SSig { label: junk, signer: junk, corrupt: true });
            }
            s.block.sigs.push(a);
            Some(("C01", "one owner's signature is repeated in place of a missing owner signature".into(), true))
        }
        "layout_command_resplit" => {
            // after signing, the argument boundaries of an inspection's command are moved (same words)
            let orig = s.block.meta.clone();
            let l = layout_mut(&mut s.block)?;
            if l.inspect.iter().all(|i| i.script.is_none()) {
                return None;
            }
            l.resplit_commands = true;
            s.block.signed_over = Some(Box::new(orig));
            Some(("C01", "the layout was changed after it was signed (command argument boundaries)".into(), true))
        }
        "layout_tampered" => {
            let orig = s.block.meta.clone();
            let l = layout_mut(&mut s.block)?;
            match r.below(7) {
                5 | 6 => {
                    // the signed layout forbids `secret/*` (`lib/*.so` ...) in the first step's products; the layout
                    // as enforced spells that pattern with a backslash - another pattern, which matches nothing here
                    let (a, b) = *r.pick(&[("secret/*", "secret\\*"), ("lib/*.so", "lib\\*.so"), ("a/b/c", "a\\b/c")]);
                    let mut signed = l.clone();
                    signed.steps[0].prods.insert(0, ArtifactRule::Disallow(vp(a)));
                    l.steps[0].prods.insert(0, ArtifactRule::Disallow(vp(b)));
                    s.block.signed_over = Some(Box::new(SMeta::Layout(signed)));
                    return Some(("C01", "the layout was changed after it was signed (a rule pattern: `/` became a backslash)".into(), true));
                }
                0 => l.readme.push('x'),
                1 => l.expires = l.expires + Duration::seconds(1),
                2 => l.steps[0].threshold = l.steps[0].threshold.saturating_sub(1),
                3 => l.steps[0].mats.clear(),
                _ => {
                    let k = other_key(pool, r, &l.keys.clone());
                    l.keys.push(k);
                    l.steps[0].pubkeys.push(k);
                }
            }
            s.block.signed_over = Some(Box::new(orig));
            Some(("C01", "the layout was changed after it was signed".into(), true))
        }
        "layout_keys_refiled" => {
            // the signed layout, parsed, then changed in memory: its key table files a listed key once
            // more under another id, or two listed keys under each other's ids. The id a key is filed
            // under is part of the layout (it is what steps and signatures refer to).
            let l = layout_mut(&mut s.block)?.clone();
            if l.keys.is_empty() {
                return None;
            }
            let kind = if l.keys.len() >= 2 && r.chance(1, 2) { "swap" } else { "extra" };
            s.mem_refile = Some(kind);
            let orig = s.block.meta.clone();
            s.block.signed_over = Some(Box::new(orig));
            Some(("C01", format!("the key table of the layout was re-filed after signing ({})", kind), true))
        }
        "not_a_layout" => {
            s.block.meta = SMeta::Link(SLink { name: "x".into(), mats: vec![], prods: vec![], stdout: String::new(), command: vec![], env: None });
            Some(("C01", "the signed block is a link, not a layout".into(), true))
        }
        "extra_sig" => {
            let k = other_key(pool, r, &owners);
            s.block.sigs.push(SSig { label: k, signer: k, corrupt: false });
            None
        }
        // ---------------------------------------------------------------- C06
        "verified_again_after_expiry" => {
            // nothing is changed in any document: the very same layout (and sub-layouts), keys and link directory
            // are verified a second time - at the same place, in the same process - when the layout has expired
            // (the first verification, of the scenario as generated, takes place while it is valid)
            let l = layout_mut(&mut s.block)?;
            s.now = l.expires + Duration::seconds(*r.pick(&[1i64, 1, 60, 86_400, 400 * 86_400]));
            Some(("C06", "the layout expired (verified again after its expiry: the same documents were verified before it, in the same process)".into(), true))
        }
        "expired_1s" | "expired_long" | "expired_centuries" | "expires_now" | "expires_plus1" | "expires_far_future" | "offset_notation" | "offset_expired" => {
            let l = layout_mut(&mut s.block)?;
            let (e, fatal) = match kind {
                "expired_1s" => (now - Duration::seconds(1), true),
                "expired_long" => (now - Duration::days(400 * (1 + r.below(20) as i64)), true),
                // beyond what a 64-bit count of nanoseconds, milliseconds of a 32-bit day count ... can span
                "expired_centuries" => (
                    *r.pick(&[
                        Utc.with_ymd_and_hms(1, 1, 1, 0, 0, 0).unwrap(),
                        Utc.with_ymd_and_hms(0, 1, 1, 0, 0, 0).unwrap(),
                        Utc.with_ymd_and_hms(1066, 10, 14, 8, 0, 0).unwrap(),
                        Utc.with_ymd_and_hms(1677, 9, 21, 0, 12, 43).unwrap(),
                        Utc.with_ymd_and_hms(1700, 2, 28, 23, 59, 59).unwrap(),
                        Utc.with_ymd_and_hms(1900, 1, 1, 0, 0, 0).unwrap(),
                        Utc.with_ymd_and_hms(1969, 12, 31, 23, 59, 59).unwrap(),
                    ]),
                    true,
                ),
                "expires_far_future" => (
                    *r.pick(&[
                        Utc.with_ymd_and_hms(9999, 12, 31, 23, 59, 59).unwrap(),
                        Utc.with_ymd_and_hms(2262, 4, 12, 0, 0, 0).unwrap(),
                        Utc.with_ymd_and_hms(2400, 2, 29, 12, 0, 0).unwrap(),
                        Utc.with_ymd_and_hms(5000, 1, 1, 0, 0, 0).unwrap(),
                    ]),
                    false,
                ),
                "expires_now" => (now, false),
                "expires_plus1" => (now + Duration::seconds(1), false),
                "offset_notation" => (now + Duration::minutes(10), false),
                _ => (now - Duration::minutes(10), true),
            };
            l.expires = e;
            // (the shape of the layout is another matter than its date: now and then an expired layout has
            // nothing else that could be checked - no steps, hence no evidence to look for)
            if fatal && r.chance(1, 5) {
                l.steps.clear();
                s.dir = SDir::default();
            }
            let l = layout_mut(&mut s.block)?;
            if kind.starts_with("offset") {
                // an offset larger than the margin: a reader that ignored the offset would decide differently
                l.offset_min = Some(*r.pick(&[-720, -210, -90, -30, 60, 330, 345, 570, 765, 840]));
            }
            if fatal {
                Some(("C06", format!("the layout expired ({})", kind), true))
            } else {
                None
            }
        }
        // ---------------------------------------------------------------- C02
        "link_removed" | "link_wrong_signer" | "link_mislabel" | "link_tampered" | "link_corrupt" | "link_unauthorized" | "key_not_in_table" | "verifier_key_as_functionary" | "link_garbage" | "link_misfiled" | "link_wrong_type" | "pre_link_removed" | "ghost_authorized_prefix" | "twin_unauthorized" => {
            let l = layout_mut(&mut s.block)?.clone();
            let si = r.below(l.steps.len());
            trim_spares(&l, &mut s.dir, si);
            let idx = evidence_files(&s.dir, &l.steps[si].name);
            let fi = *idx.first()?;
            let fname = s.dir.files[fi].0.clone();
            let short = fname[l.steps[si].name.len() + 1..fname.len() - 5].to_string();
            let owner = *l.steps[si].pubkeys.iter().find(|&&k| prefix8(pool, k) == short)?;
            let is_link = matches!(&s.dir.files[fi].1, SFile::Block(b) if matches!(b.meta, SMeta::Link(_)));
            let desc;
            match kind {
                "link_removed" | "pre_link_removed" => {
                    s.dir.files.remove(fi);
                    desc = "a required link is missing";
                }
                "link_garbage" => {
                    s.dir.files[fi].1 = SFile::Garbage;
                    desc = "a link file cannot be parsed";
                }
                "link_misfiled" => {
                    // an honest, validly signed, authorized link - but under a file name whose key id
                    // prefix is not its signer's (another functionary's, an unknown key's, or junk)
                    if !is_link {
                        return None;
                    }
                    let other = match r.below(3) {
                        0 => l.steps[si].pubkeys.iter().cloned().find(|&k| k != owner).map(|k| prefix8(pool, k)),
                        1 => Some(prefix8(pool, other_key(pool, r, &l.keys))),
                        _ => Some("0a1b2c3d".to_string()),
                    }?;
                    if other == short {
                        return None;
                    }
                    let nn = format!("{}.{}.link", l.steps[si].name, other);
                    if s.dir.files.iter().any(|f| f.0 == nn) {
                        return None;
                    }
                    s.dir.files[fi].0 = nn;
                    desc = "the only evidence is filed under a key id prefix that its signature does not carry";
                }
                "link_unauthorized" => {
                    // signed (validly) by a key of the layout that is authorized for another step only
                    let x = l.keys.iter().cloned().find(|k| !l.steps[si].pubkeys.contains(k))?;
                    if let SFile::Block(b) = &mut s.dir.files[fi].1 {
                        if !is_link {
                            return None;
                        }
                        b.sigs = vec![SSig { label: x, signer: x, corrupt: false }];
                    }
                    s.dir.files[fi].0 = format!("{}.{}.link", l.steps[si].name, prefix8(pool, x));
                    desc = "the only evidence is signed by a key that is not authorized for this step";
                }
                "key_not_in_table" => {
                    let lm = layout_mut(&mut s.block)?;
                    lm.keys.retain(|&k| k != owner);
                    desc = "the signer is listed for the step but not defined in the layout's key table";
                }
                "verifier_key_as_functionary" => {
                    // the step lists the id of a key that the verifier knows from elsewhere - the key the
                    // layout itself is verified with - but that the layout's key table does not define; the
                    // only evidence is validly signed by that key
                    if !is_link {
                        return None;
                    }
                    let x = *owners.first()?;
                    if l.keys.contains(&x) || l.steps[si].pubkeys.iter().any(|&k| prefix8(pool, k) == prefix8(pool, x)) {
                        return None;
                    }
                    let fname_x = format!("{}.{}.link", l.steps[si].name, prefix8(pool, x));
                    if s.dir.files.iter().any(|f| f.0 == fname_x) {
                        return None;
                    }
                    if let SFile::Block(b) = &mut s.dir.files[fi].1 {
                        b.sigs = vec![SSig { label: x, signer: x, corrupt: false }];
                    }
                    s.dir.files[fi].0 = fname_x;
                    let lm = layout_mut(&mut s.block)?;
                    lm.steps[si].pubkeys.push(x);
                    desc = "the only evidence is signed by a key the step lists but the layout's key table does not define (the key the layout is verified with)";
                }
                "ghost_authorized_prefix" | "twin_unauthorized" => {
                    // the only evidence is validly signed by a key X that the layout defines but does not
                    // authorize for this step, while the step authorizes a key id that merely *starts* like
                    // X's (link files are named after the first eight digits only): either an id no key
                    // has ("ghost"), or the id of X's twin, which delivers nothing
                    if !is_link {
                        return None;
                    }
                    let x = if kind == "twin_unauthorized" {
                        (0..pool.len()).find(|&k| prefix8(pool, k) == prefix8(pool, owner) && kid(pool, k) != kid(pool, owner))?
                    } else {
                        match l.keys.iter().cloned().find(|k| !l.steps[si].pubkeys.contains(k)) {
                            Some(k) => k,
                            None => other_key(pool, r, &l.steps[si].pubkeys),
                        }
                    };
                    if l.steps[si].pubkeys.iter().any(|&k| kid(pool, k) == kid(pool, x)) {
                        return None;
                    }
                    let fname_x = format!("{}.{}.link", l.steps[si].name, prefix8(pool, x));
                    if kind != "twin_unauthorized" && s.dir.files.iter().any(|f| f.0 == fname_x) {
                        return None;
                    }
                    if let SFile::Block(b) = &mut s.dir.files[fi].1 {
                        b.sigs = vec![SSig { label: x, signer: x, corrupt: false }];
                    }
                    s.dir.files[fi].0 = fname_x;
                    let lm = layout_mut(&mut s.block)?;
                    if !lm.keys.contains(&x) {
                        lm.keys.push(x);
                    }
                    if kind == "ghost_authorized_prefix" {
                        let full = kid(pool, x);
                        let tail: String = full[8..].chars().map(|c| if c == 'f' { '0' } else { 'f' }).collect();
                        lm.steps[si].ghost_keys.push(format!("{}{}", &full[..8], tail));
                        desc = "the only evidence is signed by a key not authorized for this step; the step authorizes an id with the same first eight digits that no key has";
                    } else {
                        desc = "the only evidence is signed by a key not authorized for this step whose id starts like an authorized key's";
                    }
                }
                _ => {
                    if !is_link {
                        return None;
                    }
                    if let SFile::Block(b) = &mut s.dir.files[fi].1 {
                        match kind {
                            "link_wrong_signer" => {
                                let x = other_key(pool, r, &[owner]);
                                b.sigs = vec![SSig { label: x, signer: x, corrupt: false }];
                                desc = "the link is filed under a key id prefix none of its signatures carries";
                            }
                            "link_mislabel" => {
                                let x = other_key(pool, r, &[owner]);
                                b.sigs[0].signer = x;
                                desc = "the link's signature was made by another key than it is attributed to";
                            }
                            "link_tampered" => {
                                let orig = b.meta.clone();
                                if let SMeta::Link(lk) = &mut b.meta {
                                    // an artifact more - or only another spelling of a path that is there, another
                                    // digest, an entry less, another name
                                    let arts_len = lk.prods.len() + lk.mats.len();
                                    match if arts_len == 0 { 0 } else { r.below(6) } {
                                        1 | 2 => {
                                            let arts = if lk.prods.is_empty() || (!lk.mats.is_empty() && r.chance(1, 2)) { &mut lk.mats } else { &mut lk.prods };
                                            let i = r.below(arts.len());
                                            arts[i].0 = match r.below(4) {
                                                0 => format!("./{}", arts[i].0),
                                                1 => format!("x/../{}", arts[i].0),
                                                2 => format!("{}/.", arts[i].0),
                                                _ => format!(".//{}", arts[i].0),
                                            };
                                        }
                                        3 => {
                                            let arts = if lk.prods.is_empty() { &mut lk.mats } else { &mut lk.prods };
                                            let i = r.below(arts.len());
                                            arts[i].1 = if arts[i].1 == 21 { 22 } else { 21 };
                                        }
                                        4 => {
                                            let arts = if lk.prods.is_empty() { &mut lk.mats } else { &mut lk.prods };
                                            let i = r.below(arts.len());
                                            arts.remove(i);
                                        }
                                        5 => lk.stdout.push_str(" (edited)"),
                                        _ => lk.prods.push(("evil".into(), 7)),
                                    }
                                }
                                b.signed_over = Some(Box::new(orig));
                                desc = "the link was altered after signing";
                            }
                            "link_corrupt" => {
                                b.sigs[0].corrupt = true;
                                desc = "the link's signature is corrupted";
                            }
                            _ => {
                                // "wrong type": a layout (validly signed by the functionary) that cannot verify
                                b.meta = SMeta::Layout(SLayout { expires: now - Duration::days(1), keys: vec![], steps: vec![], inspect: vec![], readme: String::new(), offset_min: None, resplit_commands: false });
                                desc = "the evidence is an (expired) layout instead of a link";
                            }
                        }
                    } else {
                        return None;
                    }
                }
            }
            Some((if kind.starts_with("pre_") { "C08" } else { "C02" }, format!("{} (step {})", desc, l.steps[si].name), true))
        }
        "link_extra_sig_same_prefix" => {
            // a link that carries, after its functionary's valid signature, a second entry under an id no key
            // has - one that starts with the same eight digits as the functionary's. The file is evidence of
            // the first signature that fits its name: the functionary's. Harmless, on every run.
            let l = layout_mut(&mut s.block)?.clone();
            let si = r.below(l.steps.len());
            trim_spares(&l, &mut s.dir, si);
            let idx = evidence_files(&s.dir, &l.steps[si].name);
            let fi = *idx.first()?;
            let fname = s.dir.files[fi].0.clone();
            let short = fname[l.steps[si].name.len() + 1..fname.len() - 5].to_string();
            if let SFile::Block(b) = &mut s.dir.files[fi].1 {
                if b.sigs.len() == 1 && short.len() == 8 && short.bytes().all(|c| c.is_ascii_hexdigit()) {
                    b.dup_first_sig_as = Some(format!("{}{}", short, "5c".repeat(28)));
                }
            }
            None
        }
        "step_without_functionaries" => {
            // a step that authorizes nobody (an empty `pubkeys` list): the links lying there for it, validly
            // signed by keys the layout defines, are evidence of functionaries trusted for other steps at most
            let l = layout_mut(&mut s.block)?;
            let si = r.below(l.steps.len());
            if l.steps[si].threshold == 0 {
                return None;
            }
            l.steps[si].pubkeys.clear();
            l.steps[si].ghost_keys.clear();
            let name = l.steps[si].name.clone();
            Some(("C02", format!("a step authorizes no key at all; its links are signed by keys of the layout's table (step {})", name), true))
        }
        "link_cosigned_forgery" | "pre_cosigned_forgery" => {
            // threshold 2, functionaries A and B: A's file carries a bogus entry under A's id plus a
            // valid signature by B; B's own link is honest. Only one distinct key signed validly.
            let l = layout_mut(&mut s.block)?.clone();
            let si = (0..l.steps.len()).find(|&i| l.steps[i].threshold >= 2 && l.steps[i].pubkeys.len() >= 2)?;
            let need = l.steps[si].threshold as usize;
            // keep exactly `need` evidence files
            trim_spares(&l, &mut s.dir, si);
            let idx = evidence_files(&s.dir, &l.steps[si].name);
            if idx.len() < 2 || idx.len() != need {
                return None;
            }
            let fa = idx[0];
            let fname = s.dir.files[fa].0.clone();
            let short = fname[l.steps[si].name.len() + 1..fname.len() - 5].to_string();
            let a = *l.steps[si].pubkeys.iter().find(|&&k| prefix8(pool, k) == short)?;
            let b = *l.steps[si].pubkeys.iter().find(|&&k| k != a && idx.iter().any(|&f| s.dir.files[f].0.contains(&prefix8(pool, k))))?;
            if let SFile::Block(blk) = &mut s.dir.files[fa].1 {
                if !matches!(blk.meta, SMeta::Link(_)) {
                    return None;
                }
                blk.sigs = vec![SSig { label: a, signer: b, corrupt: false }, SSig { label: b, signer: b, corrupt: false }];
            }
            Some((if kind == "pre_cosigned_forgery" { "C08" } else { "C02" }, format!("a link filed under one functionary carries only another functionary's valid signature (step {})", l.steps[si].name), true))
        }
        "cosigned_next_to_differing" => {
            // functionaries A and B of one step each filed a link; A's file is co-signed (validly) by B,
            // and B's own link reports other artifacts. A's file is evidence of A only: with threshold 1
            // the outcome is the same on every run, with threshold >= 2 the two links disagree.
            let l = layout_mut(&mut s.block)?.clone();
            let si = (0..l.steps.len()).find(|&i| evidence_files(&s.dir, &l.steps[i].name).len() >= 2)?;
            let name = l.steps[si].name.clone();
            let idx = evidence_files(&s.dir, &name);
            let signer_of = |f: usize| -> Option<usize> {
                let fname = &s.dir.files[f].0;
                let short = fname[name.len() + 1..fname.len() - 5].to_string();
                l.steps[si].pubkeys.iter().copied().find(|&k| prefix8(pool, k) == short)
            };
            let (fa, fb) = if r.chance(1, 2) { (idx[0], idx[1]) } else { (idx[1], idx[0]) };
            let (a, b) = (signer_of(fa)?, signer_of(fb)?);
            if let SFile::Block(blk) = &mut s.dir.files[fa].1 {
                if !matches!(blk.meta, SMeta::Link(_)) {
                    return None;
                }
                blk.sigs = if r.chance(1, 2) {
                    vec![SSig { label: a, signer: a, corrupt: false }, SSig { label: b, signer: b, corrupt: false }]
                } else {
                    vec![SSig { label: b, signer: b, corrupt: false }, SSig { label: a, signer: a, corrupt: false }]
                };
            }
            if let SFile::Block(blk) = &mut s.dir.files[fb].1 {
                match &mut blk.meta {
                    SMeta::Link(lk) => lk.prods.push(("only-in-the-co-signers-own-link".into(), 2)),
                    _ => return None,
                }
            }
            if l.steps[si].threshold >= 2 {
                Some(("C07", format!("links of a multi-party step disagree ({}, a co-signed link next to the co-signer's own differing link)", name), true))
            } else {
                None
            }
        }
        "threshold_zero_nolinks" => {
            let l = layout_mut(&mut s.block)?;
            let si = r.below(l.steps.len());
            l.steps[si].threshold = 0;
            let name = l.steps[si].name.clone();
            let idx = evidence_files(&s.dir, &name);
            for &i in idx.iter().rev() {
                s.dir.files.remove(i);
            }
            Some(("C02", format!("threshold 0 and no evidence at all for a step ({})", name), true))
        }
        "digest_partial_agreement" => {
            // an artifact recorded with two digest algorithms on both sides of a MATCH: the two recordings
            // agree under sha256 and differ under sha512. They are different recordings.
            let l = layout_mut(&mut s.block)?.clone();
            let i = (1..l.steps.len()).find(|&i| l.steps[i].mats.iter().any(|rl| matches!(rl, ArtifactRule::Match { from, .. } if *from == l.steps[i - 1].name)))?;
            let (prev, cur) = (l.steps[i - 1].name.clone(), l.steps[i].name.clone());
            let mut path: Option<String> = None;
            for fi in evidence_files(&s.dir, &prev) {
                if let SFile::Block(b) = &mut s.dir.files[fi].1 {
                    match &mut b.meta {
                        SMeta::Link(lk) => {
                            let n = lk.prods.len();
                            if n == 0 {
                                return None;
                            }
                            lk.prods[n - 1].1 = 6;
                            path = Some(lk.prods[n - 1].0.clone());
                        }
                        _ => return None,
                    }
                }
            }
            let path = path?;
            for fi in evidence_files(&s.dir, &cur) {
                if let SFile::Block(b) = &mut s.dir.files[fi].1 {
                    match &mut b.meta {
                        SMeta::Link(lk) => {
                            for m in lk.mats.iter_mut().filter(|m| m.0 == path) {
                                m.1 = 7;
                            }
                            for m in lk.prods.iter_mut().filter(|m| m.0 == path) {
                                m.1 = 7;
                            }
                        }
                        _ => return None,
                    }
                }
            }
            Some((if prop == "C13" { "C13" } else { "C03" }, format!("a material of {} matches the product of {} under one digest algorithm only", cur, prev), true))
        }
        "nested_namesake" => {
            // a sub-layout's own directory holds a further, validly signed link file that is named exactly
            // like a link file of the enclosing directory but records other artifacts. It belongs to no
            // step of the sub-layout and is none of the enclosing layout's evidence: it changes nothing.
            if s.dir.subs.is_empty() {
                return None;
            }
            let cands: Vec<usize> = (0..s.dir.files.len()).filter(|&i| matches!(&s.dir.files[i].1, SFile::Block(b) if matches!(b.meta, SMeta::Link(_)))).collect();
            if cands.is_empty() {
                return None;
            }
            let (name, mut f) = s.dir.files[*r.pick(&cands)].clone();
            if let SFile::Block(b) = &mut f {
                if let SMeta::Link(lk) = &mut b.meta {
                    lk.prods.push(("made-elsewhere".into(), 3));
                    lk.mats.clear();
                }
            }
            let si = r.below(s.dir.subs.len());
            if s.dir.subs[si].1.files.iter().any(|x| x.0 == name) {
                return None;
            }
            s.dir.subs[si].1.files.push((name, f));
            None
        }
        "duplicate_step_unmet" => {
            // a second step of the same name, before or after the first, authorizing only a key that
            // delivers nothing: every step has to be satisfied, whatever it is called
            let l = layout_mut(&mut s.block)?.clone();
            let si = r.below(l.steps.len());
            let x = other_key(pool, r, &l.steps[si].pubkeys);
            if evidence_files(&s.dir, &l.steps[si].name).iter().any(|&f| s.dir.files[f].0 == format!("{}.{}.link", l.steps[si].name, prefix8(pool, x))) {
                return None;
            }
            let lm = layout_mut(&mut s.block)?;
            if !lm.keys.contains(&x) {
                lm.keys.push(x);
            }
            let mut twin = lm.steps[si].clone();
            twin.pubkeys = vec![x];
            twin.ghost_keys.clear();
            twin.threshold = *r.pick(&[0u32, 1, 1]);
            let at = if r.chance(1, 2) { si } else { si + 1 };
            lm.steps.insert(at, twin);
            Some(("C02", format!("a second step named like another one authorizes only a key that delivered nothing ({})", l.steps[si].name), true))
        }
        "threshold_zero_norules" => {
            // a step in the middle of the chain with threshold 0, no artifact rules and no evidence at all:
            // "at least one" still applies
            let l = layout_mut(&mut s.block)?;
            if l.steps.is_empty() {
                return None;
            }
            let si = if l.steps.len() >= 3 { 1 + r.below(l.steps.len() - 2) } else { r.below(l.steps.len()) };
            l.steps[si].threshold = 0;
            l.steps[si].mats.clear();
            l.steps[si].prods.clear();
            let name = l.steps[si].name.clone();
            // nobody else may depend on its link
            for st in l.steps.iter_mut() {
                for rules in [&mut st.mats, &mut st.prods] {
                    for rl in rules.iter_mut() {
                        if let ArtifactRule::Match { from, .. } = rl {
                            if *from == name {
                                *rl = ArtifactRule::Allow(vp("*"));
                            }
                        }
                    }
                }
            }
            let idx = evidence_files(&s.dir, &name);
            for &i in idx.iter().rev() {
                s.dir.files.remove(i);
            }
            s.dir.subs.retain(|x| !x.0.starts_with(&format!("{}.", name)));
            Some(("C02", format!("threshold 0, no rules and no evidence at all for a step ({})", name), true))
        }
        "threshold_zero_onelink" => {
            let l = layout_mut(&mut s.block)?;
            let si = r.below(l.steps.len());
            l.steps[si].threshold = 0;
            None
        }
        "threshold_raised" => {
            let l = layout_mut(&mut s.block)?;
            let si = r.below(l.steps.len());
            let name = l.steps[si].name.clone();
            let n = evidence_files(&s.dir, &name).len() as u32;
            let l = layout_mut(&mut s.block)?;
            // (one more than there is evidence - or far more: around the ends of the 31-, 32-bit ranges)
            l.steps[si].threshold = match r.below(6) {
                0 => u32::MAX,
                1 => 3_000_000_000,
                2 => (1u32 << 31) + 1 + r.below(3) as u32,
                _ => n + 1,
            };
            Some(("C02", format!("the threshold of a step exceeds the number of signed links ({})", name), true))
        }
        // ---------------------------------------------------------------- C07 / C13
        "disagree_product_digest" | "disagree_material_path" | "disagree_extra_entry" | "disagree_t1" | "agree_extra_differs" | "pre_disagree" | "differing_links_t1" | "differing_links_t1_rules"
        | "disagree_path_spelling" | "disagree_alias_entry" | "disagree_algorithm_set" | "disagree_empty_entry" | "disagree_moved_across" | "disagree_missing_entry" => {
            let l = layout_mut(&mut s.block)?.clone();
            // (C08's "the links disagree" is any of the ways two recordings can differ: a digest, an entry
            // more - in the materials or in the products - or an entry less)
            let pre = kind == "pre_disagree";
            let kind = if pre { *r.pick(&["pre_disagree", "disagree_extra_entry", "disagree_material_path", "disagree_missing_entry"]) } else { kind };
            let want_t2 = !matches!(kind, "disagree_t1" | "differing_links_t1" | "differing_links_t1_rules");
            let si = (0..l.steps.len()).find(|&i| {
                let ev = evidence_files(&s.dir, &l.steps[i].name);
                let n = ev.len();
                // (moving artifacts across the step needs a step whose materials and products are not empty
                // and have no path in common)
                let disjoint = ev.first().map_or(false, |&f| match &s.dir.files[f].1 {
                    SFile::Block(b) => match &b.meta {
                        SMeta::Link(lk) => !lk.mats.is_empty() && !lk.prods.is_empty() && lk.mats.iter().all(|m| lk.prods.iter().all(|p| p.0 != m.0)),
                        _ => false,
                    },
                    _ => false,
                });
                n >= 2 && ((l.steps[i].threshold >= 2) == want_t2) && (kind != "disagree_moved_across" || disjoint)
            })?;
            let mut idx = evidence_files(&s.dir, &l.steps[si].name);
            // which link dissents matters for comparison strategies that do not look at every pair:
            // sort by signer key id and pick first / last / middle deliberately
            idx.sort_by_key(|&f| {
                let short = &s.dir.files[f].0[l.steps[si].name.len() + 1..s.dir.files[f].0.len() - 5];
                l.steps[si].pubkeys.iter().map(|&k| kid(pool, k)).find(|id| id.starts_with(short)).unwrap_or_default()
            });
            let fi = match r.below(4) {
                0 => idx[0],
                1 | 2 => idx[idx.len() - 1],
                _ => idx[r.below(idx.len())],
            };
            // a 2-vs-2 split when there are four links
            let also = if idx.len() >= 4 && r.chance(1, 2) { Some(idx[idx.len() - 2]) } else { None };
            if let Some(f2) = also {
                if let SFile::Block(b2) = &mut s.dir.files[f2].1 {
                    if let SMeta::Link(lk2) = &mut b2.meta {
                        if matches!(kind, "disagree_product_digest" | "pre_disagree") && !lk2.prods.is_empty() {
                            let n = lk2.prods.len();
                            lk2.prods[n - 1].1 = 21;
                        }
                    }
                }
            }
            // a functionary who hands in nothing usable - no file, or one whose signature is broken - while
            // enough others do: the dissent among those who did hand in a link is there all the same
            // (preferably a functionary the step lists before the dissenter)
            let mut silenced: Option<String> = None;
            {
                let spare: Vec<usize> = idx.iter().cloned().filter(|&f| f != fi && Some(f) != also).collect();
                if want_t2 && idx.len() - 1 >= (l.steps[si].threshold as usize).max(2) && !spare.is_empty() && r.chance(1, 2) {
                    let pos = |f: usize| {
                        let short = &s.dir.files[f].0[l.steps[si].name.len() + 1..s.dir.files[f].0.len() - 5];
                        l.steps[si].pubkeys.iter().position(|&k| prefix8(pool, k) == short).unwrap_or(usize::MAX)
                    };
                    let before: Vec<usize> = spare.iter().cloned().filter(|&f| pos(f) < pos(fi)).collect();
                    let f = if !before.is_empty() && r.chance(3, 4) { *r.pick(&before) } else { *r.pick(&spare) };
                    if r.chance(1, 2) {
                        if let SFile::Block(b) = &mut s.dir.files[f].1 {
                            for sg in &mut b.sigs {
                                sg.corrupt = true;
                            }
                        }
                    } else {
                        silenced = Some(s.dir.files[f].0.clone());
                    }
                }
            }
            // (the `name` a link records is not what makes it evidence of a step - the file it is in is: a
            // dissenting link that calls itself otherwise is a dissenting link of this step all the same)
            if want_t2 && r.chance(1, 3) {
                let other_step = l.steps.iter().map(|x| x.name.clone()).find(|n| *n != l.steps[si].name);
                if let SFile::Block(b) = &mut s.dir.files[fi].1 {
                    if let SMeta::Link(lk) = &mut b.meta {
                        lk.name = match (r.below(4), other_step) {
                            (0, Some(o)) => o,
                            (1, _) => lk.name.to_uppercase(),
                            (2, _) => "nightly".to_string(),
                            _ => String::new(),
                        };
                    }
                }
            }
            if let SFile::Block(b) = &mut s.dir.files[fi].1 {
                if let SMeta::Link(lk) = &mut b.meta {
                    match kind {
                        "disagree_product_digest" | "pre_disagree" | "differing_links_t1" => {
                            if lk.prods.is_empty() {
                                return None;
                            }
                            let n = lk.prods.len();
                            lk.prods[n - 1].1 = 21; // another digest (other algorithm set as well)
                        }
                        "differing_links_t1_rules" => {
                            lk.prods.push(("surplus".into(), 3));
                        }
                        "disagree_material_path" => {
                            lk.mats.push(("extra-material".into(), 1));
                        }
                        "disagree_path_spelling" => {
                            // the same artifact under another spelling of its path is another entry
                            let n = lk.prods.len();
                            if n == 0 {
                                return None;
                            }
                            let i = r.below(n);
                            lk.prods[i].0 = match r.below(4) {
                                0 => format!("./{}", lk.prods[i].0),
                                1 => format!("x/../{}", lk.prods[i].0),
                                2 => format!("{}/", lk.prods[i].0),
                                _ => format!(".//{}", lk.prods[i].0),
                            };
                        }
                        "disagree_alias_entry" => {
                            if lk.prods.is_empty() {
                                return None;
                            }
                            let (p0, d0) = lk.prods[0].clone();
                            let arts = if r.chance(1, 2) { &mut lk.prods } else { &mut lk.mats };
                            arts.push((format!("./{}", p0), if d0 == 9 { 8 } else { 9 }));
                        }
                        "disagree_algorithm_set" => {
                            // same sha256 value, recorded with sha512 as well (or instead)
                            let n = lk.prods.len();
                            if n == 0 {
                                return None;
                            }
                            let i = r.below(n);
                            let d = lk.prods[i].1;
                            let v = d / 4;
                            lk.prods[i].1 = if d >= 4 && d % 4 == 0 {
                                d + *r.pick(&[1u8, 2, 3])
                            } else if d >= 4 && d % 4 == 3 {
                                // recorded as {sha256: v, sha512: v + 1}: the same sha512 value with another
                                // sha256 value, alone, or the same sha256 value alone
                                *r.pick(&[4 * (v + 1) + 2, 4 * (v + 1) + 1, 4 * v])
                            } else {
                                21
                            };
                        }
                        "disagree_extra_entry" | "disagree_t1" => {
                            lk.prods.push(("extra-product".into(), 2));
                        }
                        "disagree_missing_entry" => {
                            // one recording lacks an entry the others have (everything it reports, they report too)
                            let arts = if !lk.prods.is_empty() && (lk.mats.is_empty() || r.chance(1, 2)) { &mut lk.prods } else { &mut lk.mats };
                            if arts.is_empty() {
                                return None;
                            }
                            let i = r.below(arts.len());
                            arts.remove(i);
                        }
                        "disagree_moved_across" => {
                            // the same artifacts, but reported on the other side of the step: all
                            // materials as products, or all products as materials
                            if lk.mats.is_empty() || lk.prods.is_empty() {
                                return None;
                            }
                            if r.chance(1, 2) {
                                let m: Vec<(String, u8)> = lk.mats.drain(..).collect();
                                for e in m {
                                    if !lk.prods.iter().any(|p| p.0 == e.0) {
                                        lk.prods.push(e);
                                    }
                                }
                            } else {
                                let p: Vec<(String, u8)> = lk.prods.drain(..).collect();
                                for e in p {
                                    if !lk.mats.iter().any(|m| m.0 == e.0) {
                                        lk.mats.push(e);
                                    }
                                }
                            }
                        }
                        "disagree_empty_entry" => {
                            // an entry more, recorded without any digest
                            let arts = if r.chance(1, 2) { &mut lk.prods } else { &mut lk.mats };
                            arts.push(("extra-entry".into(), 0));
                        }
                        _ => {
                            lk.stdout.push_str(" (other output)");
                        }
                    }
                } else {
                    return None;
                }
            }
            if let Some(gone) = silenced {
                s.dir.files.retain(|f| f.0 != gone);
            }
            match kind {
                "agree_extra_differs" | "disagree_t1" | "differing_links_t1" | "differing_links_t1_rules" => {
                    if kind == "differing_links_t1_rules" {
                        // make the surplus product decisive for the rules of this step
                        let lm = layout_mut(&mut s.block)?;
                        lm.steps[si].prods = vec![ArtifactRule::Disallow(vp("surplus")), ArtifactRule::Allow(vp("*"))];
                    }
                    None
                }
                _ if pre => Some(("C08", format!("links of a multi-party step disagree [{}] ({})", kind, l.steps[si].name), true)),
                _ => Some(("C07", format!("links of a multi-party step disagree [{}] ({})", kind, l.steps[si].name), true)),
            }
        }
        "co_sub_disagree" | "pre_co_sub_disagree" => {
            // a multi-party step whose functionaries each hand in a sub-layout (the same one, or not): the
            // evidence in ONE of the sub-directories reports another product digest in its last step, so the
            // summaries the sub-layouts stand for differ
            let l = layout_mut(&mut s.block)?.clone();
            let si = (0..l.steps.len()).find(|&i| {
                l.steps[i].threshold >= 2
                    && evidence_files(&s.dir, &l.steps[i].name).iter().filter(|&&f| matches!(&s.dir.files[f].1, SFile::Block(b) if matches!(b.meta, SMeta::Layout(_)))).count() >= 2
            })?;
            let subs: Vec<usize> = evidence_files(&s.dir, &l.steps[si].name).into_iter().filter(|&f| matches!(&s.dir.files[f].1, SFile::Block(b) if matches!(b.meta, SMeta::Layout(_)))).collect();
            let fi = subs[r.below(subs.len())];
            let inner = match &s.dir.files[fi].1 {
                SFile::Block(b) => match &b.meta {
                    SMeta::Layout(il) => il.clone(),
                    _ => return None,
                },
                _ => return None,
            };
            let last = inner.steps.last()?.name.clone();
            let subname = s.dir.files[fi].0.trim_end_matches(".link").to_string();
            let sd = &mut s.dir.subs.iter_mut().find(|x| x.0 == subname)?.1;
            let mut changed = false;
            for f in evidence_files(sd, &last) {
                if let SFile::Block(b) = &mut sd.files[f].1 {
                    if let SMeta::Link(lk) = &mut b.meta {
                        if let Some(p) = lk.prods.last_mut() {
                            p.1 = 21;
                            changed = true;
                        }
                    }
                }
            }
            if !changed {
                return None;
            }
            Some((if kind == "pre_co_sub_disagree" { "C08" } else { "C07" }, format!("the sub-layouts handed in for a multi-party step stand for different artifacts [co_sub_disagree]: links of a multi-party step disagree ({})", l.steps[si].name), true))
        }
        // ---------------------------------------------------------------- C08
        "insp_rule_named_like_step" => {
            // an inspection that shares its name with a step is still held to its own rules
            let l = layout_mut(&mut s.block)?;
            if l.inspect.is_empty() || l.steps.is_empty() {
                return None;
            }
            let ii = r.below(l.inspect.len());
            let sname = l.steps[r.below(l.steps.len())].name.clone();
            if l.inspect.iter().any(|i| i.name == sname) {
                return None;
            }
            l.inspect[ii].name = sname.clone();
            l.inspect[ii].script = Some(script("", &sname, 0, "echo x > made-by-the-namesake;"));
            l.inspect[ii].mats = vec![ArtifactRule::Allow(vp("*"))];
            l.inspect[ii].prods = vec![ArtifactRule::Disallow(vp("made-by-the-namesake")), ArtifactRule::Allow(vp("*"))];
            Some(("C08", format!("an artifact rule of an inspection named like a step fails ({})", sname), true))
        }
        "insp_exit_shadowed" => {
            // two inspections of one name: the first one's command exits with a non-zero status, the one listed
            // after it (whose link takes the entry over) exits with 0. The first one ran and failed.
            let l = layout_mut(&mut s.block)?;
            if l.inspect.is_empty() {
                return None;
            }
            let ii = r.below(l.inspect.len());
            let name = l.inspect[ii].name.clone();
            let st = *r.pick(&[1, 3, 127, 255]);
            let first = SInsp { name: name.clone(), mats: vec![ArtifactRule::Allow(vp("*"))], prods: vec![ArtifactRule::Allow(vp("*"))], script: Some(script("", &name, st, "")) };
            l.inspect.insert(ii, first);
            Some(("C08", format!("an inspection command does not end with exit status 0 ({} -> {}; an inspection of the same name, listed after it, exits with 0)", name, st), true))
        }
        "insp_exit" | "insp_notfound" | "insp_rule" => {
            let l = layout_mut(&mut s.block)?;
            if l.inspect.is_empty() {
                return None;
            }
            let ii = r.below(l.inspect.len());
            let name = l.inspect[ii].name.clone();
            match kind {
                "insp_exit" => {
                    // a non-zero exit status, or no exit status at all (ended by a signal)
                    let st = *r.pick(&[1, 2, 3, 127, 255, 1, 7, -9, -15, -6]);
                    l.inspect[ii].script = Some(script("", &name, st, if r.chance(1, 3) { "echo partial > left-behind;" } else { "" }));
                    Some(("C08", format!("an inspection command does not end with exit status 0 ({} -> {})", name, st), true))
                }
                "insp_notfound" => {
                    l.inspect[ii].script = None;
                    Some(("C08", format!("the command of an inspection does not exist ({})", name), true))
                }
                _ => {
                    l.inspect[ii].prods = vec![ArtifactRule::Disallow(vp("*"))];
                    Some(("C08", format!("an artifact rule of an inspection fails ({})", name), true))
                }
            }
        }
        "pre_expired" => {
            let l = layout_mut(&mut s.block)?;
            l.expires = now - Duration::hours(1);
            Some(("C08", "the layout is expired".into(), true))
        }
        "pre_badsig" => {
            s.block.sigs[0].corrupt = true;
            Some(("C08", "an owner signature is corrupted".into(), true))
        }
        "pre_rule" => {
            let l = layout_mut(&mut s.block)?;
            let si = r.below(l.steps.len());
            l.steps[si].prods = vec![ArtifactRule::Disallow(vp("*"))];
            let name = l.steps[si].name.clone();
            Some(("C08", format!("a product rule of a step fails ({})", name), true))
        }
        // ---------------------------------------------------------------- C15
        "no_steps" => {
            // a layout without steps: verification succeeds and the summary carries the requested name
            let l = layout_mut(&mut s.block)?;
            l.steps.clear();
            s.dir = SDir::default();
            None
        }
        "no_steps_inner" => {
            let l = layout_mut(&mut s.block)?.clone();
            for st in &l.steps {
                for fi in evidence_files(&s.dir, &st.name) {
                    if let SFile::Block(b) = &mut s.dir.files[fi].1 {
                        if let Some(il) = layout_mut(b) {
                            il.steps.clear();
                            let sub = s.dir.files[fi].0.trim_end_matches(".link").to_string();
                            s.dir.subs.retain(|x| x.0 != sub);
                            return None;
                        }
                    }
                }
            }
            None
        }
        k if k.starts_with("sub_") => {
            // find a delegated step at top level
            let l = layout_mut(&mut s.block)?.clone();
            let (si, fi) = l.steps.iter().enumerate().find_map(|(si, st)| {
                evidence_files(&s.dir, &st.name).into_iter().find(|&fi| matches!(&s.dir.files[fi].1, SFile::Block(b) if matches!(b.meta, SMeta::Layout(_)))).map(|fi| (si, fi))
            })?;
            // `_surplus`: the step keeps its other evidence, which alone would meet the threshold - a
            // sub-layout that is reached and does not verify must still be fatal
            let surplus = k.ends_with("_surplus");
            let k = k.trim_end_matches("_surplus");
            if surplus {
                let need = (l.steps[si].threshold as usize).max(1);
                if evidence_files(&s.dir, &l.steps[si].name).len() <= need {
                    return None;
                }
            } else {
                trim_spares(&l, &mut s.dir, si);
            }
            let cands: Vec<usize> = evidence_files(&s.dir, &l.steps[si].name).into_iter().filter(|&f| matches!(&s.dir.files[f].1, SFile::Block(b) if matches!(b.meta, SMeta::Layout(_)))).collect();
            let fi = if cands.is_empty() { fi } else { cands[r.below(cands.len())] };
            let fname = s.dir.files[fi].0.clone();
            let subname = fname.trim_end_matches(".link").to_string();
            let short = subname[l.steps[si].name.len() + 1..].to_string();
            let owner = *l.steps[si].pubkeys.iter().find(|&&k| prefix8(pool, k) == short)?;
            let desc: String;
            let mut rename_to: Option<String> = None;
            {
                let subdir_pos = s.dir.subs.iter().position(|x| x.0 == subname);
                let SFile::Block(b) = &mut s.dir.files[fi].1 else { return None };
                match k {
                    "sub_wrong_signer" => {
                        let x = other_key(pool, r, &[owner]);
                        b.sigs = vec![SSig { label: x, signer: x, corrupt: false }];
                        desc = "the sub-layout is not signed by the functionary under whose key it is filed".into();
                    }
                    "sub_tampered" => {
                        let orig = b.meta.clone();
                        layout_mut(b)?.readme.push('!');
                        b.signed_over = Some(Box::new(orig));
                        desc = "the sub-layout was altered after signing".into();
                    }
                    "sub_expired" => {
                        layout_mut(b)?.expires = now - Duration::seconds(1);
                        // (now and then an expired sub-layout without steps: nothing but its date is wrong)
                        if r.chance(1, 4) {
                            layout_mut(b)?.steps.clear();
                        }
                        desc = "the sub-layout is expired".into();
                    }
                    "sub_insp_exit" | "sub_insp_rule" => {
                        // the sub-layout's own inspection fails: its command exits non-zero, or one of its
                        // artifact rules is violated by what the command leaves behind
                        let il = layout_mut(b)?;
                        let nm = format!("subinsp{}", r.next() % 1_000_000_000);
                        if k == "sub_insp_exit" {
                            il.inspect.push(SInsp { name: nm.clone(), mats: vec![ArtifactRule::Allow(vp("*"))], prods: vec![ArtifactRule::Allow(vp("*"))], script: Some(script(&subname, &nm, *r.pick(&[3, 1, -9]), "")) });
                            desc = "an inspection of the sub-layout exits with a non-zero status".into();
                        } else {
                            il.inspect.push(SInsp { name: nm.clone(), mats: vec![ArtifactRule::Allow(vp("*"))], prods: vec![ArtifactRule::Disallow(vp("*"))], script: Some(script(&subname, &nm, 0, "echo x > made-in-sub;")) });
                            desc = "an artifact rule of an inspection of the sub-layout fails".into();
                        }
                    }
                    "sub_rule" => {
                        let il = layout_mut(b)?;
                        il.steps[0].prods = vec![ArtifactRule::Disallow(vp("*"))];
                        desc = "an artifact rule inside the sub-layout fails".into();
                    }
                    "sub_misfiled" => {
                        // an honest sub-layout, signed by an authorized functionary, its links in that
                        // functionary's sub-directory - but the file is named after another key
                        let other = match r.below(3) {
                            0 => l.steps[si].pubkeys.iter().cloned().find(|&k| k != owner).map(|k| prefix8(pool, k)),
                            1 => Some(prefix8(pool, other_key(pool, r, &l.keys))),
                            _ => Some("0a1b2c3d".to_string()),
                        }?;
                        let nn = format!("{}.{}.link", l.steps[si].name, other);
                        if other == short || s.dir.files.iter().any(|f| f.0 == nn) {
                            return None;
                        }
                        rename_to = Some(nn);
                        desc = "the sub-layout is filed under a key id prefix that its signature does not carry".into();
                    }
                    "sub_dir_misnamed" => {
                        // the sub-layout's links sit in a directory whose name is close to, but not,
                        // <step>.<key id prefix>
                        let il = layout_mut(b)?.clone();
                        if il.steps.is_empty() {
                            return None;
                        }
                        let sp = subdir_pos?;
                        let step = l.steps[si].name.clone();
                        let full = kid(pool, owner);
                        let cosigner_dirs: Vec<String> = b.sigs.iter().filter(|x| x.label != owner).map(|x| format!("{}.{}", step, prefix8(pool, x.label))).collect();
                        let mut cands: Vec<String> = vec![
                            step.clone(),
                            format!("{}.{}", step, full),
                            format!("{}-{}", step, short),
                            format!("{}.{}", short, step),
                            format!("{}.{}", step, &short[..7]),
                            format!("{}.{}", step.trim_matches('.'), short),
                            format!("{}.{}", step.to_uppercase(), short),
                        ];
                        // the step name with its last dot-separated part taken for an extension
                        if let Some((a, _)) = step.rsplit_once('.') {
                            if !a.is_empty() {
                                for _ in 0..4 {
                                    cands.push(format!("{}.{}", a, short));
                                }
                            }
                        }
                        // (a co-signer's directory is not the delegating functionary's)
                        for _ in 0..6 {
                            cands.extend(cosigner_dirs.iter().cloned());
                        }
                        cands.retain(|c| *c != subname && !s.dir.subs.iter().any(|x| x.0 == *c) && !s.dir.files.iter().any(|x| x.0 == *c));
                        if cands.is_empty() {
                            return None;
                        }
                        // (a step name with a dot in it: mostly the name with its last dot-separated part taken for an extension)
                        let ext_miss = step.rsplit_once('.').filter(|(a, _)| !a.is_empty()).map(|(a, _)| format!("{}.{}", a, short)).filter(|c| cands.contains(c));
                        s.dir.subs[sp].0 = match ext_miss {
                            Some(c) if r.chance(3, 4) => c,
                            _ => r.pick(&cands).clone(),
                        };
                        desc = format!("the sub-layout's links are in `{}` instead of its own sub-directory `{}`", s.dir.subs[sp].0, subname);
                    }
                    "sub_unlisted_functionary" => {
                        // the (otherwise sound) sub-layout is signed by, and filed under, a key that the layout's key
                        // table defines but this step does not list - a functionary trusted for other steps at most
                        let sp = subdir_pos?;
                        let x = match l.keys.iter().cloned().find(|k| !l.steps[si].pubkeys.iter().any(|&p| prefix8(pool, p) == prefix8(pool, *k))) {
                            Some(k) => k,
                            None => {
                                let k = other_key(pool, r, &l.keys);
                                if l.steps[si].pubkeys.iter().any(|&p| prefix8(pool, p) == prefix8(pool, k)) {
                                    return None;
                                }
                                layout_mut(&mut s.block)?.keys.push(k);
                                k
                            }
                        };
                        let nn = format!("{}.{}.link", l.steps[si].name, prefix8(pool, x));
                        let nd = format!("{}.{}", l.steps[si].name, prefix8(pool, x));
                        if s.dir.files.iter().any(|f| f.0 == nn) || s.dir.subs.iter().any(|d| d.0 == nd) {
                            return None;
                        }
                        let SFile::Block(b) = &mut s.dir.files[fi].1 else { return None };
                        b.sigs = vec![SSig { label: x, signer: x, corrupt: false }];
                        s.dir.subs[sp].0 = nd;
                        s.dir.files[fi].0 = nn;
                        let label = if prop == "C02" { "C02" } else { "C15" };
                        return Some((label, format!("the delegated evidence is signed by and filed under a key of the layout that the step does not list (step {})", l.steps[si].name), true));
                    }
                    "sub_links_nested_below" => {
                        // the sub-layout's first inner step has its (validly signed) link not in the sub-layout's own
                        // sub-directory but in a directory below it (`previous-run/`, `a/b/`)
                        let il = layout_mut(b)?.clone();
                        let sp = subdir_pos?;
                        if il.steps.is_empty() {
                            return None;
                        }
                        let inner_step = il.steps[0].name.clone();
                        let idx = evidence_files(&s.dir.subs[sp].1, &inner_step);
                        if idx.is_empty() {
                            return None;
                        }
                        let mut moved = vec![];
                        for &j in idx.iter().rev() {
                            moved.push(s.dir.subs[sp].1.files.remove(j));
                        }
                        if moved.iter().any(|m| !matches!(&m.1, SFile::Block(ib) if matches!(ib.meta, SMeta::Link(_)))) {
                            return None;
                        }
                        let below = *r.pick(&["previous-run", "a", "links"]);
                        let mut nested = SDir::default();
                        nested.files = moved;
                        if below == "a" {
                            let mut outer = SDir::default();
                            outer.subs.push(("b".to_string(), nested));
                            s.dir.subs[sp].1.subs.push(("a".to_string(), outer));
                        } else {
                            s.dir.subs[sp].1.subs.push((below.to_string(), nested));
                        }
                        desc = "a link required by the sub-layout lies in a directory below the sub-layout's own sub-directory".into();
                    }
                    "sub_inner_step_names_parent" => {
                        // the first inner step is called `../<name>`: its evidence would be `<name>.<id>.link` one
                        // level up, in the enclosing layout's directory - where the (validly signed) link is put.
                        // A sub-layout's evidence comes from its own sub-directory; a file of another directory is none.
                        let sp = subdir_pos?;
                        let il = layout_mut(b)?;
                        if il.steps.is_empty() {
                            return None;
                        }
                        let old = il.steps[0].name.clone();
                        if old.contains(|c: char| "*?[]".contains(c)) {
                            return None;
                        }
                        let up = format!("moved-{}", old.trim_start_matches('.'));
                        let newname = format!("../{}", up);
                        il.steps[0].name = newname.clone();
                        for st in il.steps.iter_mut() {
                            for rl in st.mats.iter_mut().chain(st.prods.iter_mut()) {
                                if let ArtifactRule::Match { from, .. } = rl {
                                    if *from == old {
                                        *from = newname.clone();
                                    }
                                }
                            }
                        }
                        let idx = evidence_files(&s.dir.subs[sp].1, &old);
                        if idx.is_empty() {
                            return None;
                        }
                        let mut moved = vec![];
                        for &j in idx.iter().rev() {
                            moved.push(s.dir.subs[sp].1.files.remove(j));
                        }
                        for (fname, mut f) in moved {
                            if let SFile::Block(ib) = &mut f {
                                match &mut ib.meta {
                                    SMeta::Link(lk) => lk.name = newname.clone(),
                                    _ => return None,
                                }
                            }
                            let nn = format!("{}{}", up, &fname[old.len()..]);
                            if s.dir.files.iter().any(|x| x.0 == nn) {
                                return None;
                            }
                            s.dir.files.push((nn, f));
                        }
                        desc = "an inner step is named `../<name>` and its link lies in the enclosing directory, not in the sub-layout's own sub-directory".into();
                    }
                    "sub_delegator_key_as_functionary" => {
                        // an inner step lists the id of the key the sub-layout itself is verified with (the
                        // delegating functionary's) - a key the sub-layout's own key table does not define;
                        // the step's only evidence is validly signed by that key
                        let sp = subdir_pos?;
                        let il = layout_mut(b)?;
                        if il.steps.is_empty() || il.steps.iter().any(|st| st.pubkeys.iter().any(|&k| prefix8(pool, k) == prefix8(pool, owner))) {
                            return None;
                        }
                        il.keys.retain(|&k| kid(pool, k) != kid(pool, owner));
                        il.steps[0].pubkeys.push(owner);
                        il.steps[0].threshold = 1;
                        let inner_step = il.steps[0].name.clone();
                        let idx = evidence_files(&s.dir.subs[sp].1, &inner_step);
                        let i = *idx.first()?;
                        if !matches!(&s.dir.subs[sp].1.files[i].1, SFile::Block(ib) if matches!(ib.meta, SMeta::Link(_))) {
                            return None;
                        }
                        if let SFile::Block(ib) = &mut s.dir.subs[sp].1.files[i].1 {
                            ib.sigs = vec![SSig { label: owner, signer: owner, corrupt: false }];
                        }
                        for &j in idx.iter().skip(1).rev() {
                            s.dir.subs[sp].1.files.remove(j);
                        }
                        s.dir.subs[sp].1.files[i].0 = format!("{}.{}.link", inner_step, prefix8(pool, owner));
                        desc = "an inner step's only link is signed by the delegating functionary's key, which the step lists but the sub-layout's key table does not define".into();
                    }
                    "sub_missing_link" | "sub_links_in_parent" | "sub_unauthorized_inner" => {
                        let il = layout_mut(b)?.clone();
                        let sp = subdir_pos?;
                        let inner_step = il.steps[0].name.clone();
                        let idx = evidence_files(&s.dir.subs[sp].1, &inner_step);
                        if k == "sub_unauthorized_inner" {
                            let i = *idx.first()?;
                            let x = other_key(pool, r, &il.keys);
                            if let SFile::Block(ib) = &mut s.dir.subs[sp].1.files[i].1 {
                                ib.sigs = vec![SSig { label: x, signer: x, corrupt: false }];
                            }
                            // keep exactly this one
                            for &j in idx.iter().skip(1).rev() {
                                s.dir.subs[sp].1.files.remove(j);
                            }
                            s.dir.subs[sp].1.files[i].0 = format!("{}.{}.link", inner_step, prefix8(pool, x));
                            desc = "an inner step's only link is signed by a key unknown to the sub-layout".into();
                        } else {
                            let mut moved = vec![];
                            for &j in idx.iter().rev() {
                                moved.push(s.dir.subs[sp].1.files.remove(j));
                            }
                            if k == "sub_links_in_parent" {
                                // only if the names do not collide with the parent's own files
                                for m in moved {
                                    if !s.dir.files.iter().any(|f| f.0 == m.0) {
                                        s.dir.files.push(m);
                                    } else {
                                        return None;
                                    }
                                }
                                desc = "the sub-layout's links are in the parent directory instead of its own sub-directory".into();
                            } else {
                                desc = "a link required by the sub-layout is missing".into();
                            }
                        }
                    }
                    _ => return None,
                }
            }
            if let Some(nn) = rename_to {
                s.dir.files[fi].0 = nn;
            }
            // (C02: delegated evidence that does not verify is no evidence - what is left must still meet the threshold)
            let label = if k == "sub_expired" && prop == "C06" { "C06" } else if prop == "C08" { "C08" } else if prop == "C02" { "C02" } else { "C15" };
            Some((label, format!("{}{} (step {})", desc, if surplus { ", next to other evidence that meets the threshold" } else { "" }, l.steps[si].name), true))
        }
        _ => None,
    }
}

/// C03 end to end: the artifact rules of steps and inspections inside whole verifications. A scenario that
/// verifies is given other rules on one of its items - MATCH against another step or inspection (one the
/// layout lists earlier or later), followed by a rule that makes the outcome of the MATCH decisive - and
/// verified again: the decision must be the one the specification's algorithm gives over the links that
/// were recorded for ALL steps and inspections (asked from the Lean model, whose pipeline is proven equal
/// to the specification in Lemmas/VerifySpec.lean).
pub fn rules_lane(sink: &mut Sink, model: &mut crate::model::Model, r: &mut Rng, n: usize) {
    use in_toto::models::rule::Artifact;
    let pool = key_pool_twins(2);
    let mut insp_counter = 700_000usize;
    let (mut done, mut tries) = (0, 0);
    while done < n && tries < 6 * n {
        tries += 1;
        let mut g = Gen { r: &mut *r, pool: &pool, insp_counter, force_delegate: false, multi_party: false, co_delegate: false, now: base_now(), reuse_keys: vec![], inner_insp_always: false, same_material_pair: false };
        let mut s = g.valid(0, true);
        insp_counter = g.insp_counter;
        s.now = base_now();
        {
            let l = match layout_mut(&mut s.block) {
                Some(l) => l,
                None => continue,
            };
            l.expires = base_now() + Duration::days(30);
            // at least two inspections; their commands leave the files alone now and then
            while l.inspect.len() < 2 {
                let nme = format!("insp{}", insp_counter);
                insp_counter += 1;
                let action = *r.pick(&["", "", "", "echo new > created.txt;", "echo more >> foo;"]);
                l.inspect.push(SInsp { name: nme.clone(), mats: vec![ArtifactRule::Allow(vp("*"))], prods: vec![ArtifactRule::Allow(vp("*"))], script: Some(script("", &nme, 0, action)) });
            }
        }
        let base = crate::e2e::run(&pool, &s);
        if !base.ok {
            sink.stat("rules-e2e/base-refused");
            continue;
        }
        // the edit
        let (what, edited_name, from_name) = {
            let l = layout_mut(&mut s.block).unwrap();
            let items: Vec<(bool, usize, String)> = l.steps.iter().enumerate().map(|(i, x)| (false, i, x.name.clone())).chain(l.inspect.iter().enumerate().map(|(i, x)| (true, i, x.name.clone()))).collect();
            // (mostly an inspection is edited - and mostly against another inspection)
            let insps: Vec<&(bool, usize, String)> = items.iter().filter(|x| x.0).collect();
            let x = if r.chance(3, 4) { (*r.pick(&insps)).clone() } else { r.pick(&items).clone() };
            let others: Vec<&(bool, usize, String)> = items.iter().filter(|y| y.2 != x.2 && (y.0 || !r.chance(1, 2))).collect();
            let mut y = if others.is_empty() { x.clone() } else { (*r.pick(&others)).clone() };
            // (every other time: an inspection against one the layout lists after it)
            let pos_x = items.iter().position(|i| i.2 == x.2).unwrap_or(0);
            let later_insps: Vec<&(bool, usize, String)> = items.iter().skip(pos_x + 1).filter(|i| i.0).collect();
            if x.0 && !later_insps.is_empty() && r.chance(1, 2) {
                y = (*r.pick(&later_insps)).clone();
            }
            // (half of the time the file every scenario has - `foo` - decides: consumed by the MATCH or refused)
            let foo_decides = r.chance(1, 2);
            let pattern = if foo_decides { vp(*r.pick(&["*", "foo", "fo?"])) } else { vp(*r.pick(&["*", "*", "foo", "out0", "*.link"])) };
            let with = if r.chance(1, 2) { Artifact::Materials } else { Artifact::Products };
            let mut rules = vec![ArtifactRule::Match { pattern, in_src: None, with, in_dst: None, from: y.2.clone() }];
            match if foo_decides { 2 } else { r.below(4) } {
                0 | 1 => rules.push(ArtifactRule::Disallow(vp("*"))),
                2 => {
                    rules.push(ArtifactRule::Disallow(vp("foo")));
                    rules.push(ArtifactRule::Allow(vp("*")));
                }
                _ => rules.push(ArtifactRule::Allow(vp("*"))),
            }
            let on_mats = r.chance(1, 2);
            match (x.0, on_mats) {
                (true, true) => l.inspect[x.1].mats = rules,
                (true, false) => l.inspect[x.1].prods = rules,
                (false, true) => l.steps[x.1].mats = rules,
                (false, false) => l.steps[x.1].prods = rules,
            }
            let later = items.iter().position(|i| i.2 == y.2) > items.iter().position(|i| i.2 == x.2);
            (format!("{}-matches-{}-listed-{}", if x.0 { "inspection" } else { "step" }, if y.0 { "inspection" } else { "step" }, if later { "later" } else { "earlier" }), x.2.clone(), y.2.clone())
        };
        let out = crate::e2e::run(&pool, &s);
        sink.op(&out.op, &out.answer, true);
        // what the inspections record does not depend on the rules: it is what they recorded when the
        // scenario was verified with its original rules (then all of them ran). The specification is asked
        // about the edited layout over THOSE links - a verification that stops early, or applies rules
        // before every inspection has run, leaves fewer links behind than the specification speaks about
        let spec_op = match (out.op.rfind(" R "), base.op.rfind(" R ")) {
            (Some(a), Some(b)) => format!("{}{}", &out.op[..a], &base.op[b..]),
            _ => out.op.clone(),
        };
        if out.ok && spec_op != out.op {
            // (an accepted verification ran every inspection: they recorded what they recorded before)
            sink.stat("rules-e2e/recorded-links-differ-from-first-run");
            continue;
        }
        let spec = model.ask(&spec_op);
        let spec_ok = spec.starts_with("ok");
        sink.stat(&format!("rules-e2e/{}/impl-{}/spec-{}", what, if out.panicked { "panic" } else if out.ok { "ok" } else { "err" }, if spec_ok { "ok" } else { "err" }));
        sink.oracle(!out.panicked, "verification panicked", &out.op);
        sink.oracle(
            out.ok == spec_ok,
            &format!(
                "the rules of `{}` (MATCH ... FROM `{}`) are decided differently inside a verification than the specification's algorithm decides them over the links recorded for all steps and inspections (verification {}, specification {})",
                edited_name,
                from_name,
                if out.ok { "accepts" } else { "rejects" },
                if spec_ok { "accepts" } else { "rejects" }
            ),
            &out.op,
        );
        done += 1;
    }
    sink.stat(&format!("rules-e2e/scenarios={}", done));
}

pub fn run(cfg: &Cfg, prop: &str) {
    let mut sink = Sink::new(&cfg.out);
    let n = match (prop, cfg.thorough) {
        (_, true) => 6000,
        (_, false) => 500,
    };
    run_into(&mut sink, cfg, prop, n);
    sink.finish(&cfg.out, serde_json::json!({}));
}

/// `n` scenarios of the catalogue of `prop`, with its oracles, into a sink the caller owns
pub fn run_into(sink: &mut Sink, cfg: &Cfg, prop: &str, n: usize) {
    let mut r = Rng::new(cfg.seed ^ (prop.bytes().fold(0u64, |a, b| a * 131 + b as u64)));
    let pool = key_pool_twins(2);
    let mut insp_counter = 0usize;
    let mut alone: Vec<(Scenario, String, String)> = vec![];
    for i in 0..n {
        let mut r = r.at(i as u64);
        let depth = match prop {
            "C15" => 1 + r.below(2),
            // (every third C08 scenario has a delegated step, so that the sub-layout faults apply)
            "C08" | "C13" if i % 3 == 0 => 1,
            // (every third C07 scenario: two functionaries of a threshold-2 step hand in one and the same
            // sub-layout, each with evidence in a directory of their own)
            "C07" if i % 3 == 0 => 1,
            "C02" if i % 6 == 3 => 1,
            "C13" | "C08" => r.below(2),
            _ => r.below(2),
        };
        // (every sixth C13 / C08 scenario: several delegated steps whose sub-layouts all carry inspections,
        // some of them with rules about the link files that a sibling's inspection leaves behind)
        let siblings = (prop == "C13" || prop == "C08") && i % 6 == 0;
        let allow_insp = matches!(prop, "C08") || siblings || r.chance(1, 4);
        let mut g = Gen { r: &mut r, pool: &pool, insp_counter, force_delegate: prop == "C15" || ((prop == "C06" || prop == "C08" || prop == "C13") && i % 3 == 0), multi_party: (prop == "C07" && i % 3 != 0) || (prop == "C13" && i % 3 == 1), co_delegate: ((prop == "C15" || prop == "C07") && i % 3 == 0) || ((prop == "C08" || prop == "C02") && i % 6 == 3), now: base_now(), reuse_keys: vec![], inner_insp_always: siblings, same_material_pair: prop == "C13" && i % 5 == 2 };
        let mut s = g.valid(depth, allow_insp);
        insp_counter = g.insp_counter;
        // (C06: where the verifier sits - zones west and east of Greenwich, whole and fractional hours)
        if prop == "C06" {
            *crate::e2e::PROCESS_TZ.lock().unwrap() = match i % 6 {
                0 => None,
                1 => Some("EST5".into()),
                2 => Some("<-11>11".into()),
                3 => Some("<+0530>-5:30".into()),
                4 => Some("<+14>-14".into()),
                _ => Some("PST8PDT,M3.2.0,M11.1.0".into()),
            };
        }
        if prop == "C08" {
            // make sure there is an inspection to speak about
            if let SMeta::Layout(l) = &mut s.block.meta {
                if l.inspect.is_empty() {
                    let nme = format!("insp{}", insp_counter);
                    insp_counter += 1;
                    l.inspect.push(SInsp { name: nme.clone(), mats: vec![ArtifactRule::Allow(vp("*"))], prods: vec![ArtifactRule::Allow(vp("*"))], script: Some(script("", &nme, 0, "echo hi > made-by-inspection;")) });
                }
            }
        }
        // (how often a sub-layout's directory holds a link file named like one of the enclosing directory)
        if siblings {
            let n = s.dir.files.iter().filter(|f| matches!(&f.1, SFile::Block(SBlock { meta: SMeta::Layout(l), .. }) if !l.inspect.is_empty())).count();
            sink.stat(&format!("scenario/sub-layouts-with-inspections={}", n.min(3)));
        }
        if s.dir.subs.iter().any(|(_, sd)| sd.files.iter().any(|f| s.dir.files.iter().any(|g| g.0 == f.0))) {
            sink.stat("scenario/nested-namesake");
        }
        let nfaults = if i % 5 == 0 { 0 } else { 1 };
        let base = s.clone();
        // (C13, every fifth scenario: one key material under two ids among the functionaries - two differing
        // links of threshold-1 steps, one under each id; which of them represents the step is decided by the
        // key ids, on every run)
        if prop == "C13" && i % 5 == 2 {
            let kind = if i % 10 == 2 { "differing_links_t1" } else { "differing_links_t1_rules" };
            let _ = inject_kind(prop, kind, &mut s, &mut r, &pool);
        }
        // (C15, every fifth scenario: the delegated evidence lies in a directory whose name is a near miss of the
        // sub-layout's own - for a step name with a dot in it mostly the name with its last part taken for an
        // extension)
        if prop == "C15" && i % 5 == 2 {
            if let Some(f) = inject_kind(prop, "sub_dir_misnamed", &mut s, &mut r, &pool) {
                s.faults.push(f);
            }
        }
        for _ in 0..(if prop == "C15" && i % 5 == 2 && !s.faults.is_empty() { 0 } else { nfaults }) {
            if let Some(f) = inject(prop, &mut s, &mut r, &pool) {
                s.faults.push(f);
            }
        }
        // history: the fault-free scenario is verified first in the same process (as a verifier that
        // meets the genuine metadata before a manipulated copy of it would), so that anything remembered
        // from one verification to the next is in place when the faulty one runs
        // - and at the same place: the faulty scenario replaces the genuine one in the very directory that
        // was just verified (same paths; files of unchanged size keep their modification time)
        let mut place = None;
        let mut base_answer = None;
        if !s.faults.is_empty() && (prop == "C01" || prop == "C07" || i % 2 == 0 || s.faults.iter().any(|f| f.1.contains("verified again"))) {
            let here = tempfile::Builder::new().prefix("itv-e2e-place-").tempdir().unwrap();
            let b = crate::e2e::run_at(&pool, &base, here.path(), false);
            sink.stat(if b.ok { "history/base-ok" } else { "history/base-err" });
            sink.oracle(!b.panicked, "verification panicked", &b.op);
            if i % 4 != 2 || prop == "C07" {
                place = Some(here);
                base_answer = Some((b.answer.clone(), b.op.clone()));
            }
        }
        let out = match &place {
            Some(here) => crate::e2e::run_at(&pool, &s, here.path(), false),
            None => crate::e2e::run(&pool, &s),
        };
        // ... and the genuine scenario once more at that place, after the faulty one was (mostly) refused
        // there: what it answered before, it answers again - a failed verification leaves nothing behind
        if let (Some(here), Some((before, op))) = (&place, &base_answer) {
            if i % 8 == 0 || prop == "C13" {
                let again = crate::e2e::run_at(&pool, &base, here.path(), false);
                sink.stat(if again.answer == *before { "history/base-again-same" } else { "history/base-again-DIFFERENT" });
                sink.oracle(again.answer == *before, "the same inputs verified again at the same place, after another verification there, gave a different result", op);
            }
        }
        drop(place);
        let fatal: Vec<&Fault> = s.faults.iter().filter(|f| f.2).collect();
        let class = if s.faults.is_empty() { "valid".to_string() } else { s.faults.iter().map(|f| f.0).collect::<Vec<_>>().join("+") };
        sink.stat(&format!("{}/{}", class, if out.panicked { "panic" } else if out.ok { "ok" } else { "err" }));
        for f in &s.faults {
            sink.stat(&format!("fault/{}", f.1.split(" (").next().unwrap()));
        }
        // (a step name with a path separator is outside the model - `unmodelled` -: such scenarios go to the
        // oracles only)
        if s.faults.iter().any(|f| f.1.contains("`../<name>`")) {
            sink.stat("scenario/step-name-with-separator (oracle only)");
        } else {
            sink.op(&out.op, &out.answer, true);
        }
        let replay = out.op.clone();
        sink.oracle(!out.panicked, "verification panicked", &replay);
        sink.oracle(!out.hung, "verification did not come back within the deadline (five minutes)", &replay);
        // (once a call did not come back, the worker thread is lost and nothing after it is a verification any more:
        // the one report above stands, comparisons of answers that are no answers would only repeat it)
        if crate::proto::HUNG.load(std::sync::atomic::Ordering::SeqCst) {
            sink.stat("after-a-call-that-did-not-come-back/skipped");
            continue;
        }
        // ---- the property itself, from constructed ground truth
        for f in &fatal {
            if f.0 == prop || (prop == "C08" && f.0 == "C08") || prop == "C12" {
                sink.oracle(!out.ok, &format!("verification succeeded although {}", f.1.split(" (").next().unwrap()), &replay);
            }
        }
        if prop == "C08" {
            // a failure before the inspection stage must leave no trace of an inspection
            let pre = fatal.iter().any(|f| f.1.contains("expired") || f.1.contains("owner signature") || f.1.contains("required link") || f.1.contains("product rule of a step") || f.1.contains("disagree") || f.1.contains("carries only another functionary"));
            if pre {
                sink.oracle(out.events.iter().all(|e| !e.starts_with('|')), "an inspection of the layout ran although verification failed before the inspection stage", &replay);
            }
        }
        // the inspections of the top-level layout run in the order the layout lists them
        if let SMeta::Layout(l) = &s.block.meta {
            let listed: Vec<&String> = l.inspect.iter().map(|i| &i.name).collect();
            let ran: Vec<&String> = out.top_events_in_order.iter().collect();
            // (they are started one after the other until one fails: what ran is a beginning of the list)
            let expected: Vec<&String> = listed.iter().take(ran.len()).cloned().collect();
            sink.oracle(ran == expected, &format!("the inspections did not run in the order the layout lists them (listed {:?}, ran {:?})", listed, ran), &replay);
        }
        for w in &out.inspection_material_faults {
            sink.oracle(false, w, &replay);
        }
        if out.ok {
            sink.oracle(out.summary_extra.is_none(), &format!("the summary link carries more than the first step's materials and the last step's products, command and byproducts: {}", out.summary_extra.clone().unwrap_or_default()), &replay);
        }
        if prop == "C15" && out.ok {
            let want = s.name.as_ref().map(|n| crate::proto::hexs(n)).unwrap_or_else(|| "-".into());
            let got = out.answer.split(' ').nth(1).unwrap_or("?").to_string();
            sink.oracle(got == want, "the summary link does not carry the requested name", &replay);
        }
        // ---- how the link directory's path is spelled does not matter: named through a symbolic link and back
        //      out of it, it is the directory the operating system says it is - for the layout's own evidence
        //      and for the sub-directories of delegated steps alike
        if (prop == "C15" && i % 2 == 0) || i % 10 == 0 {
            let how = 1 + (i / 2 % 6) as u8;
            *crate::e2e::SPELL_LINK_DIR.lock().unwrap() = how;
            let sp = crate::e2e::run(&pool, &s);
            *crate::e2e::SPELL_LINK_DIR.lock().unwrap() = 0;
            if prop == "C15" {
                sink.oracle(sp.answer == out.answer, &format!("the outcome depends on how the path of the link directory is spelled ({})", ["", "through a symbolic link and `..`", "relative: links", "relative: ./links/", "`.` from inside it", "the empty text from inside it", "with a trailing separator"][how as usize]), &replay);
            }
            sink.stat(&format!("link-dir-spelling-{}/{}", how, if sp.answer == out.answer { "same" } else { "DIFFERENT" }));
        }
        // ---- the order in which a directory lists its entries does not matter: the same link directory made
        //      on a file system that lists by age (tmpfs), entries created in one order and in the opposite one
        if (prop == "C13" || i % 8 == 0) && std::path::Path::new("/dev/shm").is_dir() {
            let a = crate::e2e::run_in(&pool, &s, Some(std::path::Path::new("/dev/shm")), false);
            let b = crate::e2e::run_in(&pool, &s, Some(std::path::Path::new("/dev/shm")), true);
            if prop == "C13" {
                sink.oracle(a.answer == out.answer && b.answer == out.answer, "the outcome depends on the order in which the link directory lists its entries", &replay);
            }
            sink.stat(if a.answer == out.answer && b.answer == out.answer { "listing-order/same" } else { "listing-order/DIFFERENT" });
        }
        // ---- several verifications at once: what each answers is what it answers alone (scenarios without
        //      inspections - those use the one working directory of the process)
        if !crate::e2e::has_inspections(&s.block, &s.dir) && !crate::e2e::has_inspections(&base.block, &base.dir) && (prop == "C13" || i % 6 == 1) {
            alone.push((s.clone(), out.answer.clone(), replay.clone()));
            if alone.len() >= 3 {
                let together: Vec<Scenario> = alone.iter().map(|a| a.0.clone()).collect();
                // (each of them twice: the same directory contents verified by two threads at once)
                let mut doubled = together.clone();
                doubled.extend(together.iter().cloned());
                let answers = crate::e2e::run_concurrently(&pool, &doubled);
                for (n, a) in answers.iter().enumerate() {
                    let (_, want, rp) = &alone[n % alone.len()];
                    let same = a == want;
                    sink.stat(if same { "concurrent/same" } else { "concurrent/DIFFERENT" });
                    if prop == "C13" {
                        sink.oracle(same, "verified at the same time as other inputs (on a thread of its own), the same input gets a different result", rp);
                    }
                }
                alone.clear();
            }
        }
        // ---- determinism: the same inputs again (fresh hash seeds) give the same answer
        if prop == "C13" || i % 4 == 0 {
            for _ in 0..(if prop == "C13" { 6 } else { 1 }) {
                let again = crate::e2e::run(&pool, &s);
                if prop == "C13" {
                    sink.oracle(again.answer == out.answer, "repeating verification on the same inputs gave a different result", &replay);
                }
                sink.stat(if again.answer == out.answer { "repeat/same" } else { "repeat/DIFFERENT" });
            }
        }
    }
    *crate::e2e::PROCESS_TZ.lock().unwrap() = None;
    // ---- the moment of verification is the moment of the call - read from the system clock, with no clock
    //      pinned: a layout verified (rightly) before it expires, the same process three seconds later when it
    //      has expired - under the requested names a top-level call and a delegation use
    if prop == "C06" || prop == "C08" {
        *crate::e2e::REAL_CLOCK.lock().unwrap() = true;
        // (the moment of verification is read from the system clock - not from what the process environment says
        // the date is: build systems export SOURCE_DATE_EPOCH, test rigs FAKETIME and the like; here they name a
        // day long before the layout expires)
        for (k, v) in [("SOURCE_DATE_EPOCH", "1000000000"), ("FAKETIME", "2001-09-09 01:46:40"), ("IN_TOTO_NOW", "2001-09-09T01:46:40Z"), ("NOW", "1000000000")] {
            std::env::set_var(k, v);
        }
        for name in [None, Some("final".to_string())] {
            // (a scenario that verifies under a pinned clock: some generated ones are meant not to)
            let mut found = None;
            for _ in 0..12 {
                let mut g = Gen { r: &mut r, pool: &pool, insp_counter, force_delegate: false, multi_party: false, co_delegate: false, now: Utc::now(), reuse_keys: vec![], inner_insp_always: false, same_material_pair: false };
                let cand = g.valid(0, prop == "C08");
                insp_counter = g.insp_counter;
                *crate::e2e::REAL_CLOCK.lock().unwrap() = false;
                let pinned = crate::e2e::run(&pool, &cand);
                *crate::e2e::REAL_CLOCK.lock().unwrap() = true;
                if pinned.ok {
                    found = Some(cand);
                    break;
                }
            }
            let mut s = match found {
                Some(s) => s,
                None => continue,
            };
            s.name = name.clone();
            // (the generator dates everything from `g.now`; `valid` draws another moment: date the layout anew)
            let soon = Utc::now() + Duration::seconds(2);
            if let SMeta::Layout(l) = &mut s.block.meta {
                l.expires = Utc::now() + Duration::days(30);
            }
            s.now = Utc::now();
            let first = crate::e2e::run(&pool, &s);
            sink.stat(if first.ok { "real-clock/unexpired-ok" } else { "real-clock/unexpired-ERR" });
            sink.oracle(first.ok, "a layout that expires in thirty days was refused (system clock)", &first.op);
            if let SMeta::Layout(l) = &mut s.block.meta {
                l.expires = soon;
            }
            std::thread::sleep(std::time::Duration::from_millis(3200));
            s.now = Utc::now();
            let late = crate::e2e::run(&pool, &s);
            sink.stat(if late.ok { "real-clock/expired-ACCEPTED" } else { "real-clock/expired-err" });
            sink.oracle(!late.ok, "a layout that had expired by the time of the call was accepted (system clock; an earlier verification in the same process took place before it expired)", &late.op);
            if prop == "C08" {
                sink.oracle(late.events.is_empty(), "an inspection of a layout that had expired by the time of the call was run (system clock)", &late.op);
            }
        }
        for k in ["SOURCE_DATE_EPOCH", "FAKETIME", "IN_TOTO_NOW", "NOW"] {
            std::env::remove_var(k);
        }
        *crate::e2e::REAL_CLOCK.lock().unwrap() = false;
    }
    if prop == "C06" {
        // how an expiry text becomes an instant: chrono's reader and the layout reader against Model/Time.lean
        crate::timegen::run_time_cases(sink, &mut r, if cfg.thorough { 20000 } else { 1500 });
    }
    // ---- a crowd: one delegating scenario (a chain of sub-layouts three deep, no inspections), verified by
    //      many threads at the very same time, again and again - each of them answers what one alone answers
    if prop == "C13" {
        let mut crowds = 0;
        let mut tries = 0;
        while crowds < (if cfg.thorough { 12 } else { 3 }) && tries < 60 {
            tries += 1;
            let mut g = Gen { r: &mut r, pool: &pool, insp_counter: 0, force_delegate: true, multi_party: false, co_delegate: false, now: base_now(), reuse_keys: vec![], inner_insp_always: false, same_material_pair: false };
            let s = g.valid(3, false);
            // (how deep the chain of delegations of this scenario really is)
            fn depth(d: &SDir) -> usize {
                d.subs.iter().map(|x| 1 + depth(&x.1)).max().unwrap_or(0)
            }
            if depth(&s.dir) < 3 || crate::e2e::has_inspections(&s.block, &s.dir) {
                continue;
            }
            let (alone, different) = crate::e2e::run_crowd(&pool, &s, 16, 12);
            if !alone.starts_with("ok") {
                continue;
            }
            crowds += 1;
            sink.stat(&format!("crowd/{}", if different.is_empty() { "all-as-alone" } else { "DIFFERENT" }));
            let replay = format!("crowd of 16 threads x 12 rounds; layout {} ; alone: {} ; in the crowd also: {}", crate::proto::hex(crate::e2e::block_text(&pool, &s.block).as_bytes()), alone.chars().take(40).collect::<String>(), different.first().cloned().unwrap_or_default());
            sink.oracle(different.is_empty(), "verified by many threads at the same time, the same input (a chain of sub-layouts) gets a different result than verified alone", &replay);
        }
        sink.stat(&format!("crowd/scenarios={}", crowds));
    }
}
