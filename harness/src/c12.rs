//! C12: key identity (key ids, constructors, SPKI import/export, key tables).
use crate::c04::keyid_hex;
use crate::meta::{key_pool_all_sizes, keys_dir, KeyInfo};
use crate::model::Model;
use crate::proto::{guarded, hex, hexs, unhex, Sink};
use crate::rng::Rng;
use crate::Cfg;
use in_toto::crypto::{PrivateKey, KeyType, PublicKey, SignatureScheme};
use in_toto::models::{LayoutMetadata, LayoutMetadataBuilder};
use serde_json::{json, Value};

/// a key id as the text it is (not through the type's own notion of equality)
fn keyid_text(id: &in_toto::crypto::KeyId) -> String {
    serde_json::to_value(id).ok().and_then(|v| v.as_str().map(String::from)).unwrap_or_default()
}

fn type_name(t: &KeyType) -> &'static str {
    match t {
        KeyType::Ed25519 => "ed25519",
        KeyType::Rsa => "rsa",
        KeyType::Ecdsa => "ecdsa",
        _ => "unknown",
    }
}

fn scheme_name(s: &SignatureScheme) -> String {
    serde_json::to_value(s).ok().and_then(|v| v.as_str().map(|x| x.to_string())).unwrap_or_else(|| "?".into())
}

fn algs_of(k: &PublicKey) -> Option<Vec<String>> {
    serde_json::to_value(k).unwrap().get("keyid_hash_algorithms").and_then(|v| v.as_array().map(|a| a.iter().map(|x| x.as_str().unwrap().to_string()).collect()))
}

/// the key id recomputed by the model (own SHA-256, base64, DER) from the four components
fn keyid_case(sink: &mut Sink, k: &PublicKey, class: &str) {
    let algs = algs_of(k);
    let op = format!(
        "keyid {} {} {} {}",
        type_name(k.typ()),
        hexs(&scheme_name(k.scheme())),
        algs.as_ref().map(|a| a.iter().map(|x| hexs(x)).collect::<Vec<_>>().join(",")).unwrap_or_else(|| "~".into()),
        hex(k.as_bytes())
    );
    sink.op(&op, &keyid_hex(k), true);
    sink.stat(&format!("keyid/{}/{}", class, type_name(k.typ())));
}

fn scheme_for(t: &str) -> SignatureScheme {
    match t {
        "ed25519" => SignatureScheme::Ed25519,
        "ecdsa" => SignatureScheme::EcdsaP256Sha256,
        _ => SignatureScheme::RsaSsaPssSha256,
    }
}

fn spki_dec_case(sink: &mut Sink, model: &mut Model, der: &[u8], class: &str) {
    let op = format!("spki_dec {}", hex(der));
    let m = model.ask(&op);
    // the importer needs a scheme; use the one that fits the type the model reads (any when it rejects)
    let schemes: Vec<SignatureScheme> = match m.split(' ').nth(1) {
        Some(t) => vec![scheme_for(t)],
        None => vec![SignatureScheme::Ed25519, SignatureScheme::EcdsaP256Sha256, SignatureScheme::RsaSsaPssSha256],
    };
    let mut ans = "reject".to_string();
    for s in schemes {
        let d = der.to_vec();
        match guarded(move || PublicKey::from_spki(&d, s)) {
            Err(()) => {
                ans = "panic".into();
                break;
            }
            Ok(Ok(k)) => {
                ans = format!("ok {} {}", type_name(k.typ()), hex(k.as_bytes()));
                break;
            }
            Ok(Err(_)) => {}
        }
    }
    sink.stat(&format!("spki_dec/{}/{}", class, ans.split(' ').next().unwrap()));
    sink.oracle(ans != "panic", "SPKI import panicked", &op);
    sink.op(&op, &ans, der.len() > 10);
}

/// the SubjectPublicKeyInfo of a made-up RSA key with a modulus of `nbytes` bytes (e = 65537)
pub fn made_up_rsa_spki(r: &mut Rng, model: &mut Model, nbytes: usize) -> Option<Vec<u8>> {
    let mut modulus = r.bytes(nbytes);
    modulus[0] |= 0x80;
    let last = modulus.len() - 1;
    modulus[last] |= 1;
    let der_int = |mag: &[u8]| -> Vec<u8> {
        let mut c = vec![];
        if mag[0] & 0x80 != 0 {
            c.push(0);
        }
        c.extend_from_slice(mag);
        let mut out = vec![0x02];
        if c.len() < 0x80 { out.push(c.len() as u8) } else if c.len() < 0x100 { out.extend([0x81, c.len() as u8]) } else { out.extend([0x82, (c.len() >> 8) as u8, c.len() as u8]) }
        out.extend(c);
        out
    };
    let mut body = der_int(&modulus);
    body.extend(der_int(&[1, 0, 1]));
    let mut pkcs1 = vec![0x30];
    if body.len() < 0x80 { pkcs1.push(body.len() as u8) } else if body.len() < 0x100 { pkcs1.extend([0x81, body.len() as u8]) } else { pkcs1.extend([0x82, (body.len() >> 8) as u8, body.len() as u8]) }
    pkcs1.extend(body);
    unhex(&model.ask(&format!("spki_enc rsa {}", hex(&pkcs1))))
}

pub fn run(cfg: &Cfg) {
    let mut sink = Sink::new(&cfg.out);
    let mut r = Rng::new(cfg.seed);
    let mut model = Model::start();
    let pool = key_pool_all_sizes(if cfg.thorough { 40 } else { 6 });
    let sha2 = Some(vec!["sha256".to_string(), "sha512".to_string()]);

    for k in &pool {
        let p = k.public();
        keyid_case(&mut sink, p, "pool");
        let replay = format!("key {}", k.label);
        // ---- same id however obtained (same four components)
        let id = keyid_hex(p);
        // JSON round trip
        let j = serde_json::to_value(p).unwrap();
        let back: PublicKey = serde_json::from_value(j.clone()).unwrap();
        sink.oracle(keyid_hex(&back) == id && back == *p, "key id or key changes in a JSON round trip", &replay);
        sink.oracle(j["keyid"].as_str() == Some(id.as_str()), "serialised keyid member differs from the key id", &replay);
        // the same key in the spellings its type does not use, under every type / scheme name and with
        // other hash-algorithm lists: accepted or not, and with which id, as Model/KeyJson.lean says
        for v in crate::c16_doc::respelled_keys(p) {
            crate::c16_doc::key_case(&mut sink, &v, "respelled");
        }
        // SPKI export / import
        let spki = p.as_spki().unwrap();
        match PublicKey::from_spki(&spki, p.scheme().clone()) {
            Ok(k2) => sink.oracle(keyid_hex(&k2) == id, "key id changes through SPKI export/import", &replay),
            Err(_) => sink.oracle(false, "the library cannot import the SPKI it exported", &replay),
        }
        let pem_text = pem::encode(&pem::Pem::new("PUBLIC KEY", spki.clone()));
        match guarded({ let t = pem_text.clone(); let s = p.scheme().clone(); move || PublicKey::from_pem_spki(&t, s) }) {
            Ok(Ok(k3)) => sink.oracle(keyid_hex(&k3) == id, "key id changes through PEM import", &replay),
            Ok(Err(_)) => sink.oracle(false, "the library cannot import the PEM of its own SPKI", &replay),
            Err(()) => sink.oracle(false, "PEM import panicked", &replay),
        }
        // raw-bytes constructors with the same hash-algorithm list
        match p.typ() {
            KeyType::Ed25519 => {
                let k4 = PublicKey::from_ed25519_with_keyid_hash_algorithms(p.as_bytes().to_vec(), sha2.clone()).unwrap();
                sink.oracle(keyid_hex(&k4) == id, "raw-bytes ed25519 constructor gives another id for the same description", &replay);
                for odd in [vec!["sha512", "sha256"], vec!["sha256", "sha256"], vec!["zz", "aa"], vec![]] {
                    let odd: Vec<String> = odd.into_iter().map(String::from).collect();
                    if let Ok(k6) = PublicKey::from_ed25519_with_keyid_hash_algorithms(p.as_bytes().to_vec(), Some(odd.clone())) {
                        sink.oracle(algs_of(&k6) == Some(odd.clone()), "a key constructed with a hash-algorithm list describes itself with another list", &replay);
                        if !odd.is_empty() {
                            keyid_case(&mut sink, &k6, "raw-odd-algs");
                        }
                    }
                }
                keyid_case(&mut sink, &PublicKey::from_ed25519(p.as_bytes().to_vec()).unwrap(), "raw-no-algs");
                // derivation from the private key given as seed + public key (64 bytes): the same key,
                // the id of the description without a hash-algorithm list
                if k.pk8.len() == 83 && k.pk8[..16] == [0x30, 0x51, 0x02, 0x01, 0x01, 0x30, 0x05, 0x06, 0x03, 0x2b, 0x65, 0x70, 0x04, 0x22, 0x04, 0x20] {
                    let mut raw = k.pk8[16..48].to_vec();
                    raw.extend_from_slice(&k.pk8[51..83]);
                    match guarded(move || in_toto::crypto::PrivateKey::from_ed25519(&raw)) {
                        Ok(Ok(sk)) => {
                            let want = PublicKey::from_ed25519(p.as_bytes().to_vec()).unwrap();
                            sink.oracle(sk.public() == &want && keyid_hex(sk.public()) == keyid_hex(&want), "the key derived from an ed25519 seed + public key is not the key its public part describes", &replay);
                            keyid_case(&mut sink, sk.public(), "from-seed");
                            // and it signs for that key
                            let sig = sk.sign(b"itv").ok();
                            sink.oracle(sig.as_ref().map_or(false, |s| p.verify(b"itv", s).is_ok() && s.key_id() == sk.public().key_id()), "a signature by the key derived from seed + public key does not verify under the public key", &replay);
                        }
                        _ => sink.oracle(false, "PrivateKey::from_ed25519 rejects a valid seed + public key", &replay),
                    }
                }
            }
            KeyType::Ecdsa => {
                let k4 = PublicKey::from_ecdsa_with_keyid_hash_algorithms(p.as_bytes().to_vec(), sha2.clone()).unwrap();
                sink.oracle(keyid_hex(&k4) == id, "raw-bytes ecdsa constructor gives another id for the same description", &replay);
                for odd in [vec!["sha512", "sha256"], vec!["sha256", "sha256"], vec!["zz", "aa"], vec![]] {
                    let odd: Vec<String> = odd.into_iter().map(String::from).collect();
                    if let Ok(k6) = PublicKey::from_ecdsa_with_keyid_hash_algorithms(p.as_bytes().to_vec(), Some(odd.clone())) {
                        sink.oracle(algs_of(&k6) == Some(odd.clone()), "a key constructed with a hash-algorithm list describes itself with another list", &replay);
                        if !odd.is_empty() {
                            keyid_case(&mut sink, &k6, "raw-odd-algs");
                        }
                    }
                }
                keyid_case(&mut sink, &PublicKey::from_ecdsa(p.as_bytes().to_vec()).unwrap(), "raw-no-algs");
            }
            _ => {}
        }
        // the derivation from the private key is `k.public()` itself; reload and compare
        sink.oracle(keyid_hex(k.reload().public()) == id, "key id differs between two loads of the same private key", &replay);

        // ---- standards-conformant SPKI: produced by the model's DER writer (checked against openssl's
        // output for the fixture keys below), must import and re-export unchanged
        let std = unhex(&model.ask(&format!("spki_enc {} {}", type_name(p.typ()), hex(p.as_bytes())))).unwrap();
        match PublicKey::from_spki(&std, p.scheme().clone()) {
            Err(_) => sink.oracle(false, &format!("a standards-conformant {} SubjectPublicKeyInfo is rejected", type_name(p.typ())), &format!("spki_dec {}", hex(&std))),
            Ok(k5) => {
                sink.oracle(k5.as_bytes() == p.as_bytes(), "import of a standard SPKI yields other key bytes", &replay);
                sink.oracle(k5.as_spki().ok().as_deref() == Some(&std[..]), &format!("a standards-conformant {} SubjectPublicKeyInfo is not re-exported unchanged", type_name(p.typ())), &format!("spki_dec {}", hex(&std)));
            }
        }
        sink.op(&format!("spki_enc {} {}", type_name(p.typ()), hex(p.as_bytes())), &hex(&spki), true);
        spki_dec_case(&mut sink, &mut model, &std, "standard");
        spki_dec_case(&mut sink, &mut model, &spki, "exported");
        // mutations of the DER
        for _ in 0..(if cfg.thorough { 40 } else { 12 }) {
            let mut d = std.clone();
            match r.below(4) {
                0 => {
                    let i = r.below(d.len().min(24));
                    d[i] = r.next() as u8;
                }
                1 => {
                    let n = r.below(d.len());
                    d.truncate(n);
                }
                2 => d.push(r.next() as u8),
                _ => {
                    let i = r.below(d.len().min(24));
                    d.insert(i, *r.pick(&[0x00u8, 0x05, 0x30, 0x06, 0x81, 0x82, 0x03]));
                }
            }
            spki_dec_case(&mut sink, &mut model, &d, "mutated");
        }
    }
    // fixture SPKIs written by openssl (rsa, ecdsa) must equal the model's standard encoding
    for (file, t) in [("rsa-2048.spki.der", "rsa"), ("rsa-3072.spki.der", "rsa"), ("rsa-4096.spki.der", "rsa"), ("rsa-8192.spki.der", "rsa"), ("rsa-2048-e80000003.spki.der", "rsa"), ("ec.spki.der", "ecdsa")] {
        let der = std::fs::read(keys_dir().join(file)).unwrap();
        let k = match guarded({ let d = der.clone(); move || PublicKey::from_spki(&d, scheme_for(t)) }) {
            Ok(Ok(k)) => k,
            _ => {
                sink.oracle(false, "a standards-conformant SubjectPublicKeyInfo written by openssl is rejected", &format!("spki_dec {}", hex(&der)));
                spki_dec_case(&mut sink, &mut model, &der, "fixture");
                continue;
            }
        };
        let std = model.ask(&format!("spki_enc {} {}", t, hex(k.as_bytes())));
        sink.oracle(std == hex(&der), "the model's standard SPKI differs from the openssl-written fixture", file);
        spki_dec_case(&mut sink, &mut model, &der, "fixture");
        // the same key derived from its private half (when the fixture has one) is the same key
        let pk8 = keys_dir().join(file.replace(".spki.der", ".pk8.der"));
        if let Ok(pk8_bytes) = std::fs::read(&pk8) {
            if let Ok(Ok(private)) = guarded({ let b = pk8_bytes.clone(); move || PrivateKey::from_pkcs8(&b, scheme_for(t)) }) {
                sink.oracle(keyid_hex(private.public()) == keyid_hex(&k) && *private.public() == k && private.public().as_bytes() == k.as_bytes(),
                    "the public key derived from a private key differs from the same key imported from its SubjectPublicKeyInfo", file);
                if let Ok(sig) = private.sign(b"message") {
                    sink.oracle(k.verify(b"message", &sig).is_ok(), "a signature by a private key does not verify under its imported public key", file);
                }
            }
        }
        // every construction path of the public key alone (covers sizes the library cannot sign with)
        keyid_case(&mut sink, &k, "fixture");
        let id = keyid_hex(&k);
        sink.oracle(k.as_spki().ok().as_deref() == Some(&der[..]), "a standards-conformant SubjectPublicKeyInfo is not re-exported unchanged", file);
        let pem_text = pem::encode(&pem::Pem::new("PUBLIC KEY", der.clone()));
        match guarded({ let t2 = pem_text.clone(); move || PublicKey::from_pem_spki(&t2, scheme_for(t)) }) {
            Ok(Ok(k3)) => sink.oracle(keyid_hex(&k3) == id && k3 == k, "key or key id changes through PEM import", file),
            _ => sink.oracle(false, "the PEM form of a standards-conformant SubjectPublicKeyInfo is rejected", file),
        }
        let j = serde_json::to_value(&k).unwrap();
        match guarded({ let j2 = j.clone(); move || serde_json::from_value::<PublicKey>(j2) }) {
            Ok(Ok(back)) => sink.oracle(keyid_hex(&back) == id && back == k, "key id or key changes in a JSON round trip", file),
            _ => sink.oracle(false, "a public key does not survive its own JSON form", file),
        }
        match LayoutMetadataBuilder::new().add_key(k.clone()).build().ok().and_then(|l| serde_json::to_value(&l).ok()).and_then(|v| serde_json::from_value::<LayoutMetadata>(v).ok()) {
            Some(l2) => sink.oracle(l2.keys.values().any(|x| *x == k), "a key is lost from the key table in a layout round trip", file),
            None => sink.oracle(false, "a layout listing a supported key does not survive the wire", file),
        }
    }
    // ---- RSA keys of every length: 49 consecutive modulus sizes (every residue of the DER length modulo the
    //      48 bytes a line of PEM holds, every residue modulo 3 of the base64 padding), made up for the
    //      purpose - they need not be usable for signing to be keys with a description, an id and a wire form
    for nbytes in (256usize..=304).chain([129, 384, 432, 512, 513]) {
        let spki = match made_up_rsa_spki(&mut r, &mut model, nbytes) {
            Some(b) => b,
            None => continue,
        };
        let replay = format!("spki_dec {}", hex(&spki));
        let k = match guarded({ let d = spki.clone(); move || PublicKey::from_spki(&d, SignatureScheme::RsaSsaPssSha256) }) {
            Ok(Ok(k)) => k,
            Ok(Err(_)) => {
                sink.stat("rsa-sizes/rejected");
                continue;
            }
            Err(()) => {
                sink.oracle(false, "importing an RSA SubjectPublicKeyInfo panicked", &replay);
                continue;
            }
        };
        sink.stat(&format!("rsa-sizes/der-length-mod-48={}", spki.len() % 48));
        keyid_case(&mut sink, &k, "rsa-sizes");
        sink.oracle(k.as_spki().ok().as_deref() == Some(&spki[..]), "an RSA SubjectPublicKeyInfo is not re-exported unchanged", &replay);
        let id = keyid_hex(&k);
        let j = serde_json::to_value(&k).unwrap();
        match guarded({ let j2 = j.clone(); move || serde_json::from_value::<PublicKey>(j2) }) {
            Ok(Ok(back)) => sink.oracle(keyid_hex(&back) == id && back == k, "key id or key changes in a JSON round trip", &replay),
            _ => sink.oracle(false, "a public key does not survive its own JSON form", &replay),
        }
        let pem_text = pem::encode(&pem::Pem::new("PUBLIC KEY", spki.clone()));
        match guarded({ let t2 = pem_text.clone(); move || PublicKey::from_pem_spki(&t2, SignatureScheme::RsaSsaPssSha256) }) {
            Ok(Ok(k3)) => sink.oracle(keyid_hex(&k3) == id && k3 == k, "key or key id changes through PEM import", &replay),
            _ => sink.oracle(false, "the PEM form of an RSA SubjectPublicKeyInfo is rejected", &replay),
        }
        match LayoutMetadataBuilder::new().add_key(k.clone()).build().ok().and_then(|l| serde_json::to_value(&l).ok()).and_then(|v| serde_json::from_value::<LayoutMetadata>(v).ok()) {
            Some(l2) => sink.oracle(l2.keys.values().any(|x| *x == k), "a key is lost from the key table in a layout round trip", &replay),
            None => sink.oracle(false, "a layout listing an RSA key does not survive the wire", &replay),
        }
    }
    // the (non-standard, NULL-parameter) ed25519 fixture of the repo must keep importing
    let der = std::fs::read(keys_dir().join("ed25519-1.spki.der")).unwrap();
    sink.oracle(PublicKey::from_spki(&der, SignatureScheme::Ed25519).is_ok(), "the repo's ed25519 fixture SPKI no longer imports", "ed25519-1.spki.der");
    spki_dec_case(&mut sink, &mut model, &der, "fixture");

    // ---- PEM texts against Model/Pem.lean (the `pem` crate's reader + canonical base64)
    let mut pem_case = |sink: &mut Sink, text: &str, class: &str| {
        let t = text.to_string();
        let ans = match guarded(move || pem::parse(t.as_bytes())) {
            Err(()) => {
                sink.oracle(false, "the PEM reader panicked", &format!("pem_dec {}", hexs(text)));
                return;
            }
            Ok(Ok(p)) => format!("ok {} {}", hexs(p.tag()), hex(p.contents())),
            Ok(Err(_)) => "none".to_string(),
        };
        sink.stat(&format!("pem_dec/{}/{}", class, ans.split(' ').next().unwrap()));
        sink.op(&format!("pem_dec {}", hexs(text)), &ans, text.len() > 20);
    };
    for t in ["", "-----BEGIN X-----\n-----END X-----", "-----BEGIN X-----\nQQ==\n-----END X-----\n", "-----BEGIN X-----QQ==-----END X-----", "-----BEGIN X-----\nQQ=\n-----END X-----",
        "-----BEGIN X-----\nQQ\n-----END X-----", "-----BEGIN X-----\nQR==\n-----END X-----", "-----BEGIN X-----\nQUI=\n-----END X-----", "-----BEGIN X-----\nQUJ=\n-----END X-----",
        "-----BEGIN X-----\nQUJD\n-----END X-----", "-----BEGIN X-----\nQU JD\n-----END X-----", "-----BEGIN X-----\nQU\u{a0}JD\n-----END X-----", "-----BEGIN X-----\nQ=JD\n-----END X-----",
        "-----BEGIN X-----\nQUJD====\n-----END X-----", "-----BEGIN X-----\nQUJDQQ==QUJD\n-----END X-----", "-----BEGIN X-----\nQUJD\n-----END Y-----", "-----BEGIN -----\nQUJD\n-----END -----",
        "------BEGIN X-----\nQUJD\n-----END X-----", "junk -----BEGIN X-----\nQUJD\n-----END X----- trailing", "-----BEGIN X-----\nK: v\n\nQUJD\n-----END X-----", "-----BEGIN X-----\nnocolon\n\nQUJD\n-----END X-----",
        "-----BEGIN X-----\r\nK: v\r\n\r\nQUJD\r\n-----END X-----\r\n", "-----BEGIN X-----\nQUJD\n------END X-----", "-----BEGIN X-----\nQUJD\n-----END X----", "-----BEGIN X----\nQUJD\n-----END X-----",
        "-----BEGIN X-----\nQUJD-----END X-----", "-----BEGIN X-----\n----QUJD\n-----END X-----", "-----BEGIN X-----\nQUJ_\n-----END X-----", "-----BEGIN X-----\nQUJD\n-----END X-----\n-----BEGIN Y-----\nQQ==\n-----END Y-----",
        "-----BEGIN \u{e9}-----\nQUJD\n-----END \u{e9}-----", "-----BEGIN X-----\n\n\nQUJD\n-----END X-----", "-----BEGIN X-----\nA: b\n\nC: d\n\nQUJD\n-----END X-----", "-----BEGIN X-----\n+/+/\n-----END X-----"] {
        pem_case(&mut sink, t, "corpus");
    }
    for k in &pool {
        if let Ok(spki) = k.public().as_spki() {
            let written = pem::encode(&pem::Pem::new("PUBLIC KEY", spki.clone())).replace("\r\n", "\n").trim().to_string();
            pem_case(&mut sink, &written, "written");
            pem_case(&mut sink, &pem::encode(&pem::Pem::new("PUBLIC KEY", spki.clone())), "written-crlf");
            for _ in 0..(if cfg.thorough { 60 } else { 12 }) {
                let mut cs: Vec<char> = written.chars().collect();
                let alphabet: Vec<char> = "-=+/ \n\r\tABab01:E\u{a0}\u{e9}_".chars().collect();
                let pos = r.below(cs.len() + 1);
                match r.below(4) {
                    0 if pos < cs.len() => {
                        cs.remove(pos);
                    }
                    1 if pos < cs.len() => cs[pos] = *r.pick(&alphabet),
                    2 => cs.insert(pos, *r.pick(&alphabet)),
                    _ => {
                        // an edit close to the framing: the first or the last 40 characters
                        let near = if r.chance(1, 2) { r.below(40.min(cs.len())) } else { cs.len() - 1 - r.below(40.min(cs.len())) };
                        cs[near] = *r.pick(&alphabet);
                    }
                }
                let t: String = cs.into_iter().collect();
                pem_case(&mut sink, &t, "edited");
            }
        }
    }
    for _ in 0..(if cfg.thorough { 4000 } else { 400 }) {
        // short random blocks: every padding and trailing-bit situation
        let n = r.below(7);
        let body: String = (0..n).map(|_| *r.pick(&['Q', 'U', 'J', 'D', 'R', 'A', '=', '=', '/', '+', 'x', '\n'])).collect();
        pem_case(&mut sink, &format!("-----BEGIN T-----\n{}\n-----END T-----", body), "random-body");
    }
    // ---- SHA-256 of the model against ring (lengths around the padding boundaries)
    for n in (0..200).chain([255usize, 256, 257, 1000, 4096]) {
        let b = r.bytes(n);
        sink.op(&format!("sha256 {}", hex(&b)), &hex(ring::digest::digest(&ring::digest::SHA256, &b).as_ref()), true);
    }
    // ---- key tables filed under wrong ids
    let n = if cfg.thorough { 2000 } else { 200 };
    for _ in 0..n {
        let a = r.pick(&pool);
        let b = r.pick(&pool);
        let l: LayoutMetadata = LayoutMetadataBuilder::new().add_key(a.public().clone()).add_key(b.public().clone()).build().unwrap();
        let mut j = serde_json::to_value(&l).unwrap();
        let (ida, idb) = (keyid_hex(a.public()), keyid_hex(b.public()));
        let mut ka = j["keys"][&ida].clone();
        let mut kb = j["keys"][&idb].clone();
        let mut wrong = hex(&r.bytes(32));
        // ids of the *same material* under another description (no hash-algorithm list, a shorter
        // list, another scheme name): related to the key, but not its id. Computed by the model.
        if r.chance(1, 2) {
            let algs = match r.below(3) {
                0 => "~".to_string(),
                1 => hexs("sha256"),
                _ => format!("{},{}", hexs("sha512"), hexs("sha256")),
            };
            let scheme = if r.chance(1, 4) { hexs("rsassa-pss-sha512") } else { hexs(&scheme_name(a.public().scheme())) };
            let rel = model.ask(&format!("keyid {} {} {} {}", type_name(a.public().typ()), scheme, algs, hex(a.public().as_bytes())));
            if rel.len() == 64 && rel != ida {
                wrong = rel;
            }
        }
        // the key's own id in another spelling (hex letters in upper case, or only some of them): to a
        // reader of hexadecimal numbers the same number, as an identifier another string
        if r.chance(1, 4) {
            let respelled: String = if r.chance(1, 2) { ida.to_uppercase() } else { ida.chars().map(|c| if r.chance(1, 2) { c.to_ascii_uppercase() } else { c }).collect() };
            if respelled != ida {
                wrong = respelled;
            }
        }
        // the optional `keyid` member inside a key description: as written, absent, another key's id,
        // an unrelated id - it never decides what the key's id is
        for (k, other) in [(&mut ka, &idb), (&mut kb, &ida)] {
            match r.below(5) {
                0 => {
                    k.as_object_mut().unwrap().remove("keyid");
                }
                1 => k["keyid"] = Value::String(other.clone()),
                2 => k["keyid"] = Value::String(wrong.clone()),
                _ => {}
            }
        }
        // a key description read on its own has the id of its material
        for (k, id) in [(&ka, &ida), (&kb, &idb)] {
            if let Ok(pk) = serde_json::from_value::<PublicKey>(k.clone()) {
                sink.oracle(keyid_hex(&pk) == *id, "a key read from JSON reports an id that is not the id of its key material", &format!("key {}", hex(k.to_string().as_bytes())));
                keyid_case(&mut sink, &pk, "parsed");
            }
        }
        let mut table = serde_json::Map::new();
        match r.below(4) {
            0 => {
                table.insert(wrong.clone(), ka.clone()); // unrelated id
            }
            1 => {
                table.insert(idb.clone(), ka.clone()); // another key's id
                table.insert(wrong.clone(), kb.clone());
            }
            2 => {
                table.insert(ida.clone(), ka.clone()); // right
                table.insert(wrong.clone(), ka.clone()); // and an alias of the same key
            }
            _ => {
                table.insert(ida.clone(), ka.clone());
                table.insert(idb.clone(), kb.clone());
            }
        }
        j["keys"] = Value::Object(table);
        let text = j.to_string();
        match serde_json::from_str::<LayoutMetadata>(&text) {
            Err(_) => sink.stat("keytable/rejected"),
            Ok(parsed) => {
                // the id of a key is the one the pool derived from the same material (private-key load path)
                let intrinsic = |k: &PublicKey| pool.iter().find(|p| p.public().as_bytes() == k.as_bytes() && p.public().typ() == k.typ() && p.public().scheme() == k.scheme()).map(|p| keyid_hex(p.public()));
                let ok = parsed.keys.iter().all(|(id, k)| id == k.key_id() && keyid_text(id) == keyid_hex(k) && Some(serde_json::to_value(id).unwrap().as_str().unwrap().to_string()) == intrinsic(k));
                sink.oracle(ok, "a parsed layout's key table maps an id to a key with another intrinsic id", &format!("layout {}", hex(text.as_bytes())));
                sink.stat(&format!("keytable/kept-{}", parsed.keys.len()));
            }
        }
    }
    // ---- a signature labelled with a related id (same material, other description) is not a signature
    //      of the key: it must neither be accepted alone nor count next to the properly labelled one
    for _ in 0..(if cfg.thorough { 400 } else { 40 }) {
        let a = r.pick(&pool);
        let link = crate::meta::gen_link(&mut r, None);
        let mb = match in_toto::models::Metablock::new(in_toto::models::MetadataWrapper::Link(link), &[&a.key]) {
            Ok(m) => m,
            Err(_) => continue,
        };
        let algs = if r.chance(1, 2) { "~".to_string() } else { hexs("sha256") };
        let rel = model.ask(&format!("keyid {} {} {} {}", type_name(a.public().typ()), hexs(&scheme_name(a.public().scheme())), algs, hex(a.public().as_bytes())));
        let rel = if r.chance(1, 3) { keyid_hex(a.public()).to_uppercase() } else { rel };
        if rel.len() != 64 || rel == keyid_hex(a.public()) {
            continue;
        }
        let mut j = serde_json::to_value(&mb).unwrap();
        let sig0 = j["signatures"][0].clone();
        let mut relabelled = sig0.clone();
        relabelled["keyid"] = Value::String(rel.clone());
        for (sigs, t, what) in [
            (vec![relabelled.clone()], 1u32, "a signature labelled with a related id (same key material, other description) was accepted"),
            (vec![sig0.clone(), relabelled.clone()], 2u32, "one key's signature counted twice: under its id and under a related id"),
            (vec![relabelled.clone(), sig0.clone()], 2u32, "one key's signature counted twice: under its id and under a related id"),
        ] {
            j["signatures"] = Value::Array(sigs);
            let replay = format!("block {}", hex(j.to_string().as_bytes()));
            if let Ok(parsed) = serde_json::from_value::<in_toto::models::Metablock>(j.clone()) {
                let keys = vec![a.public().clone()];
                let res = crate::proto::guarded(move || parsed.verify(t, keys.iter()).is_ok());
                sink.oracle(res != Ok(true), what, &replay);
                sink.stat(&format!("related-label/{}", match res { Ok(true) => "ACCEPTED", Ok(false) => "rejected", Err(()) => "panic" }));
            }
        }
    }
    // ---- the key table a caller hands to final-product verification, with entries filed under a wrong or
    //      another key's identifier: a signature labelled X is checked against, and counted for, the key
    //      whose own identifier is X - not the key that happens to be filed under X
    {
        use chrono::TimeZone;
        use std::collections::HashMap;
        let tmp = tempfile::Builder::new().prefix("itv-c12-").tempdir().unwrap();
        let links = tmp.path().to_str().unwrap().to_string();
        let now = chrono::Utc.with_ymd_and_hms(2031, 5, 17, 12, 0, 0).unwrap();
        for i in 0..(if cfg.thorough { 200 } else { 24 }) {
            let a = r.pick(&pool);
            let x = r.pick(&pool);
            if keyid_hex(a.public()) == keyid_hex(x.public()) {
                continue;
            }
            // where the key is filed: under another key's id, or under an id no key has
            let wrong = if i % 2 == 0 { keyid_hex(x.public()) } else { format!("{:064x}", 0xf11ed + i as u64) };
            let layout = LayoutMetadataBuilder::new().expires(now + chrono::Duration::days(30)).readme(format!("table case {}", i)).build().unwrap();
            let mb = match in_toto::models::Metablock::new(in_toto::models::MetadataWrapper::Layout(layout), &[&a.key]) {
                Ok(m) => m,
                Err(_) => continue,
            };
            let honest = serde_json::to_value(&mb).unwrap();
            let mut forged = honest.clone();
            forged["signatures"][0]["keyid"] = Value::String(wrong.clone());
            let wrong_id: in_toto::crypto::KeyId = serde_json::from_value(Value::String(wrong.clone())).unwrap();
            let verify = |doc: &Value, keys: HashMap<in_toto::crypto::KeyId, PublicKey>| -> Result<bool, ()> {
                let d = doc.clone();
                let l = links.clone();
                guarded(std::panic::AssertUnwindSafe(move || {
                    in_toto::verif_hooks::set_now(Some(now));
                    let r = serde_json::from_value::<in_toto::models::Metablock>(d).ok().map(|m| in_toto::verifylib::in_toto_verify(&m, keys, &l, None).is_ok());
                    in_toto::verif_hooks::set_now(None);
                    r.unwrap_or(false)
                }))
            };
            let proper: HashMap<_, _> = [(a.public().key_id().clone(), a.public().clone())].into_iter().collect();
            let misfiled: HashMap<_, _> = [(wrong_id.clone(), a.public().clone())].into_iter().collect();
            let replay = format!("caller-table: key {} filed under {} ; layout {}", keyid_hex(a.public()), wrong, hex(honest.to_string().as_bytes()));
            // (the control: properly filed and properly labelled)
            let control = verify(&honest, proper.clone());
            sink.oracle(control == Ok(true), "a layout signed by the one supplied key, properly filed, is refused", &replay);
            // the signature labelled with the wrong id: it names no key whose identifier that is
            let f1 = verify(&forged, misfiled.clone());
            sink.oracle(f1 != Ok(true), "a layout signature labelled X was checked against and counted for the key that the caller's table files under X (its own identifier is another)", &replay);
            let f2 = verify(&forged, proper.clone());
            sink.oracle(f2 != Ok(true), "a layout signature labelled with another identifier than its key's was counted for that key", &replay);
            // the key filed under a wrong id still answers to its own identifier
            let h = verify(&honest, misfiled.clone());
            sink.oracle(h == control, "the supplied key's own, properly labelled signature is not counted when the caller's table files the key under another identifier", &replay);
            sink.stat(&format!("caller-table/{}/forged-{}/honest-{}", if i % 2 == 0 { "under-another-keys-id" } else { "under-an-id-of-no-key" }, match f1 { Ok(true) => "ACCEPTED", Ok(false) => "refused", Err(()) => "panic" }, match h { Ok(true) => "accepted", Ok(false) => "REFUSED", Err(()) => "panic" }));
        }
    }
    // ---- attribution inside whole verifications: evidence filed under, labelled with or signed by another key
    //      than the one it is counted for - at the root, in a step, in a delegated layout - never verifies
    crate::e2e_props::run_into(&mut sink, cfg, "C12", if cfg.thorough { 1200 } else { 100 });
    let _ = json!(0);
    sink.finish(&cfg.out, serde_json::json!({}));
}

#[allow(dead_code)]
fn unused(_: &KeyInfo) {}
