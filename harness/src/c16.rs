//! C16: layouts, links and signed blocks survive a wire round trip; hand-written codecs vs the model.
use crate::jsongen::{gen_string, proto};
use crate::meta::{gen_byproducts, gen_layout, gen_link, gen_rule, key_pool};
use crate::proto::{guarded, hex, hexs, Sink};
use crate::rng::Rng;
use crate::Cfg;
use in_toto::interchange::{DataInterchange, Json, JsonPretty};
use in_toto::models::byproducts::ByProducts;
use in_toto::models::rule::ArtifactRule;
use in_toto::models::{LayoutMetadata, LinkMetadata, Metablock, MetadataWrapper};
use serde::de::DeserializeOwned;
use serde::Serialize;
use serde_json::{json, Value};

/// value -> compact and pretty text -> parse -> equal value, byte-identical re-serialisation
fn round_trip<T: Serialize + DeserializeOwned + PartialEq + std::fmt::Debug + 'static>(sink: &mut Sink, ty: &str, x: &T) -> bool {
    let mut all_ok = true;
    let j = match serde_json::to_value(x) {
        Ok(j) => j,
        Err(_) => {
            sink.stat(&format!("{}/unserialisable", ty));
            return false;
        }
    };
    let replay = format!("roundtrip {} {}", ty, proto(&j, &mut None));
    let compact = Json::canonicalize(&j).ok();
    let mut pretty = Vec::new();
    let pretty_ok = JsonPretty::to_writer(&mut pretty, x).is_ok();
    let plain = serde_json::to_string(x).unwrap();
    let pretty2 = serde_json::to_string_pretty(x).unwrap();
    let mut texts: Vec<(&str, Vec<u8>)> = vec![("to_string", plain.into_bytes()), ("to_string_pretty", pretty2.into_bytes())];
    if let Some(c) = compact.clone() {
        texts.push(("canonical", c));
    }
    if pretty_ok {
        texts.push(("JsonPretty", pretty));
    }
    for (how, text) in texts {
        let t2 = text.clone();
        match guarded(move || serde_json::from_slice::<T>(&t2)) {
            Err(()) => {
                sink.oracle(false, &format!("{}: parser panicked on the library's own output", ty), &replay);
                all_ok = false;
            }
            Ok(Err(_)) => {
                sink.oracle(false, &format!("{}: the library cannot parse what it serialised ({})", ty, how), &replay);
                all_ok = false;
            }
            Ok(Ok(back)) => {
                let same = back == *x;
                sink.oracle(same, &format!("{}: value changes in a wire round trip ({})", ty, how), &replay);
                let again = serde_json::to_value(&back).ok().and_then(|v| Json::canonicalize(&v).ok());
                sink.oracle(again == compact, &format!("{}: re-serialisation is not byte-identical ({})", ty, how), &replay);
                all_ok &= same && again == compact;
            }
        }
    }
    sink.stat(&format!("{}/{}", ty, if all_ok { "round-trips" } else { "FAILS" }));
    all_ok
}

/// the wrapper's own pair of entry points: `MetadataWrapper::to_bytes` writes what `from_bytes`,
/// `try_from_bytes` and `MetablockBuilder::from_raw_metadata` read back as the same value - and it writes
/// the canonical JSON of the value (what the trait method and the `Json` writer give)
fn wrapper_bytes_case(sink: &mut Sink, meta: &MetadataWrapper, class: &str) {
    use in_toto::models::{MetablockBuilder, MetadataType};
    let j = serde_json::to_value(meta).unwrap();
    let replay = format!("roundtrip MetadataWrapper::to_bytes {}", proto(&j, &mut None));
    let m2 = meta.clone();
    let bytes = match guarded(move || m2.to_bytes()) {
        Err(()) => {
            sink.oracle(false, "MetadataWrapper::to_bytes panicked", &replay);
            return;
        }
        Ok(Err(_)) => {
            sink.stat(&format!("wrapper-bytes/{}/unserialisable", class));
            return;
        }
        Ok(Ok(b)) => b,
    };
    let typ = match meta {
        MetadataWrapper::Layout(_) => MetadataType::Layout,
        MetadataWrapper::Link(_) => MetadataType::Link,
    };
    let readers: Vec<(&str, Box<dyn Fn(&[u8]) -> Option<MetadataWrapper>>)> = vec![
        ("from_bytes", Box::new(move |b: &[u8]| MetadataWrapper::from_bytes(b, typ).ok())),
        ("try_from_bytes", Box::new(|b: &[u8]| MetadataWrapper::try_from_bytes(b).ok())),
        ("MetablockBuilder::from_raw_metadata", Box::new(|b: &[u8]| MetablockBuilder::from_raw_metadata(b).ok().map(|x| x.build().metadata))),
    ];
    let mut all = true;
    for (name, rd) in &readers {
        let b2 = bytes.clone();
        match guarded(std::panic::AssertUnwindSafe(|| rd(&b2))) {
            Err(()) => {
                sink.oracle(false, &format!("{} panicked on the output of MetadataWrapper::to_bytes", name), &replay);
                all = false;
            }
            Ok(None) => {
                sink.oracle(false, &format!("{} cannot read what MetadataWrapper::to_bytes wrote", name), &replay);
                all = false;
            }
            Ok(Some(back)) => {
                sink.oracle(back == *meta, &format!("the value changes from MetadataWrapper::to_bytes to {}", name), &replay);
                all &= back == *meta;
            }
        }
    }
    let canonical = Json::canonicalize(&j).ok();
    sink.oracle(canonical.as_deref() == Some(&bytes[..]), "MetadataWrapper::to_bytes does not write the canonical JSON of the value", &replay);
    let via_trait = meta.clone().into_trait().to_bytes().ok();
    sink.oracle(via_trait.as_deref() == Some(&bytes[..]), "MetadataWrapper::to_bytes and Metadata::to_bytes write different bytes for one value", &replay);
    sink.stat(&format!("wrapper-bytes/{}/{}", class, if all { "round-trips" } else { "FAILS" }));
}

fn rule_dec_case(sink: &mut Sink, v: &Value, class: &str) {
    let v2 = v.clone();
    let ans = match guarded(move || serde_json::from_value::<ArtifactRule>(v2)) {
        Err(()) => "panic".to_string(),
        Ok(Err(_)) => "reject".to_string(),
        Ok(Ok(r)) => {
            let j = serde_json::to_value(&r).unwrap();
            let toks: Vec<String> = j.as_array().unwrap().iter().map(|t| hexs(t.as_str().unwrap())).collect();
            format!("ok {}", toks.join(" "))
        }
    };
    sink.stat(&format!("rule_dec/{}/{}", class, ans.split(' ').next().unwrap()));
    let op = format!("rule_dec {}", proto(v, &mut None));
    sink.oracle(ans != "panic", "rule parser panicked", &op);
    // never silently alters what it accepts: the re-serialised tokens are the input tokens
    if ans.starts_with("ok") {
        let r: ArtifactRule = serde_json::from_value(v.clone()).unwrap();
        sink.oracle(serde_json::to_value(&r).unwrap() == *v, "rule parser altered a token it accepted", &op);
    }
    sink.op(&op, &ans, v.as_array().map(|a| a.len() >= 2).unwrap_or(false));
}

fn bp_dec_case(sink: &mut Sink, v: &Value, class: &str) {
    let v2 = v.clone();
    let ans = match guarded(move || serde_json::from_value::<ByProducts>(v2)) {
        Err(()) => "panic".to_string(),
        Ok(Err(_)) => "reject".to_string(),
        Ok(Ok(b)) => {
            let o = |x: &Option<String>| x.as_ref().map(|s| format!("s{}", hexs(s))).unwrap_or_else(|| "~".into());
            let other: Vec<String> = b.other_fields().iter().map(|(k, v)| format!("{}={}", hexs(k), hexs(v))).collect();
            format!("ok {} {} {} {}", b.return_value().map(|i| i.to_string()).unwrap_or_else(|| "~".into()), o(b.stderr()), o(b.stdout()), other.join(","))
                .trim_end()
                .to_string()
        }
    };
    sink.stat(&format!("bp_dec/{}/{}", class, ans.split(' ').next().unwrap()));
    let op = format!("bp_dec {}", proto(v, &mut None));
    sink.oracle(ans != "panic", "byproducts parser panicked", &op);
    sink.op(&op, &ans, v.is_object());
}

fn gen_tokens(r: &mut Rng) -> Value {
    let kws = ["CREATE", "DELETE", "MODIFY", "ALLOW", "REQUIRE", "DISALLOW", "MATCH", "IN", "WITH", "FROM", "MATERIALS", "PRODUCTS", "create", "", "foo", "*"];
    let n = r.below(12);
    Value::Array(
        (0..n)
            .map(|_| match r.below(12) {
                0 => json!(1),
                1 => Value::Null,
                2 => Value::String(gen_string(r)),
                _ => Value::String(r.pick(&kws).to_string()),
            })
            .collect(),
    )
}

fn gen_bp_obj(r: &mut Rng) -> Value {
    let mut m = serde_json::Map::new();
    for _ in 0..r.below(5) {
        let k = match r.below(5) {
            0 => "return-value".to_string(),
            1 => "stdout".to_string(),
            2 => "stderr".to_string(),
            _ => gen_string(r),
        };
        let v = match r.below(8) {
            0 => Value::Null,
            1 => json!(*r.pick(&[0i64, -1, 255, 2147483647, 2147483648, -2147483648, -2147483649])),
            2 => json!(1.5),
            3 => json!([]),
            _ => Value::String(gen_string(r)),
        };
        m.insert(k, v);
    }
    Value::Object(m)
}

pub fn run(cfg: &Cfg) {
    let mut sink = Sink::new(&cfg.out);
    let mut r = Rng::new(cfg.seed);
    let pool = key_pool(1);
    let n = if cfg.thorough { 6000 } else { 500 };
    for i in 0..n {
        let mut r = r.at(i as u64);
        // ---- value level: everything obtainable from the builders
        let layout = gen_layout(&mut r, &pool);
        round_trip::<LayoutMetadata>(&mut sink, "LayoutMetadata", &layout);
        let link = gen_link(&mut r, None);
        round_trip::<LinkMetadata>(&mut sink, "LinkMetadata", &link);
        let nsig = r.below(3);
        let signers: Vec<&in_toto::crypto::PrivateKey> = (0..nsig).map(|_| &r.pick(&pool).key).collect();
        let meta = if i % 2 == 0 { MetadataWrapper::Layout(layout.clone()) } else { MetadataWrapper::Link(link.clone()) };
        if let Ok(mb) = Metablock::new(meta.clone(), &signers) {
            round_trip::<Metablock>(&mut sink, "Metablock", &mb);
            for s in &mb.signatures {
                round_trip::<in_toto::crypto::Signature>(&mut sink, "Signature", s);
            }
        }
        round_trip::<MetadataWrapper>(&mut sink, "MetadataWrapper", &meta);
        wrapper_bytes_case(&mut sink, &meta, "generated");
        if i % 10 == 0 {
            // (captured tool output: line ends, tabs, a bell, an escape sequence of a terminal)
            let t = *r.pick(&["line one\nline two\n", "col\tcol", "\u{7}done", "\u{1b}[1mbold\u{1b}[0m", "cr\r\n", "\u{0}", "quote \" and backslash \\ and \u{e9}"]);
            wrapper_bytes_case(&mut sink, &crate::c11::link_with(t), "control-characters");
        }
        for k in layout.keys.values() {
            round_trip::<in_toto::crypto::PublicKey>(&mut sink, "PublicKey", k);
            // the key description against Model/KeyJson.lean: as written, and mutated
            let kj = serde_json::to_value(k).unwrap();
            crate::c16_doc::key_case(&mut sink, &kj, "valid");
            for _ in 0..2 {
                let m = crate::c16_doc::mutate(&kj, &mut r);
                crate::c16_doc::key_case(&mut sink, &m, "mutated");
            }
            if i % 8 == 0 {
                for m in crate::c16_doc::respelled_keys(k) {
                    crate::c16_doc::key_case(&mut sink, &m, "respelled");
                }
            }
        }
        for st in &layout.steps {
            round_trip::<in_toto::models::step::Step>(&mut sink, "Step", st);
        }
        for ins in &layout.inspect {
            round_trip::<in_toto::models::inspection::Inspection>(&mut sink, "Inspection", ins);
        }
        let names: Vec<String> = vec!["s0".into(), gen_string(&mut r)];
        let rule = gen_rule(&mut r, &names);
        round_trip::<ArtifactRule>(&mut sink, "ArtifactRule", &rule);
        rule_dec_case(&mut sink, &serde_json::to_value(&rule).unwrap(), "valid");
        // the same rule with its keywords in other letter cases (all of them, and one at a time): refused, or
        // read as written - never rewritten into the upper-case spelling
        if let Value::Array(toks) = serde_json::to_value(&rule).unwrap() {
            const KW: [&str; 12] = ["CREATE", "DELETE", "MODIFY", "ALLOW", "REQUIRE", "DISALLOW", "MATCH", "IN", "WITH", "FROM", "MATERIALS", "PRODUCTS"];
            let is_kw = |t: &Value| t.as_str().map_or(false, |x| KW.contains(&x));
            let fold = |t: &Value, how: usize| -> Value {
                let x = t.as_str().unwrap_or("");
                Value::String(match how {
                    0 => x.to_lowercase(),
                    1 => x.chars().enumerate().map(|(i, c)| if i == 0 { c } else { c.to_ascii_lowercase() }).collect(),
                    _ => x.chars().enumerate().map(|(i, c)| if i % 2 == 0 { c.to_ascii_lowercase() } else { c }).collect(),
                })
            };
            for how in 0..3 {
                let all: Vec<Value> = toks.iter().enumerate().map(|(i, t)| if is_kw(t) && (i == 0 || i % 2 == 0 || toks.len() > 2) { fold(t, how) } else { t.clone() }).collect();
                rule_dec_case(&mut sink, &Value::Array(all), "keyword-case");
            }
            for (i, t) in toks.iter().enumerate() {
                // (positions that can hold a keyword: the first, and inside MATCH the even ones and the one after WITH)
                if is_kw(t) && (i == 0 || toks[0] == "MATCH") {
                    let mut one = toks.clone();
                    one[i] = fold(t, i % 3);
                    rule_dec_case(&mut sink, &Value::Array(one), "keyword-case");
                }
            }
        }
        let bp = gen_byproducts(&mut r, false);
        round_trip::<ByProducts>(&mut sink, "ByProducts", &bp);
        bp_dec_case(&mut sink, &serde_json::to_value(&bp).unwrap(), "valid");
        // ---- the hand-written readers on arbitrary input
        rule_dec_case(&mut sink, &gen_tokens(&mut r), "random");
        // near-valid: drop / duplicate / replace one token of a valid rule
        if let Value::Array(mut a) = serde_json::to_value(&rule).unwrap() {
            if !a.is_empty() {
                let k = r.below(a.len());
                match r.below(3) {
                    0 => {
                        a.remove(k);
                    }
                    1 => {
                        let x = a[k].clone();
                        a.insert(k, x);
                    }
                    _ => a[k] = Value::String(r.pick(&["IN", "WITH", "FROM", "MATERIALS", "x"]).to_string()),
                }
            }
            rule_dec_case(&mut sink, &Value::Array(a), "mutated");
        }
        bp_dec_case(&mut sink, &gen_bp_obj(&mut r), "random");
    }
    // ---- the builder's defaults (the default expiry is "now + 365 days", with a sub-second part)
    for _ in 0..3 {
        let l = in_toto::models::LayoutMetadataBuilder::new().build().unwrap();
        round_trip::<LayoutMetadata>(&mut sink, "LayoutMetadata(builder-defaults)", &l);
        let k = in_toto::models::LinkMetadataBuilder::new().build();
        if let Ok(k) = k {
            round_trip::<LinkMetadata>(&mut sink, "LinkMetadata(builder-defaults)", &k);
        }
    }
    // ---- the derived codecs of whole documents against Model/Codec.lean (valid and mutated documents)
    crate::c16_doc::run_docs(&mut sink, &mut r, &pool, if cfg.thorough { 1500 } else { 120 });
    // ---- documented boundary classes of the full statement (builder-obtainable values)
    let b = ByProducts::new().set_stdout("real".into()).set_other_field("stdout".into(), "shadow".into());
    let ok = round_trip::<ByProducts>(&mut sink, "ByProducts(reserved-extra-key)", &b);
    sink.note(&format!("boundary: byproducts whose extra-field map uses a reserved name round-trips: {}", ok));
    // expiry beyond year 9999 (representable in chrono, obtainable from the builder)
    {
        use chrono::TimeZone;
        let far = chrono::Utc.with_ymd_and_hms(10000, 1, 1, 0, 0, 0).unwrap();
        let l = in_toto::models::LayoutMetadataBuilder::new().expires(far).build().unwrap();
        let ok = round_trip::<LayoutMetadata>(&mut sink, "LayoutMetadata(expires-after-year-9999)", &l);
        sink.note(&format!("boundary: layout expiring after year 9999 round-trips: {}", ok));
        let last = chrono::Utc.with_ymd_and_hms(9999, 12, 31, 23, 59, 59).unwrap();
        let l = in_toto::models::LayoutMetadataBuilder::new().expires(last).build().unwrap();
        round_trip::<LayoutMetadata>(&mut sink, "LayoutMetadata", &l);
    }
    // a key imported from SPKI with a scheme that does not fit its type
    {
        use in_toto::crypto::{PublicKey, SignatureScheme};
        let der = std::fs::read(crate::meta::keys_dir().join("ed25519-1.spki.der")).unwrap();
        for scheme in [SignatureScheme::RsaSsaPssSha256, SignatureScheme::EcdsaP256Sha256] {
            if let Ok(k) = PublicKey::from_spki(&der, scheme) {
                let ok = round_trip::<PublicKey>(&mut sink, "PublicKey(spki-import-with-foreign-scheme)", &k);
                sink.note(&format!("boundary: ed25519 SPKI imported with a foreign scheme round-trips: {}", ok));
            } else {
                sink.stat("PublicKey(spki-import-with-foreign-scheme)/import-rejected");
            }
        }
        let der = std::fs::read(crate::meta::keys_dir().join("ec.spki.der")).unwrap();
        if let Ok(k) = PublicKey::from_spki(&der, SignatureScheme::Ed25519) {
            round_trip::<PublicKey>(&mut sink, "PublicKey(spki-import-with-foreign-scheme)", &k);
        } else {
            sink.stat("PublicKey(spki-import-with-foreign-scheme)/import-rejected");
        }
    }
    // the text <-> instant part of the layout codec against Model/Time.lean
    crate::timegen::run_time_cases(&mut sink, &mut r, if cfg.thorough { 5000 } else { 400 });
    sink.finish(&cfg.out, serde_json::json!({}));
    let _ = hex(&[]);
}
