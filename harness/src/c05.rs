//! C05: any observable change to a layout or link changes the signed bytes.
use crate::c11;
use crate::jsongen::proto;
use crate::meta::{gen_layout, gen_link, key_pool, KeyInfo};
use crate::model::Model;
use crate::proto::{guarded, Sink};
use crate::rng::Rng;
use crate::Cfg;
use in_toto::models::{Metablock, MetadataWrapper};
use serde_json::Value;

/// All single-leaf edits of a JSON document (path description, edited document).
pub fn leaf_edits(v: &Value, r: &mut Rng) -> Vec<(String, Value)> {
    let mut out = vec![];
    let mut paths = vec![];
    collect(v, &mut vec![], &mut paths);
    for p in paths {
        let leaf = get(v, &p).clone();
        let mut variants: Vec<Value> = vec![];
        match &leaf {
            Value::String(s) => {
                variants.push(Value::String(format!("{}x", s)));
                if !s.is_empty() {
                    let mut cs: Vec<char> = s.chars().collect();
                    let i = r.below(cs.len());
                    cs[i] = if cs[i] == 'a' { 'b' } else { 'a' };
                    variants.push(Value::String(cs.into_iter().collect()));
                    let mut cs: Vec<char> = s.chars().collect();
                    cs.pop();
                    variants.push(Value::String(cs.into_iter().collect()));
                }
                // spellings a "normalising" writer or reader would identify: letter case, surrounding
                // white space, path decoration
                let cs: Vec<char> = s.chars().collect();
                let cased: Vec<usize> = (0..cs.len()).filter(|&i| {
                    let (u, l) = (cs[i].to_uppercase().collect::<Vec<_>>(), cs[i].to_lowercase().collect::<Vec<_>>());
                    (u.len() == 1 && u[0] != cs[i]) || (l.len() == 1 && l[0] != cs[i])
                }).collect();
                if !cased.is_empty() {
                    for &i in [cased[0], *r.pick(&cased)].iter() {
                        let mut c2 = cs.clone();
                        let u: Vec<char> = c2[i].to_uppercase().collect();
                        let l: Vec<char> = c2[i].to_lowercase().collect();
                        c2[i] = if u.len() == 1 && u[0] != c2[i] { u[0] } else { l[0] };
                        variants.push(Value::String(c2.into_iter().collect()));
                    }
                    variants.push(Value::String(s.to_uppercase()));
                }
                // the same length counted in characters, or in bytes, with a non-ASCII character inside
                if cs.len() >= 2 && s.is_ascii() {
                    let mut same_chars = cs.clone();
                    let n = same_chars.len();
                    same_chars[n - 1] = '\u{e9}';
                    variants.push(Value::String(same_chars.iter().collect()));
                    let mut same_bytes = cs[..n - 2].to_vec();
                    same_bytes.push('\u{e9}');
                    variants.push(Value::String(same_bytes.iter().collect()));
                    variants.push(Value::String("\u{e9}".repeat(n / 2)));
                }
                for v in [format!(" {}", s), format!("{} ", s), format!("{}/", s), format!("./{}", s), format!("{}\u{0}", s), format!("\u{feff}{}", s)] {
                    variants.push(Value::String(v));
                }
                // the same text inside another shape: the tagged spelling serde gives an enum's catch-all
                // variant (`{"Unknown": "<name>"}` is how a signature scheme outside the known ones is
                // written), a one-element list
                variants.push(serde_json::json!({ "Unknown": s }));
                variants.push(serde_json::json!([s]));
                if s.contains('\n') {
                    variants.push(Value::String(s.replace('\n', "\\n")));
                }
                // a control character replaced by each of its neighbours in the escape tables
                for (a, bs) in [('\u{c}', &['\u{b}', '\u{d}', '\u{8}'][..]), ('\u{b}', &['\u{c}', '\t'][..]), ('\u{8}', &['\u{7}', '\t'][..]), ('\t', &['\n', '\u{8}'][..]),
                                ('\n', &['\r', '\u{b}'][..]), ('\r', &['\n', '\u{c}'][..]), ('\0', &['\u{1}'][..]), ('\u{1f}', &['\u{1e}', ' '][..]), ('\u{7f}', &['\u{80}'][..])] {
                    if s.contains(a) {
                        for b in bs {
                            variants.push(Value::String(s.replace(a, &b.to_string())));
                        }
                    }
                }
                if s.contains("\\n") {
                    variants.push(Value::String(s.replace("\\n", "\n")));
                }
                if s.contains('"') {
                    variants.push(Value::String(s.replace('"', "\\\"")));
                }
                // a leap second against the second before it
                if s.contains(":60") {
                    variants.push(Value::String(s.replace(":60", ":59")));
                }
                if s.ends_with(":59Z") {
                    variants.push(Value::String(format!("{}:60Z", &s[..s.len() - 4])));
                }
                // expiry: one second later / earlier
                if let Ok(t) = chrono::DateTime::parse_from_rfc3339(s) {
                    for d in [1i64, -1] {
                        if let Some(t2) = t.checked_add_signed(chrono::Duration::seconds(d)) {
                            variants.push(Value::String(t2.with_timezone(&chrono::Utc).to_rfc3339_opts(chrono::SecondsFormat::Secs, true)));
                        }
                    }
                }
                // hex digests / ids: flip one digit
                if s.len() >= 2 && s.bytes().all(|b| b.is_ascii_hexdigit()) {
                    let mut b = s.clone().into_bytes();
                    let i = r.below(b.len());
                    b[i] = if b[i] == b'0' { b'1' } else { b'0' };
                    variants.push(Value::String(String::from_utf8(b).unwrap()));
                }
            }
            Value::Number(n) => {
                if let Some(i) = n.as_i64() {
                    variants.push(Value::from(i.wrapping_add(1)));
                    variants.push(Value::from(i.wrapping_sub(1)));
                } else if let Some(u) = n.as_u64() {
                    variants.push(Value::from(u - 1));
                }
            }
            Value::Array(xs) => {
                if !xs.is_empty() {
                    let mut ys = xs.clone();
                    ys.pop();
                    variants.push(Value::Array(ys));
                    let mut ys = xs.clone();
                    ys.push(xs[0].clone());
                    variants.push(Value::Array(ys));
                    if xs.len() >= 2 {
                        let mut ys = xs.clone();
                        ys.swap(0, 1);
                        variants.push(Value::Array(ys));
                    }
                }
                variants.push(Value::Array(vec![Value::Array(xs.clone())]));
            }
            Value::Object(m) => {
                if let Some(k) = m.keys().next().cloned() {
                    let mut m2 = m.clone();
                    let val = m2.remove(&k).unwrap();
                    variants.push(Value::Object(m2.clone()));
                    // key vs value boundary shift: move a character from the key into a string value
                    m2.insert(format!("{}x", k), val);
                    variants.push(Value::Object(m2));
                }
            }
            Value::Null => variants.push(Value::String(String::new())),
            Value::Bool(b) => variants.push(Value::Bool(!b)),
        }
        for var in variants {
            let mut d = v.clone();
            let shape = matches!((&leaf, &var), (Value::String(_), Value::Object(_)));
            *get_mut(&mut d, &p) = var;
            out.push((format!("{:?}{}", p, if shape { " #shape" } else { "" }), d));
        }
    }
    out
}

#[derive(Clone, Debug)]
pub enum Seg {
    K(String),
    I(usize),
}

fn collect(v: &Value, cur: &mut Vec<Seg>, out: &mut Vec<Vec<Seg>>) {
    out.push(cur.clone());
    match v {
        Value::Array(xs) => {
            for (i, x) in xs.iter().enumerate() {
                cur.push(Seg::I(i));
                collect(x, cur, out);
                cur.pop();
            }
        }
        Value::Object(m) => {
            for (k, x) in m {
                cur.push(Seg::K(k.clone()));
                collect(x, cur, out);
                cur.pop();
            }
        }
        _ => {}
    }
}

fn get<'a>(v: &'a Value, p: &[Seg]) -> &'a Value {
    let mut c = v;
    for s in p {
        c = match s {
            Seg::K(k) => &c[k.as_str()],
            Seg::I(i) => &c[*i],
        };
    }
    c
}

fn get_mut<'a>(v: &'a mut Value, p: &[Seg]) -> &'a mut Value {
    let mut c = v;
    for s in p {
        c = match s {
            Seg::K(k) => &mut c[k.as_str()],
            Seg::I(i) => &mut c[*i],
        };
    }
    c
}

fn case(sink: &mut Sink, model: &mut Model, r: &mut Rng, pool: &[KeyInfo], meta: &MetadataWrapper, class: &str) {
    let ed: Vec<&KeyInfo> = pool.iter().filter(|k| k.deterministic()).collect();
    let key = *r.pick(&ed);
    let other = r.pick(pool);
    // the model's signed text corresponds to the library's (same probe as C11)
    c11::case_corr_only(sink, model, key, meta);
    let j = match serde_json::to_value(meta) {
        Ok(j) => j,
        Err(_) => return,
    };
    let signed = match Metablock::new(meta.clone(), &[&key.key, &other.key]) {
        Ok(m) => m,
        Err(_) => return,
    };
    let sig0 = signed.signatures[0].value().as_bytes().to_vec();
    // the genuine block is verified first, as a consumer would have done before meeting an edited copy
    {
        let (g, k1, k2) = (signed.clone(), key.public().clone(), other.public().clone());
        let ok = guarded(move || g.verify(2, [&k1, &k2]).is_ok());
        sink.oracle(ok == Ok(true) || key.public().key_id() == other.public().key_id(), "metadata signed by the library does not verify", &format!("signed {}", proto(&j, &mut None)));
    }
    // no two distinct JSON values have the same canonical encoding - also where the typed readers do not
    // go: the document with one of its integers respelled as a number of another kind (`3` as `3.0`)
    // is another JSON value; it has no canonical encoding at all, or another one
    {
        use in_toto::interchange::{DataInterchange, Json};
        let base = Json::canonicalize(&j).ok();
        let mut paths = vec![];
        collect(&j, &mut vec![], &mut paths);
        for p in paths {
            if let Value::Number(n) = get(&j, &p) {
                if let Some(f) = n.as_i64().map(|i| i as f64).or_else(|| n.as_u64().map(|u| u as f64)) {
                    if let Some(fl) = serde_json::Number::from_f64(f) {
                        let mut j2 = j.clone();
                        *get_mut(&mut j2, &p) = Value::Number(fl);
                        if j2 != j {
                            let c2 = Json::canonicalize(&j2).ok();
                            sink.stat(&format!("{}/number-respelled/{}", class, if c2.is_some() { "encoded" } else { "rejected" }));
                            sink.oracle(c2.is_none() || c2 != base, "two distinct JSON values (an integer, the same number as a float) have the same canonical encoding",
                                &format!("signed {} // number at {:?} respelled as a float", proto(&j, &mut None), p));
                        }
                    }
                }
            }
        }
    }
    let edits = leaf_edits(&j, r);
    // a random sample of the catalogue (every kind of edit at every kind of leaf over the run)
    let mut edits = edits;
    let take = if edits.len() > 120 { 120 } else { edits.len() };
    for i in 0..take {
        let j = i + r.below(edits.len() - i);
        edits.swap(i, j);
    }
    // (the re-shaped leaves are few and almost all refused by the parser: all of them are tried)
    let shaped: Vec<(String, Value)> = edits.iter().skip(take).filter(|e| e.0.ends_with("#shape")).cloned().collect();
    for (path, j2) in edits.into_iter().take(take).chain(shaped.into_iter()) {
        let replay = format!("signed {} // edit at {} => {}", proto(&j, &mut None), path, proto(&j2, &mut None));
        let text2 = j2.to_string();
        let m2: MetadataWrapper = match guarded(|| serde_json::from_str::<MetadataWrapper>(&text2)) {
            Ok(Ok(m)) => m,
            Ok(Err(_)) => {
                sink.stat(&format!("{}/edit-rejected-by-parser", class));
                continue;
            }
            Err(()) => {
                sink.oracle(false, "parser panicked on an edited document", &replay);
                continue;
            }
        };
        if m2 == *meta {
            sink.stat(&format!("{}/edit-not-observable", class));
            continue;
        }
        sink.stat(&format!("{}/edit-observable", class));
        // old signatures over the new content must not verify, under either key
        let forged = Metablock { signatures: signed.signatures.clone(), metadata: m2.clone() };
        let (f2, k1, k2) = (forged.clone(), key.public().clone(), other.public().clone());
        let accepted = guarded(move || f2.verify(1, [&k1, &k2]).is_ok());
        sink.oracle(accepted == Ok(false), "signature made before the edit still verifies after it", &replay);
        // deterministic scheme: the signature itself must change
        if let Ok(m) = Metablock::new(m2.clone(), &[&key.key]) {
            sink.oracle(m.signatures[0].value().as_bytes() != &sig0[..], "edited content has the same ed25519 signature", &replay);
        }
        // and the model agrees about the new text
        if r.chance(1, 8) {
            c11::case_corr_only(sink, model, key, &m2);
        }
    }
}

pub fn run(cfg: &Cfg) {
    let mut sink = Sink::new(&cfg.out);
    let mut r = Rng::new(cfg.seed);
    let mut model = Model::start();
    let pool = key_pool(1);
    if let Some(p) = &cfg.replay {
        for line in std::fs::read_to_string(p).unwrap().lines() {
            let line = line.split(" // ").next().unwrap();
            let ok = line.strip_prefix("signed ").and_then(crate::jsongen_parse::parse_proto).and_then(|j| {
                let meta: MetadataWrapper = serde_json::from_value(j).ok()?;
                case(&mut sink, &mut model, &mut r, &pool, &meta, "replay");
                Some(())
            });
            if ok.is_none() {
                sink.oracle(false, "unparsable replay line", line);
            }
        }
        return sink.finish(&cfg.out, serde_json::json!({}));
    }
    let n = if cfg.thorough { 3_000 } else { 250 };
    for i in 0..n {
        let mut r = r.at(i as u64);
        let (meta, class) = if i % 2 == 0 {
            (MetadataWrapper::Layout(gen_layout(&mut r, &pool)), "layout")
        } else {
            (MetadataWrapper::Link(gen_link(&mut r, None)), "link")
        };
        case(&mut sink, &mut model, &mut r, &pool, &meta, class);
    }
    sink.finish(&cfg.out, serde_json::json!({}));
}
