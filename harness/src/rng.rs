//! SplitMix64: the single PRNG every generator draws from, so a seed replays exactly.
#[derive(Clone)]
pub struct Rng(pub u64);

impl Rng {
    pub fn new(seed: u64) -> Self {
        Rng(seed ^ 0x9E37_79B9_7F4A_7C15)
    }
    pub fn next(&mut self) -> u64 {
        self.0 = self.0.wrapping_add(0x9E37_79B9_7F4A_7C15);
        let mut z = self.0;
        z = (z ^ (z >> 30)).wrapping_mul(0xBF58_476D_1CE4_E5B9);
        z = (z ^ (z >> 27)).wrapping_mul(0x94D0_49BB_1331_11EB);
        z ^ (z >> 31)
    }
    /// uniform in 0..n (n > 0)
    pub fn below(&mut self, n: usize) -> usize {
        (self.next() % (n as u64)) as usize
    }
    pub fn chance(&mut self, num: u64, den: u64) -> bool {
        self.next() % den < num
    }
    pub fn pick<'a, T>(&mut self, xs: &'a [T]) -> &'a T {
        &xs[self.below(xs.len())]
    }
    pub fn bytes(&mut self, n: usize) -> Vec<u8> {
        (0..n).map(|_| self.next() as u8).collect()
    }
    pub fn fork(&mut self) -> Rng {
        Rng(self.next())
    }
    /// the generator of the `i`-th case of a loop: derived from this generator's state and `i` alone, so
    /// that what a case draws does not depend on how much the cases before it drew (which depends on
    /// their content - the length of a randomised signature, say)
    pub fn at(&self, i: u64) -> Rng {
        Rng::new(self.0 ^ (i.wrapping_add(1)).wrapping_mul(0xD1B5_4A32_D192_ED03))
    }
}
