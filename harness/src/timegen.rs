//! RFC 3339 texts against `Model/Time.lean` (C06, C16, C05).
//!
//! Two implementation channels per text:
//!   * chrono's `DateTime::parse_from_rfc3339` + `with_timezone(&Utc)`  (model op `rfc3339`);
//!   * the library: a minimal layout document with that `expires`, read with
//!     `serde_json::from_value::<LayoutMetadata>` (`parse_datetime` + `LayoutMetadata::new`), whose
//!     instant must be the first channel's instant kept to the second, and whose serialisation writes
//!     the text `fmttime` predicts.
//! Oracles (independent of the model): every notation of one instant reads as that instant; the
//! writer's text reads back as the instant kept to the second; the expiry comparison made by
//! `in_toto_verify` is exercised by the C06 scenarios, not here.
use crate::proto::{hexs, Sink};
use crate::rng::Rng;
use chrono::{DateTime, SecondsFormat, TimeZone, Utc};
use in_toto::models::LayoutMetadata;
use serde_json::json;

fn chrono_read(s: &str) -> Option<(i64, u32)> {
    DateTime::parse_from_rfc3339(s).ok().map(|dt| {
        let u = dt.with_timezone(&Utc);
        (u.timestamp(), u.timestamp_subsec_nanos())
    })
}

fn layout_doc(expires: &str) -> serde_json::Value {
    json!({"_type": "layout", "expires": expires, "readme": "", "keys": {}, "steps": [], "inspect": []})
}

fn lib_read(s: &str) -> Option<(i64, u32, String)> {
    let doc = layout_doc(s);
    let l: LayoutMetadata = match crate::proto::guarded(move || serde_json::from_value::<LayoutMetadata>(doc)) {
        Ok(r) => r.ok()?,
        Err(()) => return Some((i64::MIN, 0, "the layout reader panicked".into())),
    };
    let out = serde_json::to_value(&l).ok()?;
    let text = out.get("expires")?.as_str()?.to_string();
    Some((l.expires.timestamp(), l.expires.timestamp_subsec_nanos(), text))
}

fn is_leap(y: i64) -> bool {
    y % 4 == 0 && (y % 100 != 0 || y % 400 == 0)
}

fn dim(y: i64, m: u32) -> u32 {
    match m {
        2 => if is_leap(y) { 29 } else { 28 },
        4 | 6 | 9 | 11 => 30,
        _ => 31,
    }
}

/// A syntactically valid RFC 3339 text built field by field (not through chrono's writer).
pub fn gen_valid(r: &mut Rng) -> String {
    let y: i64 = match r.below(10) {
        0 => 0,
        1 => 9999,
        2 => *r.pick(&[1600i64, 1900, 2000, 2100, 2400, 1970, 1969, 2038, 1, 9998]),
        3 => r.below(10000) as i64,
        _ => 1990 + r.below(80) as i64,
    };
    let m = match r.below(6) {
        0 => 2,
        1 => *r.pick(&[1u32, 12]),
        _ => 1 + r.below(12) as u32,
    };
    let d = match r.below(4) {
        0 => dim(y, m),
        1 => 1,
        _ => 1 + r.below(dim(y, m) as usize) as u32,
    };
    let (h, mi) = match r.below(5) {
        0 => (23, 59),
        1 => (0, 0),
        _ => (r.below(24), r.below(60)),
    };
    let s = match r.below(8) {
        0 => 60,
        1 => 59,
        2 => 0,
        _ => r.below(60),
    };
    let sep = *r.pick(&['T', 'T', 'T', 't', ' ']);
    let frac = match r.below(6) {
        0 | 1 | 2 => String::new(),
        3 => format!(".{}", r.below(10)),
        4 => {
            let n = 1 + r.below(9) as usize;
            let mut t = String::from(".");
            for _ in 0..n {
                t.push(char::from(b'0' + r.below(10) as u8));
            }
            t
        }
        _ => {
            let n = 9 + r.below(6) as usize;
            let mut t = String::from(".");
            for _ in 0..n {
                t.push(char::from(b'0' + r.below(10) as u8));
            }
            t
        }
    };
    let zone: String = match r.below(8) {
        0 | 1 => "Z".to_string(),
        2 => "z".to_string(),
        3 => r.pick(&["+00:00", "-00:00", "+23:59", "-23:59", "+05:30", "-09:45", "+14:00", "\u{2212}05:00"]).to_string(),
        _ => {
            let sg = *r.pick(&["+", "-", "-", "\u{2212}"]);
            format!("{}{:02}:{:02}", sg, r.below(24), r.below(60))
        }
    };
    format!("{:04}-{:02}-{:02}{}{:02}:{:02}:{:02}{}{}", y, m, d, sep, h, mi, s, frac, zone)
}

/// A text that is not (necessarily) RFC 3339: a field out of range or a one-character edit.
pub fn gen_invalid(r: &mut Rng) -> String {
    let fixed = [
        "2031-02-30T00:00:00Z", "2031-04-31T00:00:00Z", "1900-02-29T00:00:00Z", "2031-00-10T00:00:00Z", "2031-13-10T00:00:00Z",
        "2031-05-00T00:00:00Z", "2031-05-17T24:00:00Z", "2031-05-17T12:60:00Z", "2031-05-17T12:00:61Z", "2031-05-17T12:00:00+24:00",
        "2031-05-17T12:00:00+23:60", "2031-05-17T12:00:00+5:30", "2031-05-17T12:00:00+0530", "2031-05-17T12:00:00", "2031-05-17T12:00Z",
        "2031-05-17T12:00:00.Z", "2031-05-17T12:00:00,5Z", "12031-05-17T12:00:00Z", "+2031-05-17T12:00:00Z", "2031-05-17T12:00:00Z ",
        " 2031-05-17T12:00:00Z", "2031-05-17", "", "2031-05-17T12:00:00ZZ", "2031-05-17T12:00:00+05:30Z", "2031-05-17T12:00:00 Z",
        "2031-05-17T12:00:00UTC", "2031-05-17T12:00:00+05:3", "2031-05-17T12:00:00+05:", "2031-05-17T12:00:00-", "2031-05-17T12:00:60.9999999999-23:59",
        "2031\u{2212}05-17T12:00:00Z", "2031-05-17T12:00:00.5\u{2212}00:00", "２０３１-05-17T12:00:00Z", "2031-05-17T12:00:0\u{0660}Z", "2031-05-17T12:00:00+0\u{0665}:30",
        "2031-05-17_12:00:00Z", "2031/05/17T12:00:00Z", "2031-05-17T12.00.00Z", "2031-5-17T12:00:00Z", "2031-05-17T1:00:00Z",
    ];
    if r.below(4) == 0 {
        return r.pick(&fixed).to_string();
    }
    let base = gen_valid(r);
    let mut cs: Vec<char> = base.chars().collect();
    let alphabet: Vec<char> = "0123456789-+:.TtZz ,\u{2212}\u{e9}a/".chars().collect();
    let pos = r.below(cs.len() + 1) as usize;
    match r.below(3) {
        0 if pos < cs.len() => {
            cs.remove(pos);
        }
        1 if pos < cs.len() => {
            cs[pos] = *r.pick(&alphabet);
        }
        _ => {
            cs.insert(pos, *r.pick(&alphabet));
        }
    }
    cs.into_iter().collect()
}

fn keep_whole(nanos: u32) -> u32 {
    if nanos >= 1_000_000_000 { 1_000_000_000 } else { 0 }
}

pub fn text_case(sink: &mut Sink, s: &str, class: &str) {
    let op = format!("rfc3339 {}", hexs(s));
    let c = chrono_read(s);
    let ans = match c {
        Some((secs, nanos)) => format!("ok {} {}", secs, nanos),
        None => "none".to_string(),
    };
    sink.stat(&format!("rfc3339/{}/{}", class, if c.is_some() { "accepted" } else { "rejected" }));
    sink.op(&op, &ans, s.len() >= 19);
    // the library's own channel
    let l = lib_read(s);
    match (c, &l) {
        (None, None) => sink.oracle(true, "", &op),
        (Some((secs, nanos)), Some((ls, ln, text))) => {
            sink.oracle(*ls == secs && *ln == keep_whole(nanos), "a layout's expiry is not the RFC 3339 instant of its text kept to the second", &op);
            // what the library writes for it
            let fop = format!("fmttime {} {}", ls, ln);
            sink.op(&fop, &hexs(text), true);
            // and that text reads back as the same instant
            sink.oracle(chrono_read(text) == Some((*ls, *ln)) || !(0..=9999).contains(&year_of(*ls)), "the written expiry does not read back as the instant kept to the second", &op);
        }
        _ => sink.oracle(false, "the layout reader and the RFC 3339 reader disagree on accepting an expiry text", &op),
    }
}

fn year_of(secs: i64) -> i32 {
    use chrono::Datelike;
    Utc.timestamp_opt(secs, 0).single().map(|d| d.year()).unwrap_or(-1)
}

/// One instant in several notations: all must read as that instant.
pub fn notation_case(sink: &mut Sink, r: &mut Rng) {
    // local fields first (so that leap seconds and odd years are reachable), then re-express in other offsets
    let base = gen_valid(r);
    let Some((secs, nanos)) = chrono_read(&base) else {
        sink.oracle(false, "a well-formed RFC 3339 text is rejected", &format!("rfc3339 {}", hexs(&base)));
        return;
    };
    text_case(sink, &base, "valid");
    for _ in 0..3 {
        let off_min: i64 = match r.below(4) {
            0 => 0,
            1 => *r.pick(&[330i64, -345, 765, 1439, -1439, 60, -60, 1, -1]),
            _ => r.below(2879) as i64 - 1439,
        };
        let local = secs + off_min * 60;
        let days = local.div_euclid(86400);
        let sod = local.rem_euclid(86400);
        let (y, m, d) = civil(days);
        if !(0..=9999).contains(&y) {
            continue;
        }
        let leap = if nanos >= 1_000_000_000 { 1 } else { 0 };
        let sub = nanos % 1_000_000_000;
        let frac = if sub == 0 && r.below(2) == 0 { String::new() } else { format!(".{:09}{}", sub, if r.below(3) == 0 { "000" } else { "" }) };
        let zone = if off_min == 0 && r.below(2) == 0 {
            r.pick(&["Z", "z"]).to_string()
        } else {
            let sg = if off_min < 0 { *r.pick(&["-", "\u{2212}"]) } else { "+" };
            format!("{}{:02}:{:02}", sg, off_min.abs() / 60, off_min.abs() % 60)
        };
        let t = format!("{:04}-{:02}-{:02}{}{:02}:{:02}:{:02}{}{}", y, m, d, r.pick(&['T', 't', ' ']), sod / 3600, sod % 3600 / 60, sod % 60 + leap, frac, zone);
        let got = chrono_read(&t);
        sink.oracle(got == Some((secs, nanos)), "two notations of one instant read as different instants", &format!("rfc3339 {} | rfc3339 {}", hexs(&base), hexs(&t)));
        text_case(sink, &t, "renotated");
    }
}

/// days since 1970-01-01 -> (y, m, d): independent of the model's arithmetic (plain year / month loop)
fn civil(days: i64) -> (i64, u32, u32) {
    let mut y = 1970i64;
    let mut d = days;
    // jump by 400-year eras first
    let era = d.div_euclid(146097);
    y += era * 400;
    d -= era * 146097;
    loop {
        let len = if is_leap(y) { 366 } else { 365 };
        if d < len {
            break;
        }
        d -= len;
        y += 1;
    }
    let mut m = 1u32;
    loop {
        let len = dim(y, m) as i64;
        if d < len {
            break;
        }
        d -= len;
        m += 1;
    }
    (y, m, d as u32 + 1)
}

/// The writer on instants chosen directly (including years outside 0000-9999 and sub-second parts).
pub fn fmt_case(sink: &mut Sink, r: &mut Rng) {
    let secs: i64 = match r.below(8) {
        0 => *r.pick(&[0i64, -1, 1, 253402300799, 253402300800, -62167219200, -62167219201, 951782400, 951868799, 4107542400, 32503680000]),
        1 => r.below(400_000_000_000) as i64 - 70_000_000_000,
        _ => r.below(4_200_000_000) as i64,
    };
    let nanos: u32 = match r.below(4) {
        0 => 0,
        1 => r.below(1_000_000_000) as u32,
        2 if secs.rem_euclid(60) == 59 => 1_000_000_000 + r.below(1_000_000_000) as u32,
        _ => *r.pick(&[1u32, 999_999_999, 500_000_000]),
    };
    let Some(dt) = DateTime::<Utc>::from_timestamp(secs, nanos) else { return };
    let text = dt.to_rfc3339_opts(SecondsFormat::Secs, true);
    sink.op(&format!("fmttime {} {}", secs, nanos), &hexs(&text), true);
    sink.stat(&format!("fmttime/{}", if (0..=9999).contains(&year_of(secs)) { "year-0000-9999" } else { "year-outside" }));
    // through the library: builder -> serialise
    let built = crate::proto::guarded(move || in_toto::models::LayoutMetadataBuilder::new().expires(dt).build());
    sink.oracle(built.is_ok(), "building a layout with a representable expiry panicked", &format!("fmttime {} {}", secs, nanos));
    if let Ok(Ok(l)) = built {
        let j = serde_json::to_value(&l).unwrap();
        let lt = j.get("expires").and_then(|v| v.as_str()).unwrap_or("").to_string();
        sink.oracle(lt == text, "the layout writer's expiry text is not chrono's whole-second UTC text", &format!("fmttime {} {}", secs, nanos));
        sink.oracle(l.expires.timestamp() == secs && l.expires.timestamp_subsec_nanos() == keep_whole(nanos), "the builder does not keep the expiry to the second", &format!("fmttime {} {}", secs, nanos));
    }
}

pub fn run_time_cases(sink: &mut Sink, r: &mut Rng, n: u64) {
    // fixed first: the corpus of notable texts
    for s in [
        "1970-01-01T00:00:00Z", "0000-01-01T00:00:00Z", "9999-12-31T23:59:59Z", "9999-12-31T23:59:60Z", "0000-01-01T00:00:00+23:59",
        "9999-12-31T23:59:59-23:59", "2016-12-31T23:59:60Z", "2016-12-31T23:59:60.999999999Z", "2031-05-17T12:30:60+05:30", "2000-02-29t23:59:59.1234567891z",
        "2031-05-17 12:00:00\u{2212}05:00", "2031-05-17T12:00:00-00:00", "2031-05-17T12:00:00.000000000000000000001Z", "2100-02-28T23:59:59+00:01", "2400-02-29T00:00:00Z",
    ] {
        text_case(sink, s, "corpus");
    }
    for _ in 0..n {
        notation_case(sink, r);
        let bad = gen_invalid(r);
        text_case(sink, &bad, "edited");
        fmt_case(sink, r);
    }
}
