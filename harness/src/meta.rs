//! Key pool and generators of representable metadata (through the repo's own builders).
use crate::jsongen::{gen_string, TRICKY};
use crate::rng::Rng;
use chrono::{DateTime, TimeZone, Utc};
use in_toto::crypto::{HashAlgorithm, HashValue, KeyId, KeyType, PrivateKey, PublicKey, SignatureScheme};
use std::str::FromStr;
use in_toto::models::byproducts::ByProducts;
use in_toto::models::inspection::Inspection;
use in_toto::models::rule::{Artifact, ArtifactRule};
use in_toto::models::step::{Command, Step};
use in_toto::models::{LayoutMetadata, LayoutMetadataBuilder, LinkMetadata, LinkMetadataBuilder, TargetDescription, VirtualTargetPath};
use std::collections::{BTreeMap, HashMap};
use std::path::PathBuf;

pub fn keys_dir() -> PathBuf {
    PathBuf::from(env!("CARGO_MANIFEST_DIR")).join("keys")
}

pub struct KeyInfo {
    pub label: String,
    pub pk8: Vec<u8>,
    pub scheme: SignatureScheme,
    pub key: PrivateKey,
}

impl KeyInfo {
    pub fn load(label: &str, pk8: Vec<u8>, scheme: SignatureScheme) -> KeyInfo {
        let key = PrivateKey::from_pkcs8(&pk8, scheme.clone()).expect("fixture key loads");
        KeyInfo { label: label.to_string(), pk8, scheme, key }
    }
    pub fn public(&self) -> &PublicKey {
        self.key.public()
    }
    pub fn reload(&self) -> PrivateKey {
        PrivateKey::from_pkcs8(&self.pk8, self.scheme.clone()).unwrap()
    }
    pub fn deterministic(&self) -> bool {
        self.scheme == SignatureScheme::Ed25519
    }
}

/// Fixture keys of every supported type and scheme, plus freshly generated ed25519 / ECDSA keys.
pub fn key_pool(fresh: usize) -> Vec<KeyInfo> {
    let d = keys_dir();
    let rd = |n: &str| std::fs::read(d.join(n)).unwrap();
    let mut v = vec![];
    for i in 1..=6 {
        v.push(KeyInfo::load(&format!("ed25519-{}", i), rd(&format!("ed25519-{}.pk8.der", i)), SignatureScheme::Ed25519));
    }
    v.push(KeyInfo::load("ecdsa-p256", rd("ec.pk8.der"), SignatureScheme::EcdsaP256Sha256));
    v.push(KeyInfo::load("rsa2048-pss256", rd("rsa-2048.pk8.der"), SignatureScheme::RsaSsaPssSha256));
    v.push(KeyInfo::load("rsa2048-pss512", rd("rsa-2048.pk8.der"), SignatureScheme::RsaSsaPssSha512));
    v.push(KeyInfo::load("rsa4096-pss256", rd("rsa-4096.pk8.der"), SignatureScheme::RsaSsaPssSha256));
    v.push(KeyInfo::load("rsa4096-pss512", rd("rsa-4096.pk8.der"), SignatureScheme::RsaSsaPssSha512));
    for i in 0..fresh {
        let pk8 = PrivateKey::new(KeyType::Ed25519).unwrap();
        v.push(KeyInfo::load(&format!("fresh-ed25519-{}", i), pk8, SignatureScheme::Ed25519));
        let pk8 = PrivateKey::new(KeyType::Ecdsa).unwrap();
        v.push(KeyInfo::load(&format!("fresh-ecdsa-{}", i), pk8, SignatureScheme::EcdsaP256Sha256));
    }
    v
}

/// The pool plus two pairs of Ed25519 keys whose key ids start with the same eight hex digits
/// (`111ca389...`, `96503fbb...`): link files are named after that prefix only, so such keys are
/// indistinguishable by file name.  (Found by search; kept out of `key_pool` because generators that
/// name files after key-id prefixes must treat them with care.)
pub fn key_pool_twins(fresh: usize) -> Vec<KeyInfo> {
    let d = keys_dir();
    let rd = |n: &str| std::fs::read(d.join(n)).unwrap();
    let mut v = key_pool(fresh);
    for n in ["twin-1a", "twin-1b", "twin-2a", "twin-2b"] {
        v.push(KeyInfo::load(n, rd(&format!("{}.pk8.der", n)), SignatureScheme::Ed25519));
    }
    v
}

/// The pool plus an RSA key of another supported modulus size (3072 bits); kept out of `key_pool`
/// because signing with it is slow.  (ring signs with 2048-4096 bit keys only; the 8192-bit upper bound
/// of the verification algorithms is covered by the public-only fixture `rsa-8192.spki.der` in C12.)
pub fn key_pool_all_sizes(fresh: usize) -> Vec<KeyInfo> {
    let d = keys_dir();
    let rd = |n: &str| std::fs::read(d.join(n)).unwrap();
    let mut v = key_pool(fresh);
    v.push(KeyInfo::load("rsa3072-pss256", rd("rsa-3072.pk8.der"), SignatureScheme::RsaSsaPssSha256));
    v.push(KeyInfo::load("rsa3072-pss512", rd("rsa-3072.pk8.der"), SignatureScheme::RsaSsaPssSha512));
    // a public exponent whose DER encoding needs a leading zero byte (0x80000003)
    v.push(KeyInfo::load("rsa2048-e80000003-pss256", rd("rsa-2048-e80000003.pk8.der"), SignatureScheme::RsaSsaPssSha256));
    v
}

pub fn gen_path(r: &mut Rng) -> String {
    match r.below(8) {
        0..=3 => r.pick(&["foo", "bar", "foo.py", "sub/foo", "dst/foo", "a/b/c.txt", "foo.tar.gz", "demo-project/foo.py", ".hidden", "with space"]).to_string(),
        4 => format!("dir/{}", gen_string(r)),
        5 => gen_string(r),
        6 => {
            let n = 1 + r.below(3);
            (0..n).map(|_| *r.pick(TRICKY)).collect()
        }
        _ => r.pick(&["./foo", "a//b", "a/../b", "/abs/path", "a/./b/", "..", "*", "[", "a**b"]).to_string(),
    }
}

pub fn gen_digests(r: &mut Rng) -> TargetDescription {
    let mut m = HashMap::new();
    match r.below(6) {
        0 => {}
        1 | 2 | 3 => {
            m.insert(HashAlgorithm::Sha256, HashValue::new(r.bytes(32)));
        }
        4 => {
            m.insert(HashAlgorithm::Sha512, HashValue::new(r.bytes(64)));
        }
        _ => {
            m.insert(HashAlgorithm::Sha256, HashValue::new(r.bytes(32)));
            m.insert(HashAlgorithm::Sha512, HashValue::new(r.bytes(64)));
        }
    }
    m
}

pub fn gen_artifacts(r: &mut Rng) -> BTreeMap<VirtualTargetPath, TargetDescription> {
    let n = r.below(4);
    let mut m = BTreeMap::new();
    for _ in 0..n {
        m.insert({ let p = gen_path(r); VirtualTargetPath::new(p.clone()).unwrap_or_else(|_| VirtualTargetPath::from(p.as_str())) }, gen_digests(r));
    }
    m
}

pub fn gen_command(r: &mut Rng) -> Command {
    let n = r.below(4);
    let v: Vec<String> = (0..n)
        .map(|_| if r.chance(1, 2) { r.pick(&["sh", "-c", "tar zcvf foo.tar.gz foo.py", "vi", ""]).to_string() } else { gen_string(r) })
        .collect();
    // a command whose words hold no white space can also be given as one string (split at white space)
    let plain = !v.is_empty() && v.iter().all(|a| !a.is_empty() && !a.chars().any(|c| c.is_whitespace()));
    if plain && r.chance(1, 2) {
        let joined = v.join(if r.chance(1, 2) { " " } else { "  \t" });
        let c = match r.below(3) {
            0 => Command::from(joined.as_str()),
            1 => Command::from(joined.clone()),
            _ => joined.parse::<Command>().unwrap_or_else(|_| Command::from(v.clone())),
        };
        if c != Command::from(v.clone()) {
            crate::proto::generator_panic("a command given as one string is not the command of its words", format!("Command::from({:?})", joined));
        }
        return c;
    }
    Command::from(v)
}

pub fn gen_byproducts(r: &mut Rng, reserved_keys: bool) -> ByProducts {
    let mut b = ByProducts::new();
    if r.chance(2, 3) {
        b = b.set_return_value(*r.pick(&[0, 1, -1, 255, i32::MAX, i32::MIN]));
    }
    if r.chance(2, 3) {
        b = b.set_stdout(gen_string(r));
    }
    if r.chance(2, 3) {
        b = b.set_stderr(gen_string(r));
    }
    let n = r.below(3);
    for _ in 0..n {
        let k = if reserved_keys && r.chance(1, 4) {
            r.pick(&["stdout", "stderr", "return-value"]).to_string()
        } else {
            let s = gen_string(r);
            if s == "stdout" || s == "stderr" || s == "return-value" {
                "other".into()
            } else {
                s
            }
        };
        b = b.set_other_field(k, gen_string(r));
    }
    // (the whole map of further members at once)
    if !reserved_keys && r.chance(1, 6) {
        let m: BTreeMap<String, String> = (0..r.below(3)).map(|i| (format!("extra{}", i), gen_string(r))).collect();
        b = b.set_other_fields(m);
    }
    b
}

pub fn gen_env(r: &mut Rng) -> Option<BTreeMap<String, String>> {
    match r.below(3) {
        0 => None,
        1 => Some(BTreeMap::new()),
        _ => {
            let mut m = BTreeMap::new();
            for _ in 0..1 + r.below(3) {
                m.insert(gen_string(r), gen_string(r));
            }
            Some(m)
        }
    }
}

pub fn gen_link(r: &mut Rng, name: Option<&str>) -> LinkMetadata {
    LinkMetadataBuilder::new()
        .name(name.map(|s| s.to_string()).unwrap_or_else(|| gen_string(r)))
        .materials(gen_artifacts(r))
        .products(gen_artifacts(r))
        .env(gen_env(r))
        .byproducts(gen_byproducts(r, false))
        .command(gen_command(r))
        .build()
        .unwrap()
}

pub fn gen_pattern(r: &mut Rng) -> VirtualTargetPath {
    let s = match r.below(6) {
        0..=3 => r.pick(&["*", "foo", "sub/*", "f?o", "[a-f]oo", "foo.py", "*.py", "dst/*"]).to_string(),
        4 => gen_path(r),
        _ => r.pick(&["a**b", "[", "**", "[!a]", "***"]).to_string(),
    };
    VirtualTargetPath::new(s.clone()).unwrap_or_else(|_| VirtualTargetPath::from(s.as_str()))
}

pub fn gen_rule(r: &mut Rng, steps: &[String]) -> ArtifactRule {
    let p = gen_pattern(r);
    match r.below(8) {
        0 => ArtifactRule::Create(p),
        1 => ArtifactRule::Delete(p),
        2 => ArtifactRule::Modify(p),
        3 => ArtifactRule::Allow(p),
        4 => ArtifactRule::Require(p),
        5 => ArtifactRule::Disallow(p),
        _ => {
            let opt = |r: &mut Rng| -> Option<String> {
                match r.below(4) {
                    0 | 1 => None,
                    2 => Some(r.pick(&["sub", "dst", "a/b", "sub/"]).to_string()),
                    _ => Some(gen_string(r)),
                }
            };
            ArtifactRule::Match {
                pattern: p,
                in_src: opt(r),
                with: if r.chance(1, 2) { Artifact::Materials } else { Artifact::Products },
                in_dst: opt(r),
                from: if !steps.is_empty() && r.chance(3, 4) { r.pick(steps).clone() } else { gen_string(r) },
            }
        }
    }
}

pub fn gen_rules(r: &mut Rng, steps: &[String]) -> Vec<ArtifactRule> {
    (0..r.below(4)).map(|_| gen_rule(r, steps)).collect()
}

pub fn gen_expires(r: &mut Rng) -> DateTime<Utc> {
    use chrono::Timelike;
    match r.below(7) {
        // a leap second (RFC 3339 `:60`), in a minute where one was inserted and in an arbitrary one
        5 => Utc.with_ymd_and_hms(2016, 12, 31, 23, 59, 59).unwrap().with_nanosecond(1_000_000_000).unwrap(),
        6 => Utc.timestamp_opt((r.next() % 4_000_000_000) as i64 / 60 * 60 + 59, 0).unwrap().with_nanosecond(1_000_000_000).unwrap(),
        0 => DateTime::UNIX_EPOCH,
        1 => Utc.with_ymd_and_hms(2030, 12, 31, 23, 59, 59).unwrap(),
        2 => Utc.timestamp_opt((r.next() % 4_000_000_000) as i64, 0).unwrap(),
        3 => Utc.with_ymd_and_hms(9999, 12, 31, 23, 59, 59).unwrap(),
        _ => Utc.with_ymd_and_hms(1, 1, 1, 0, 0, 0).unwrap(),
    }
}

/// The key as it is, or (ed25519 / ecdsa) the same material with another `keyid_hash_algorithms` member:
/// absent, empty, one entry, the usual two in the other order, an unknown name.
pub fn key_variant(r: &mut Rng, k: &PublicKey) -> PublicKey {
    if r.chance(2, 3) {
        return k.clone();
    }
    let algs: Option<Vec<String>> = match r.below(6) {
        0 => None,
        1 => Some(vec![]),
        2 => Some(vec!["sha256".into()]),
        3 => Some(vec!["sha512".into(), "sha256".into()]),
        4 => Some(vec!["sha256".into(), "sha512".into(), "sha256".into()]),
        _ => Some(vec![gen_string(r)]),
    };
    let v = match k.typ() {
        KeyType::Ed25519 => PublicKey::from_ed25519_with_keyid_hash_algorithms(k.as_bytes().to_vec(), algs).ok(),
        KeyType::Ecdsa => PublicKey::from_ecdsa_with_keyid_hash_algorithms(k.as_bytes().to_vec(), algs).ok(),
        _ => None,
    };
    v.unwrap_or_else(|| k.clone())
}

fn hex_of(b: &[u8]) -> String {
    b.iter().map(|x| format!("{:02x}", x)).collect()
}

pub fn gen_layout(r: &mut Rng, pool: &[KeyInfo]) -> LayoutMetadata {
    let nsteps = r.below(4);
    let names: Vec<String> = (0..nsteps)
        .map(|i| if r.chance(3, 4) { format!("step{}", i) } else { gen_string(r) })
        .collect();
    let expires = gen_expires(r);
    // the builder itself is code under test: an expiry it cannot take is recorded and replaced
    let expires = match crate::proto::guarded(move || LayoutMetadataBuilder::new().expires(expires).build().map(|l| l.expires)) {
        Ok(_) => expires,
        Err(()) => {
            crate::proto::generator_panic("building a layout with a representable expiry panicked", format!("LayoutMetadataBuilder::new().expires({:?}).build()", expires));
            Utc.with_ymd_and_hms(2030, 1, 1, 0, 0, 0).unwrap()
        }
    };
    let mut b = LayoutMetadataBuilder::new().expires(expires).readme(gen_string(r));
    let nkeys = r.below(4);
    let mut ids = vec![];
    for _ in 0..nkeys {
        let k = r.pick(pool);
        let pk = key_variant(r, k.public());
        ids.push(pk.key_id().clone());
        b = b.add_key(pk);
    }
    let mut steps = vec![];
    for n in &names {
        let mut s = Step::new(n)
            .threshold(*r.pick(&[0u32, 1, 1, 2, 3, u32::MAX]))
            .expected_command(gen_command(r))
            .expected_materials(gen_rules(r, &names))
            .expected_products(gen_rules(r, &names));
        // (rules appended one by one)
        if r.chance(1, 4) {
            s = s.add_expected_material(gen_rule(r, &names)).add_expected_product(gen_rule(r, &names));
        }
        for id in &ids {
            if r.chance(1, 2) {
                s = s.add_key(id.clone());
            }
        }
        // a functionary known by key id only: a key of the pool that the key table does not hold, or an
        // id no key of the pool has
        if r.chance(1, 4) {
            let foreign = if r.chance(1, 2) { r.pick(pool).public().key_id().clone() } else { KeyId::from_str(&hex_of(&r.bytes(32))).unwrap() };
            s = s.add_key(foreign);
        }
        steps.push(s);
    }
    let mut insps = vec![];
    for i in 0..r.below(3) {
        let insp = Inspection::new(&format!("inspect{}", i))
            .run(gen_command(r))
            .expected_materials(gen_rules(r, &names))
            .expected_products(gen_rules(r, &names));
        insps.push(insp);
    }
    // every way the builder takes steps and inspections: one by one, all at once, appended in bulk
    match r.below(4) {
        0 => b = b.steps(steps),
        1 => b = b.add_steps(steps),
        2 if steps.len() >= 2 => {
            let rest = steps.split_off(1);
            b = b.add_step(steps.remove(0)).add_steps(rest);
        }
        _ => {
            for s in steps {
                b = b.add_step(s);
            }
        }
    }
    match r.below(3) {
        0 => b = b.inspects(insps),
        1 => b = b.add_inspects(insps),
        _ => {
            for i in insps {
                b = b.add_inspect(i);
            }
        }
    }
    b.build().unwrap()
}
