//! Independent reference encoder: OLPC canonical JSON as used by the in-toto / securesystemslib
//! reference implementations (`encode_canonical`): objects sorted by key, no whitespace, integers in
//! decimal, strings with only `\` and `"` escaped, everything else raw UTF-8. Floats are rejected.
use serde_json::Value;

pub fn olpc(v: &Value) -> Option<Vec<u8>> {
    let mut out = Vec::new();
    go(v, &mut out)?;
    Some(out)
}

fn esc(s: &str, out: &mut Vec<u8>) {
    out.push(b'"');
    for b in s.bytes() {
        if b == b'"' || b == b'\\' {
            out.push(b'\\');
        }
        out.push(b);
    }
    out.push(b'"');
}

fn go(v: &Value, out: &mut Vec<u8>) -> Option<()> {
    match v {
        Value::Null => out.extend(b"null"),
        Value::Bool(true) => out.extend(b"true"),
        Value::Bool(false) => out.extend(b"false"),
        Value::Number(n) => {
            if let Some(i) = n.as_i64() {
                out.extend(i.to_string().bytes());
            } else if let Some(u) = n.as_u64() {
                out.extend(u.to_string().bytes());
            } else {
                return None;
            }
        }
        Value::String(s) => esc(s, out),
        Value::Array(xs) => {
            out.push(b'[');
            for (i, x) in xs.iter().enumerate() {
                if i > 0 {
                    out.push(b',');
                }
                go(x, out)?;
            }
            out.push(b']');
        }
        Value::Object(m) => {
            let mut items: Vec<(&String, &Value)> = m.iter().collect();
            items.sort_by(|a, b| a.0.as_bytes().cmp(b.0.as_bytes()));
            out.push(b'{');
            for (i, (k, x)) in items.iter().enumerate() {
                if i > 0 {
                    out.push(b',');
                }
                esc(k, out);
                out.push(b':');
                go(x, out)?;
            }
            out.push(b'}');
        }
    }
    Some(())
}
