//! Interactive client of the Lean driver: lets a generator ask the executable model a question
//! while it is building a case (e.g. "which text does the model say is signed?").
use std::io::{BufRead, BufReader, Write};
use std::process::{Child, ChildStdin, ChildStdout, Command, Stdio};

pub struct Model {
    child: Child,
    stdin: ChildStdin,
    stdout: BufReader<ChildStdout>,
}

impl Model {
    pub fn start() -> Model {
        let path = std::env::var("ITV_DRIVER").unwrap_or_else(|_| "/verif/lean/.lake/build/bin/driver".to_string());
        let mut child = Command::new(path)
            .stdin(Stdio::piped())
            .stdout(Stdio::piped())
            .spawn()
            .expect("cannot start the Lean driver");
        let stdin = child.stdin.take().unwrap();
        let stdout = BufReader::new(child.stdout.take().unwrap());
        Model { child, stdin, stdout }
    }

    pub fn ask(&mut self, op: &str) -> String {
        writeln!(self.stdin, "{}", op).unwrap();
        self.stdin.flush().unwrap();
        let mut line = String::new();
        self.stdout.read_line(&mut line).unwrap();
        line.trim_end_matches('\n').to_string()
    }
}

impl Drop for Model {
    fn drop(&mut self) {
        let _ = self.child.kill();
        let _ = self.child.wait();
    }
}
