//! C14: untrusted bytes never crash verification (fuzz streams + targeted hostile inputs).
use crate::proto::{guarded, hex, Sink};
use crate::rng::Rng;
use crate::Cfg;
use in_toto::crypto::Signature;

/// `KeyId::prefix` on key ids accepted by the parser (any 64-byte string)
pub fn prefix_case(sink: &mut Sink, kid: &str) {
    let j = serde_json::json!({"keyid": kid, "sig": "00"});
    let parsed: Result<Signature, _> = serde_json::from_value(j);
    let ans = match parsed {
        Err(_) => "rejected".to_string(),
        Ok(sig) => match guarded(move || sig.key_id().prefix()) {
            Ok(p) => format!("ok {}", hex(p.as_bytes())),
            Err(()) => "panic".to_string(),
        },
    };
    sink.op(&format!("prefix8 {}", hex(kid.as_bytes())), &ans, kid.len() == 64);
    sink.oracle(ans != "panic", "KeyId::prefix panicked on a key id the parser accepts", &format!("prefix8 {}", hex(kid.as_bytes())));
}

pub fn run(cfg: &Cfg) {
    let mut sink = Sink::new(&cfg.out);
    let mut r = Rng::new(cfg.seed);
    let ascii = "0123456789abcdef".repeat(4);
    prefix_case(&mut sink, &ascii);
    prefix_case(&mut sink, &format!("aaaaaaa\u{e9}{}", "b".repeat(55)));
    prefix_case(&mut sink, &format!("\u{1F600}\u{1F600}{}", "c".repeat(56)));
    prefix_case(&mut sink, &"\u{e9}".repeat(32));
    prefix_case(&mut sink, "short");
    for _ in 0..200 {
        let mut s = String::new();
        while s.len() < 64 {
            let c = *r.pick(&['a', '0', '\u{e9}', '\u{4e2d}', '\u{1F600}', 'z']);
            if s.len() + c.len_utf8() <= 64 {
                s.push(c);
            }
        }
        prefix_case(&mut sink, &s);
    }
    sink.finish(&cfg.out, serde_json::json!({}));
}
