//! C14: untrusted bytes never crash verification — fuzz streams into every parser / importer and
//! hostile link directories (supporting evidence for library code), plus the probes of the repo's
//! own panic sites.
use crate::e2e;
use crate::jsongen::{gen_value, spell};
use crate::meta::{gen_layout, gen_link, key_pool, keys_dir, KeyInfo};
use crate::proto::{guarded, hex, Sink};
use crate::rng::Rng;
use crate::Cfg;
use in_toto::crypto::{PrivateKey, PublicKey, Signature, SignatureScheme};
use in_toto::models::{LayoutMetadata, LinkMetadata, Metablock, MetadataWrapper, PredicateWrapper, StatementWrapper};
use in_toto::verif_hooks as hooks;

/// `KeyId::prefix` on key ids accepted by the parser (any 64-byte string)
pub fn prefix_case(sink: &mut Sink, kid: &str) {
    let j = serde_json::json!({"keyid": kid, "sig": "00"});
    let parsed: Result<Signature, _> = serde_json::from_value(j);
    let ans = match parsed {
        Err(_) => "rejected".to_string(),
        Ok(sig) => match guarded(move || sig.key_id().prefix()) {
            Ok(p) => format!("ok {}", hex(p.as_bytes())),
            Err(()) => "panic".to_string(),
        },
    };
    sink.op(&format!("prefix8 {}", hex(kid.as_bytes())), &ans, kid.len() == 64);
    sink.oracle(ans != "panic", "KeyId::prefix panicked on a key id the parser accepts", &format!("prefix8 {}", hex(kid.as_bytes())));
}

fn mutate(r: &mut Rng, b: &[u8]) -> Vec<u8> {
    let mut m = b.to_vec();
    for _ in 0..1 + r.below(3) {
        if m.is_empty() {
            m.push(r.next() as u8);
            continue;
        }
        match r.below(6) {
            0 => {
                let i = r.below(m.len());
                m[i] = r.next() as u8;
            }
            1 => {
                let i = r.below(m.len());
                m[i] ^= 1 << r.below(8);
            }
            2 => {
                let n = r.below(m.len() + 1);
                m.truncate(n);
            }
            3 => {
                let i = r.below(m.len() + 1);
                m.insert(i, *r.pick(&[b'"', b'\\', b'{', b'}', b'[', b']', b',', b':', 0, 0xff, b'9', b'e', b'-']));
            }
            4 => {
                let i = r.below(m.len());
                let j = (i + 1 + r.below(8)).min(m.len());
                m.drain(i..j);
            }
            _ => {
                let i = r.below(m.len());
                let j = (i + 1 + r.below(16)).min(m.len());
                let chunk: Vec<u8> = m[i..j].to_vec();
                let at = r.below(m.len());
                for (k, c) in chunk.into_iter().enumerate() {
                    m.insert(at + k, c);
                }
            }
        }
    }
    m
}

/// run one entry point on one input; record only crashes (the model has nothing to say about library parsers)
fn feed(sink: &mut Sink, what: &str, input: &[u8], f: impl FnOnce(&[u8]) -> bool + std::panic::UnwindSafe) {
    let inp = input.to_vec();
    let res = guarded(move || f(&inp));
    sink.stat(&format!("fuzz/{}/{}", what, match res { Err(()) => "PANIC", Ok(true) => "accepted", Ok(false) => "rejected" }));
    sink.oracle(res.is_ok(), &format!("{} panicked on untrusted input", what), &format!("{} {}", what, hex(input)));
}

fn feed_all_parsers(sink: &mut Sink, input: &[u8]) {
    feed(sink, "Metablock::from_slice", input, |b| serde_json::from_slice::<Metablock>(b).is_ok());
    feed(sink, "MetadataWrapper::try_from_bytes", input, |b| MetadataWrapper::try_from_bytes(b).is_ok());
    feed(sink, "LayoutMetadata::from_slice", input, |b| serde_json::from_slice::<LayoutMetadata>(b).is_ok());
    feed(sink, "LinkMetadata::from_slice", input, |b| serde_json::from_slice::<LinkMetadata>(b).is_ok());
    feed(sink, "PublicKey::from_slice", input, |b| serde_json::from_slice::<PublicKey>(b).is_ok());
    feed(sink, "StatementWrapper::from_slice", input, |b| serde_json::from_slice::<StatementWrapper>(b).is_ok());
    feed(sink, "PredicateWrapper::from_slice", input, |b| serde_json::from_slice::<PredicateWrapper>(b).is_ok());
    feed(sink, "pae_unpack", input, |b| hooks::pae_unpack(b).is_ok());
}

/// One node of a DER document (definite lengths): tag, content, and the children of a constructed node.
struct Tlv {
    tag: u8,
    content: Vec<u8>,
    children: Option<Vec<Tlv>>,
}

fn der_parse(mut b: &[u8], depth: usize) -> Option<Vec<Tlv>> {
    let mut out = vec![];
    while !b.is_empty() {
        let tag = b[0];
        let (len, hdr) = match *b.get(1)? {
            l if l < 0x80 => (l as usize, 2),
            0x81 => (*b.get(2)? as usize, 3),
            0x82 => (((*b.get(2)? as usize) << 8) | *b.get(3)? as usize, 4),
            _ => return None,
        };
        let content = b.get(hdr..hdr + len)?.to_vec();
        let children = if tag & 0x20 != 0 && depth < 8 { der_parse(&content, depth + 1) } else { None };
        out.push(Tlv { tag, content, children });
        b = &b[hdr + len..];
    }
    Some(out)
}

fn der_write(nodes: &[Tlv], out: &mut Vec<u8>) {
    for n in nodes {
        let mut c = vec![];
        match &n.children {
            Some(ch) => der_write(ch, &mut c),
            None => c = n.content.clone(),
        }
        out.push(n.tag);
        if c.len() < 0x80 {
            out.push(c.len() as u8);
        } else if c.len() < 0x100 {
            out.extend([0x81, c.len() as u8]);
        } else {
            out.extend([0x82, (c.len() >> 8) as u8, c.len() as u8]);
        }
        out.extend(c);
    }
}

/// Well-formed DER with degenerate values: every primitive node of the document in turn emptied, cut to
/// its first byte (for a BIT STRING: nothing but the unused-bits count), cut to its first two bytes, or
/// doubled; every constructed node in turn emptied or robbed of its last child. Lengths are re-encoded,
/// so the importers meet values of the right shape with nothing - or too little - inside.
fn der_degenerate(der: &[u8]) -> Vec<Vec<u8>> {
    fn count(nodes: &[Tlv]) -> usize {
        nodes.iter().map(|n| 1 + n.children.as_ref().map_or(0, |c| count(c))).sum()
    }
    fn edit(nodes: &mut Vec<Tlv>, target: &mut usize, how: usize) -> bool {
        for n in nodes.iter_mut() {
            if *target == 0 {
                match (&mut n.children, how) {
                    (Some(ch), 0) => ch.clear(),
                    (Some(ch), 1) => {
                        ch.pop();
                    }
                    (Some(_), _) => return false,
                    (None, 0) => n.content.clear(),
                    (None, 1) => n.content.truncate(1),
                    (None, 2) => n.content.truncate(2),
                    (None, _) => {
                        let c = n.content.clone();
                        n.content.extend(c);
                    }
                }
                return true;
            }
            *target -= 1;
            if let Some(ch) = &mut n.children {
                if edit(ch, target, how) {
                    return true;
                }
                if *target == usize::MAX {
                    return false;
                }
            }
        }
        false
    }
    let mut out = vec![];
    let Some(tree) = der_parse(der, 0) else { return out };
    let n = count(&tree);
    for target in 0..n {
        for how in 0..4 {
            let mut t = der_parse(der, 0).unwrap();
            let mut tg = target;
            if edit(&mut t, &mut tg, how) {
                let mut b = vec![];
                der_write(&t, &mut b);
                if b != der {
                    out.push(b);
                }
            }
        }
    }
    out
}

fn feed_key_importers(sink: &mut Sink, input: &[u8]) {
    for scheme in [SignatureScheme::Ed25519, SignatureScheme::EcdsaP256Sha256, SignatureScheme::RsaSsaPssSha256] {
        let s1 = scheme.clone();
        feed(sink, "PublicKey::from_spki", input, move |b| PublicKey::from_spki(b, s1).is_ok());
        let s2 = scheme.clone();
        feed(sink, "PrivateKey::from_pkcs8", input, move |b| PrivateKey::from_pkcs8(b, s2).is_ok());
        let s3 = scheme.clone();
        feed(sink, "PublicKey::from_pem_spki", input, move |b| PublicKey::from_pem_spki(&String::from_utf8_lossy(b), s3).is_ok());
    }
    feed(sink, "PublicKey::from_ed25519", input, |b| PublicKey::from_ed25519(b.to_vec()).is_ok());
    feed(sink, "PrivateKey::from_ed25519", input, |b| PrivateKey::from_ed25519(b).is_ok());
    feed(sink, "PublicKey::from_ecdsa", input, |b| PublicKey::from_ecdsa(b.to_vec()).is_ok());
}

static HANG_REPORTED: std::sync::atomic::AtomicBool = std::sync::atomic::AtomicBool::new(false);

/// a verification run over a link directory seeded with hostile files
fn hostile_dir_case(sink: &mut Sink, r: &mut Rng, pool: &[KeyInfo], forced: Option<&str>) {
    let mut g = e2e::Gen { r, pool, insp_counter: 0, force_delegate: false, multi_party: false, co_delegate: false, now: e2e::base_now(), reuse_keys: vec![], inner_insp_always: false, same_material_pair: false };
    let mut s = g.valid(1, false);
    // half of the time the scenario itself is faulty in one of the catalogued ways (threshold 0 with no
    // evidence, missing / unauthorized links, expired or tampered sub-layouts, ...): unusual but
    // well-typed content
    if let Some(kind) = forced {
        let _ = crate::e2e_props::inject_kind("C02", kind, &mut s, g.r, pool);
    } else if g.r.chance(1, 2) {
        let prop = *g.r.pick(&["C01", "C02", "C02", "C06", "C07", "C15"]);
        let _ = crate::e2e_props::inject(prop, &mut s, g.r, pool);
    } else if g.r.chance(1, 2) {
        // empty collections where the pipeline expects at least one element
        let kind = *g.r.pick(&["threshold_zero_nolinks", "threshold_zero_onelink", "no_steps", "no_steps_inner", "caller_empty"]);
        let _ = crate::e2e_props::inject_kind("C02", kind, &mut s, g.r, pool);
    }
    // hostile files next to (or instead of) the real evidence
    let step_names: Vec<String> = match &s.block.meta {
        e2e::SMeta::Layout(l) => l.steps.iter().map(|x| x.name.clone()).collect(),
        _ => vec![],
    };
    let tmp = tempfile::Builder::new().prefix("itv-hostile-").tempdir().unwrap();
    let links = tmp.path().join("links");
    e2e::write_dir(pool, &s.dir, &links);
    let r = g.r;
    for st in &step_names {
        // (sometimes a step gets no hostile file, so that later stages are reached with whatever the
        // injected fault left)
        for _ in 0..(if forced.is_some() { 0 } else { r.below(4) }) {
            let prefix: String = match r.below(5) {
                0 => "????????".into(),
                1 => "\u{e9}\u{e9}\u{e9}\u{e9}".into(), // 8 bytes, 4 chars
                2 => "aaaaaaa\u{e9}".into(),
                3 => "00000000".into(),
                _ => (0..8).map(|_| *r.pick(&['a', '0', '.', '-', '\u{4e2d}'])).collect(),
            };
            let name = format!("{}.{}.link", st, prefix);
            let kid_weird = format!("aaaaaaa\u{e9}{}", "b".repeat(55));
            let body: Vec<u8> = match r.below(9) {
                8 => format!("{{\"signatures\":[],\"signed\":{{\"_type\":\"layout\",\"expires\":\"{}\",\"readme\":\"\",\"keys\":{{}},\"inspect\":[],\"steps\":[]}}}}",
                    r.pick(&["9999-12-31T23:59:59Z", "0000-01-01T00:00:00Z", "2262-04-12T00:00:00Z", "1677-09-20T00:00:00Z", "9999-12-31T23:59:60-23:59"])).into_bytes(),
                0 => vec![],
                1 => b"{".to_vec(),
                2 => vec![0xff, 0xfe, 0x00],
                3 => format!("{{\"signatures\":[{{\"keyid\":\"{}\",\"sig\":\"00\"}}],\"signed\":{}}}", kid_weird, serde_json::to_string(&gen_link(r, Some(st))).unwrap()).into_bytes(),
                4 => format!("{{\"signatures\":[],\"signed\":{}}}", serde_json::to_string(&gen_link(r, Some(st))).unwrap()).into_bytes(),
                5 => "[".repeat(300).into_bytes(),
                6 => format!("{{\"signatures\":[{{\"keyid\":\"{}\",\"sig\":\"zz\"}}],\"signed\":null}}", "\u{e9}".repeat(32)).into_bytes(),
                _ => {
                    let base = serde_json::to_vec(&Metablock::new(MetadataWrapper::Link(gen_link(r, Some(st))), &[&pool[0].key]).unwrap()).unwrap();
                    mutate(r, &base)
                }
            };
            if r.chance(1, 10) {
                let _ = std::fs::create_dir_all(links.join(&name)); // a directory named like a link file
            } else {
                let _ = std::fs::write(links.join(&name), body);
            }
        }
    }
    s.faults.clear();
    let text = e2e::block_text(pool, &s.block);
    let mut keys = std::collections::HashMap::new();
    for &k in &s.caller_keys {
        keys.insert(pool[k].public().key_id().clone(), pool[k].public().clone());
    }
    hooks::set_now(Some(s.now));
    let links_str = links.to_str().unwrap().to_string();
    // (an injected fault may have given a sub-layout an inspection: inspections record and write the
    // working directory, which must be the scenario's own scratch directory)
    let cwd = tmp.path().join("cwd");
    std::fs::create_dir_all(&cwd).unwrap();
    let old = std::env::current_dir().unwrap();
    std::env::set_current_dir(&cwd).unwrap();
    let now = s.now;
    let text2 = text.clone();
    let came_back = crate::proto::with_deadline(crate::proto::DEADLINE_SECS, move || {
        hooks::set_now(Some(now));
        let r = guarded(std::panic::AssertUnwindSafe(|| {
            let block: Metablock = serde_json::from_str(&text2).unwrap();
            in_toto::verifylib::in_toto_verify(&block, keys, &links_str, None).is_ok()
        }));
        hooks::set_now(None);
        r
    });
    std::env::set_current_dir(&old).unwrap();
    hooks::set_now(None);
    let replay = format!("hostile-dir seed-derived; layout {}", hex(text.as_bytes()));
    let res = match came_back {
        Some(r) => r,
        None => {
            let first = !HANG_REPORTED.swap(true, std::sync::atomic::Ordering::SeqCst);
            sink.stat("hostile-dir/HUNG");
            if first {
                sink.oracle(false, "in_toto_verify did not come back within the deadline of several minutes (it must terminate on every link directory)", &replay);
            }
            return;
        }
    };
    sink.stat(&format!("hostile-dir/{}", match res { Err(()) => "PANIC", Ok(true) => "ok", Ok(false) => "err" }));
    sink.oracle(res.is_ok(), "in_toto_verify panicked on a link directory with hostile files", &replay);
}

// ------------------------------------------------------------------------------------------------
// Delegation shapes in the link directory: cycles through symbolic links, chains as deep as the file
// system allows.  A stack overflow or an endless recursion cannot be caught in-process, so each shape is
// verified in a child process (`itv C14 --replay shape:<name>`), and the parent looks at how it ended.

const SHAPES: &[&str] = &["self-symlink", "parent-symlink", "two-step-cycle", "absolute-symlink", "deep-8", "deep-60", "deep-max", "dangling-symlink", "symlink-to-file"];

/// Builds the shape under `root` and runs `in_toto_verify`; returns "ok" / "err" (or panics).
fn shape_verify(shape: &str, root: &std::path::Path) -> &'static str {
    use in_toto::models::step::Step;
    use in_toto::models::{LayoutMetadataBuilder, LinkMetadataBuilder};
    let pool = key_pool(0);
    let (func, owner) = (&pool[0], &pool[1]);
    let now = e2e::base_now();
    let k8 = func.public().key_id().prefix();
    let step = |name: &str| Step::new(name).add_key(func.public().key_id().clone()).threshold(1);
    let layout_with = |steps: Vec<Step>| {
        let mut b = LayoutMetadataBuilder::new().expires(now + chrono::Duration::days(30)).add_key(func.public().clone());
        for st in steps {
            b = b.add_step(st);
        }
        b.build().unwrap()
    };
    let sub_block = |steps: Vec<Step>| serde_json::to_vec(&Metablock::new(MetadataWrapper::Layout(layout_with(steps)), &[&func.key]).unwrap()).unwrap();
    let real_link = |name: &str| {
        let l = LinkMetadataBuilder::new().name(name.to_string()).build().unwrap();
        serde_json::to_vec(&Metablock::new(MetadataWrapper::Link(l), &[&func.key]).unwrap()).unwrap()
    };
    let links = root.join("links");
    std::fs::create_dir_all(&links).unwrap();
    let file = |n: &str| format!("{}.{}.link", n, k8);
    let dir = |n: &str| format!("{}.{}", n, k8);
    let symlink = |target: &std::path::Path, at: &std::path::Path| std::os::unix::fs::symlink(target, at).unwrap();
    match shape {
        "self-symlink" | "parent-symlink" | "absolute-symlink" | "dangling-symlink" | "symlink-to-file" => {
            // the sub-layout delegates the same step to the same functionary; its sub-directory leads back
            std::fs::write(links.join(file("build")), sub_block(vec![step("build")])).unwrap();
            match shape {
                "self-symlink" => symlink(std::path::Path::new("."), &links.join(dir("build"))),
                "parent-symlink" => symlink(std::path::Path::new("../links"), &links.join(dir("build"))),
                "absolute-symlink" => symlink(&links.canonicalize().unwrap(), &links.join(dir("build"))),
                "dangling-symlink" => symlink(std::path::Path::new("nowhere"), &links.join(dir("build"))),
                _ => symlink(std::path::Path::new(&file("build")), &links.join(dir("build"))),
            }
        }
        "two-step-cycle" => {
            // build -> (sub-layout with step pack) -> (sub-layout with step build) -> ...
            std::fs::write(links.join(file("build")), sub_block(vec![step("pack")])).unwrap();
            let d1 = links.join(dir("build"));
            std::fs::create_dir_all(&d1).unwrap();
            std::fs::write(d1.join(file("pack")), sub_block(vec![step("build")])).unwrap();
            symlink(std::path::Path::new(".."), &d1.join(dir("pack")));
        }
        _ => {
            // a genuine chain of delegations, as deep as asked (or as deep as PATH_MAX allows), ending in a link
            let depth: usize = if shape == "deep-max" { 10_000 } else { shape[5..].parse().unwrap() };
            let mut cur = links.clone();
            let mut made = 0;
            for _ in 0..depth {
                let next = cur.join(dir("build"));
                if next.as_os_str().len() > 3900 || std::fs::create_dir(&next).is_err() {
                    break;
                }
                std::fs::write(cur.join(file("build")), sub_block(vec![step("build")])).unwrap();
                cur = next;
                made += 1;
            }
            let _ = made;
            std::fs::write(cur.join(file("build")), real_link("build")).unwrap();
        }
    }
    let top = Metablock::new(MetadataWrapper::Layout(layout_with(vec![step("build")])), &[&owner.key]).unwrap();
    let mut keys = std::collections::HashMap::new();
    keys.insert(owner.public().key_id().clone(), owner.public().clone());
    hooks::set_now(Some(now));
    let r = in_toto::verifylib::in_toto_verify(&top, keys, links.to_str().unwrap(), None);
    hooks::set_now(None);
    if r.is_ok() { "ok" } else { "err" }
}

/// child side: exit status 0 = returned Ok, 1 = returned Err, 3 = panicked (caught)
pub fn shape_child(shape: &str) -> ! {
    // (the scratch directory belongs to the parent, which removes it however this process ends; a
    // replay by hand gets its own)
    let own = if std::env::var("ITV_SHAPE_DIR").is_err() { Some(tempfile::Builder::new().prefix("itv-shape-").tempdir().unwrap()) } else { None };
    let root = match &own {
        Some(t) => t.path().to_path_buf(),
        None => std::path::PathBuf::from(std::env::var("ITV_SHAPE_DIR").unwrap()),
    };
    let sh = shape.to_string();
    let res = guarded(std::panic::AssertUnwindSafe(move || shape_verify(&sh, &root)));
    drop(own);
    std::process::exit(match res { Ok("ok") => 0, Ok(_) => 1, Err(()) => 3 })
}

fn shape_case(sink: &mut Sink, shape: &str) {
    use std::io::Read;
    let exe = std::env::current_exe().unwrap();
    let scratch = tempfile::Builder::new().prefix("itv-shape-").tempdir().unwrap();
    let mut child = std::process::Command::new(exe)
        .args(["C14", "--replay", &format!("shape:{}", shape)])
        .env("ITV_SHAPE_DIR", scratch.path())
        .stdout(std::process::Stdio::null())
        .stderr(std::process::Stdio::piped())
        .spawn()
        .unwrap();
    let t0 = std::time::Instant::now();
    let status = loop {
        match child.try_wait().unwrap() {
            Some(st) => break Some(st),
            None if t0.elapsed().as_secs() > 60 => {
                let _ = child.kill();
                let _ = child.wait();
                break None;
            }
            None => std::thread::sleep(std::time::Duration::from_millis(20)),
        }
    };
    let mut err = String::new();
    if let Some(mut e) = child.stderr.take() {
        let _ = e.read_to_string(&mut err);
    }
    let replay = format!("delegation shape `{}` in the link directory (re-run: itv C14 --replay shape:{})", shape, shape);
    let how = match status {
        None => "did not return within 60 s".to_string(),
        Some(st) => match st.code() {
            Some(0) => "ok".into(),
            Some(1) => "err".into(),
            Some(3) => "panicked".into(),
            Some(c) => format!("exited with {}", c),
            None => {
                use std::os::unix::process::ExitStatusExt;
                format!("was killed by signal {}{}", st.signal().unwrap_or(0), if err.contains("overflowed its stack") { " (stack overflow)" } else { "" })
            }
        },
    };
    drop(scratch);
    sink.stat(&format!("delegation-shape/{}/{}", shape, how.split(' ').next().unwrap()));
    sink.oracle(how == "ok" || how == "err", &format!("in_toto_verify {} on a link directory whose delegation structure is unusual", how), &replay);
    // a genuine chain verifies, a cycle cannot
    if shape.starts_with("deep-") {
        sink.oracle(how != "err", "a genuine chain of delegations ending in a valid link is rejected", &replay);
    } else {
        sink.oracle(how != "ok", "a delegation that never reaches a link is accepted", &replay);
    }
}

pub fn run(cfg: &Cfg) {
    if let Some(p) = &cfg.replay {
        if let Some(shape) = p.to_str().and_then(|s| s.strip_prefix("shape:")) {
            shape_child(shape);
        }
    }
    let mut sink = Sink::new(&cfg.out);
    let mut r = Rng::new(cfg.seed);
    let pool = key_pool(1);
    // ---- delegation shapes (each in a child process)
    for shape in SHAPES {
        shape_case(&mut sink, shape);
    }
    // ---- the repo's own former panic sites
    let ascii = "0123456789abcdef".repeat(4);
    prefix_case(&mut sink, &ascii);
    prefix_case(&mut sink, &format!("aaaaaaa\u{e9}{}", "b".repeat(55)));
    prefix_case(&mut sink, &format!("\u{1F600}\u{1F600}{}", "c".repeat(56)));
    prefix_case(&mut sink, &"\u{e9}".repeat(32));
    prefix_case(&mut sink, "short");
    for _ in 0..200 {
        let mut s = String::new();
        while s.len() < 64 {
            let c = *r.pick(&['a', '0', '\u{e9}', '\u{4e2d}', '\u{1F600}', 'z']);
            if s.len() + c.len_utf8() <= 64 {
                s.push(c);
            }
        }
        prefix_case(&mut sink, &s);
    }
    feed_key_importers(&mut sink, b"garbage");
    feed_key_importers(&mut sink, b"-----BEGIN PUBLIC KEY-----\nAAAA\n-----END PUBLIC KEY-----");
    feed_key_importers(&mut sink, &[0x30, 0x00]);

    // ---- signed blocks read from JSON and verified with every threshold from 0 to one more than their
    //      signers (fewer, exactly as many, and more good signatures than asked for), key lists that
    //      repeat, omit or add keys, signature lists that repeat or drop entries
    for _ in 0..(if cfg.thorough { 600 } else { 60 }) {
        let n = 1 + r.below(4);
        let signers: Vec<&KeyInfo> = (0..n).map(|_| r.pick(&pool)).collect();
        let meta = if r.chance(1, 2) { MetadataWrapper::Link(gen_link(&mut r, None)) } else { MetadataWrapper::Layout(gen_layout(&mut r, &pool)) };
        let keys: Vec<&in_toto::crypto::PrivateKey> = signers.iter().map(|k| &k.key).collect();
        let mb = match Metablock::new(meta, &keys) {
            Ok(m) => m,
            Err(_) => continue,
        };
        let text = serde_json::to_string(&mb).unwrap();
        let mut j: serde_json::Value = serde_json::from_str(&text).unwrap();
        if let Some(sigs) = j["signatures"].as_array_mut() {
            match r.below(4) {
                0 if !sigs.is_empty() => {
                    let d = sigs[0].clone();
                    sigs.push(d);
                }
                1 if !sigs.is_empty() => {
                    sigs.pop();
                }
                _ => {}
            }
        }
        let text = j.to_string();
        for t in 0..=(n as u32 + 1) {
            let mut auth: Vec<PublicKey> = signers.iter().map(|k| k.public().clone()).collect();
            match r.below(4) {
                0 => auth.push(r.pick(&pool).public().clone()),
                1 => {
                    auth.pop();
                }
                2 => auth.push(auth[0].clone()),
                _ => {}
            }
            let t2 = text.clone();
            let res = guarded(move || serde_json::from_str::<Metablock>(&t2).map(|m| m.verify(t, auth.iter()).is_ok()).unwrap_or(false));
            sink.stat(&format!("block-verify/{}-of-{}/{}", t, n, match res { Err(()) => "PANIC", Ok(true) => "ok", Ok(false) => "err" }));
            sink.oracle(res.is_ok(), "Metablock::verify panicked on a well-typed signed block", &format!("threshold {} block {}", t, hex(text.as_bytes())));
        }
    }

    // ---- texts around the escape sequences of the signed form: a literal backslash followed by what looks
    //      like an escape (`\u` and then letters of two, three and four bytes, too few digits, the end of the
    //      text), in every string of a link that is signed, verified and re-signed, and in a key description
    for t in ["\\u\u{65e5}\u{672c}", "dist\\ua\u{e9}\u{e9}.bin", "C:\\u\u{65e5}\u{672c}\\out.txt", "\\u00e9", "D:\\ufeed", "\\u0041\\u0042", "say \\u000a", "\\u", "\\", "x\\", "\\u12", "\\u\u{1F600}", "\\u00\u{e9}9", "\"\\u", "\\\\u\u{e9}\u{e9}\u{e9}", "\\n\\u\u{e9}", "\\ud800", "\\uDFFF\u{e9}", "\\u+123", "\n\\u\u{4e2d}", "\\b\\f\\r\\t\\/"] {
        let meta = crate::c11::link_with(t);
        let key = &pool[0];
        let replay = format!("signed-text string {}", hex(t.as_bytes()));
        let (m2, k2) = (meta.clone(), key.reload());
        let res = guarded(move || {
            let mb = Metablock::new(m2.clone(), &[&k2]).ok();
            let ok = mb.as_ref().map_or(false, |m| m.verify(1, [k2.public()]).is_ok());
            let built = in_toto::models::MetablockBuilder::from_metadata(m2.into_trait()).sign(&[&k2]).map(|b| b.build());
            let ok2 = built.map_or(false, |m| m.verify(1, [k2.public()]).is_ok());
            // read from a file whose signature is anything: the signed text is built before signatures are looked at
            let text = mb.as_ref().map(|m| serde_json::to_string(m).unwrap()).unwrap_or_default();
            let ok3 = serde_json::from_str::<Metablock>(&text).ok().map_or(false, |m| m.verify(1, [k2.public()]).is_ok());
            ok && ok2 && ok3
        });
        sink.stat(&format!("escape-like-text/{}", match res { Err(()) => "PANIC", Ok(true) => "signs-and-verifies", Ok(false) => "refused" }));
        sink.oracle(res.is_ok(), "signing or verifying a link panicked on a string with a backslash followed by escape-like text", &replay);
        sink.oracle(res != Ok(false), "a link with a backslash followed by escape-like text in its strings does not verify under the key that just signed it", &replay);
        let doc = serde_json::json!({"keytype": "ed25519", "scheme": "ed25519", "keyid_hash_algorithms": [t], "keyval": {"public": "a".repeat(64)}}).to_string();
        feed(&mut sink, "serde_json::from_slice::<PublicKey>", doc.as_bytes(), |b| serde_json::from_slice::<PublicKey>(b).is_ok());
    }

    // ---- seeds: valid documents of every kind
    let mut seeds: Vec<Vec<u8>> = vec![];
    for _ in 0..8 {
        let layout = gen_layout(&mut r, &pool);
        let link = gen_link(&mut r, None);
        seeds.push(serde_json::to_vec(&layout).unwrap());
        seeds.push(serde_json::to_vec(&link).unwrap());
        let k = r.pick(&pool);
        seeds.push(serde_json::to_vec(&Metablock::new(MetadataWrapper::Layout(layout), &[&k.key]).unwrap()).unwrap());
        seeds.push(serde_json::to_vec(k.public()).unwrap());
        seeds.push(serde_json::to_vec(&crate::attgen::gen_v01(&mut r).0).unwrap());
        seeds.push(serde_json::to_vec(&crate::attgen::gen_naive(&mut r)).unwrap());
        seeds.push(serde_json::to_vec(&crate::attgen::gen_predicate(&mut r).1).unwrap());
        seeds.push(hooks::pae_pack(b"payload", "application/vnd.in-toto+json".into()));
    }
    let mut der_seeds: Vec<Vec<u8>> = vec![];
    for f in ["ec.pk8.der", "ed25519-1.pk8.der", "rsa-2048.pk8.der", "rsa-2048.spki.der", "ec.spki.der", "ed25519-1.spki.der", "ed25519-1.pub"] {
        der_seeds.push(std::fs::read(keys_dir().join(f)).unwrap());
    }
    // well-formed documents with degenerate values, as DER and as the PEM text of a key description
    for f in ["ec.spki.der", "ed25519-1.spki.der", "rsa-2048.spki.der", "ec.pk8.der", "ed25519-1.pk8.der"] {
        let der = std::fs::read(keys_dir().join(f)).unwrap();
        for d in der_degenerate(&der) {
            feed_key_importers(&mut sink, &d);
            if f.ends_with("spki.der") {
                let pem_text = pem::encode(&pem::Pem::new("PUBLIC KEY", d.clone()));
                feed_key_importers(&mut sink, pem_text.as_bytes());
                for (kt, scheme) in [("rsa", "rsassa-pss-sha256"), ("rsa", "ecdsa-sha2-nistp256"), ("ecdsa", "ecdsa-sha2-nistp256"), ("ed25519", "ed25519")] {
                    let doc = serde_json::json!({"keytype": kt, "scheme": scheme, "keyid_hash_algorithms": ["sha256", "sha512"], "keyval": {"public": pem_text}}).to_string();
                    feed(&mut sink, "serde_json::from_slice::<PublicKey>", doc.as_bytes(), |b| serde_json::from_slice::<PublicKey>(b).is_ok());
                }
            }
        }
    }
    der_seeds.push(pem::encode(&pem::Pem::new("PUBLIC KEY", std::fs::read(keys_dir().join("ec.spki.der")).unwrap())).into_bytes());
    let n = if cfg.thorough { 12_000 } else { 700 };
    for i in 0..n {
        let mut r = r.at(i as u64);
        let input = match i % 5 {
            0 => {
                let k = r.below(64);
                r.bytes(k)
            }
            1 => spell(&gen_value(&mut r, 3, 100), &mut r).into_bytes(),
            _ => {
                let s = r.pick(&seeds).clone();
                mutate(&mut r, &s)
            }
        };
        feed_all_parsers(&mut sink, &input);
        let d = if i % 3 == 0 { let k = r.below(80); r.bytes(k) } else { let s = r.pick(&der_seeds).clone(); mutate(&mut r, &s) };
        feed_key_importers(&mut sink, &d);
    }
    // envelope pre-authentication encodings whose text fields are not text: a field that ends inside a
    // multi-byte character (the declared length cuts it, the input ends there, the length field itself ends
    // in a lead byte), bytes that are no UTF-8 at all, and every truncation of an envelope with non-ASCII
    // type and payload; each error is also turned into its message (a `Display` that panics is a panic)
    {
        let mut frames: Vec<Vec<u8>> = vec![
            b"DSSEv1 2 l\xc3\xadnk 0 ".to_vec(),
            b"DSSEv1 4\xc3 link 0 ".to_vec(),
            b"DSSEv1 3 \xe2\x82".to_vec(),
            b"DSSEv1 3 \xe2\x82\xac 1 \xe2".to_vec(),
            b"DSSEv1 1 \xf0 0 ".to_vec(),
            b"DSSEv1 2 \xf0\x9f 0 ".to_vec(),
            b"DSSEv1 3 \xf0\x9f\x98 0 ".to_vec(),
            b"DSSEv1 1 \xff 0 ".to_vec(),
            b"DSSEv1 \xe2\x82 x 0 ".to_vec(),
            b"DSSEv1 1 x \xe2\x82".to_vec(),
            b"DSSEv1 1 x 2\xe2 ab".to_vec(),
        ];
        let whole = hooks::pae_pack("pay\u{20ac}load \u{1F600}".as_bytes(), "application/vnd.\u{e9}t\u{e9}+json\u{1F600}".into());
        for cut in 0..whole.len() {
            frames.push(whole[..cut].to_vec());
        }
        for f in &frames {
            feed(&mut sink, "pae_unpack", f, |b| hooks::pae_unpack(b).map_err(|e| e.to_string()).is_ok());
            feed(&mut sink, "pae_try_unpack", f, |b| hooks::pae_try_unpack(b).map_err(|e| e.to_string()).is_ok());
        }
        // the conversions from the standard library's text errors, as such
        for bad in [&[0xe2u8, 0x82][..], &[0xff], &[0x61, 0xc3], &[0xf0, 0x9f, 0x98], &[0xc3, 0x28]] {
            let b = bad.to_vec();
            let res = guarded(move || {
                let e1: in_toto::Error = std::str::from_utf8(&b).unwrap_err().into();
                let _ = e1.to_string();
                true
            });
            sink.oracle(res.is_ok(), "turning a text-decoding error into the crate's error panicked", &format!("bytes {}", hex(bad)));
        }
    }
    // SLSA provenance v0.1 predicates whose `recipe.definedInMaterial` points at every place around the list of
    // materials: inside it, at its last element, just past it, far past it - with no, one, two, three materials,
    // with the list absent - alone and inside a statement
    for nmat in 0..=3usize {
        for dim in 0..=(nmat as u64 + 2) {
            for absent in [false, true] {
                if absent && nmat > 0 {
                    continue;
                }
                let mats: Vec<serde_json::Value> = (0..nmat).map(|i| serde_json::json!({"uri": format!("git+https://example.org/r{}", i), "digest": {"sha1": "d6525c840a62b398424a78d792f457477135d0cf"}})).collect();
                let mut pred = serde_json::json!({"builder": {"id": "https://example.org/builder"}, "recipe": {"type": "https://example.org/make", "definedInMaterial": dim, "entryPoint": "all"}});
                if !absent {
                    pred["materials"] = serde_json::Value::Array(mats);
                }
                feed_all_parsers(&mut sink, pred.to_string().as_bytes());
                let stmt = serde_json::json!({"_type": "https://in-toto.io/Statement/v0.1", "subject": {"out.bin": {"sha256": "ab".repeat(32)}}, "predicateType": "https://slsa.dev/provenance/v0.1", "predicate": pred});
                feed_all_parsers(&mut sink, stmt.to_string().as_bytes());
            }
        }
    }
    // deep nesting up to and beyond serde_json's recursion limit
    for depth in [10usize, 100, 127, 128, 129, 1000, 100_000] {
        let open: String = "[".repeat(depth);
        feed_all_parsers(&mut sink, open.as_bytes());
        let obj: String = "{\"a\":".repeat(depth);
        feed_all_parsers(&mut sink, obj.as_bytes());
        let closed = format!("{}{}", "[".repeat(depth), "]".repeat(depth));
        feed_all_parsers(&mut sink, closed.as_bytes());
    }
    // extreme numbers in otherwise valid documents
    for num in ["18446744073709551615", "18446744073709551616", "-9223372036854775809", "1e400", "-0", "4294967296", "1.5"] {
        let doc = format!("{{\"_type\":\"layout\",\"expires\":\"2030-01-01T00:00:00Z\",\"readme\":\"\",\"keys\":{{}},\"inspect\":[],\"steps\":[{{\"_type\":\"step\",\"threshold\":{},\"name\":\"s\",\"expected_materials\":[],\"expected_products\":[],\"pubkeys\":[],\"expected_command\":[]}}]}}", num);
        feed_all_parsers(&mut sink, doc.as_bytes());
    }
    // extreme but representable dates (RFC 3339 years 0000-9999, leap seconds, offsets that cross the ends)
    for date in ["0000-01-01T00:00:00Z", "0001-01-01T00:00:00Z", "1677-09-21T00:12:43Z", "1677-09-21T00:12:44Z", "1901-12-13T20:45:51Z", "1969-12-31T23:59:59.999999999Z",
        "2038-01-19T03:14:08Z", "2262-04-11T23:47:16Z", "2262-04-11T23:47:17Z", "9999-12-31T23:59:59Z", "9999-12-31T23:59:60Z", "9999-12-31T23:59:59-23:59",
        "0000-01-01T00:00:00+23:59", "2016-12-31T23:59:60Z", "2016-12-31T23:59:60.999999999+14:00"] {
        let layout = format!("{{\"_type\":\"layout\",\"expires\":\"{}\",\"readme\":\"\",\"keys\":{{}},\"inspect\":[],\"steps\":[]}}", date);
        feed_all_parsers(&mut sink, layout.as_bytes());
        feed_all_parsers(&mut sink, format!("{{\"signatures\":[],\"signed\":{}}}", layout).as_bytes());
        let pred = format!("{{\"builder\":{{\"id\":\"b\"}},\"metadata\":{{\"buildStartedOn\":\"{}\",\"buildFinishedOn\":\"{}\"}}}}", date, date);
        feed_all_parsers(&mut sink, pred.as_bytes());
    }
    // ---- rule application on well-typed but hostile rules and artifact names (empty and root prefixes,
    //      rejected patterns, names that clean to `/` or to nothing)
    for _ in 0..(if cfg.thorough { 60_000 } else { 6_000 }) {
        let s = crate::c03::gen_hostile_scn(&mut r);
        let ans = crate::c03::run_impl(&s);
        sink.stat(&format!("hostile-rules/{}", ans));
        sink.oracle(ans != "panic", "apply_rules_on_link panicked on well-typed rules and artifact names", &format!("rules {}", crate::c03::encode(&s)));
    }
    // ---- hostile link directories
    let nd = if cfg.thorough { 1500 } else { 120 };
    for _ in 0..nd {
        hostile_dir_case(&mut sink, &mut r, &pool, None);
    }
    // ---- degenerate but well-typed scenarios, without hostile files, so that every later stage is
    //      reached: empty collections where the pipeline expects an element, extreme thresholds
    for kind in ["threshold_zero_nolinks", "threshold_zero_onelink", "no_steps", "no_steps_inner", "caller_empty", "threshold_raised", "link_removed", "key_not_in_table", "link_wrong_type"] {
        for _ in 0..(if cfg.thorough { 60 } else { 8 }) {
            hostile_dir_case(&mut sink, &mut r, &pool, Some(kind));
        }
    }
    sink.finish(&cfg.out, serde_json::json!({}));
}
