//! JSON *text* against `Model/JsonText.lean` (C10, C17): what `serde_json::from_str::<Value>` reads out
//! of a text - valid values in arbitrary spellings, numerals of every shape, nesting around the
//! recursion limit, surrogate escapes, and one-character edits of valid texts.
use crate::jsongen::{gen_value, proto, spell};
use crate::proto::{guarded, hex, Sink};
use crate::rng::Rng;
use serde_json::Value;

pub fn text_case(sink: &mut Sink, text: &str, class: &str) {
    let t = text.to_string();
    let res = guarded(move || serde_json::from_str::<Value>(&t));
    let op = format!("readtext {}", hex(text.as_bytes()));
    let ans = match &res {
        Err(()) => {
            sink.oracle(false, "the JSON reader panicked", &op);
            return;
        }
        Ok(Ok(v)) => format!("ok {}", proto(v, &mut None)),
        Ok(Err(_)) => "none".to_string(),
    };
    sink.stat(&format!("readtext/{}/{}", class, if ans == "none" { "rejected" } else { "accepted" }));
    sink.op(&op, &ans, text.len() > 1);
}

/// a numeral whose `f64` verdict does not fall into the unmodelled window 1e308 <= |x| < 1e309
fn outside_window(int_digits: &str, frac: &str, exp: i64) -> bool {
    let m: String = format!("{}{}", int_digits, frac).trim_start_matches('0').to_string();
    if m.is_empty() {
        return true;
    }
    m.len() as i64 + exp - frac.len() as i64 != 309
}

fn gen_numeral(r: &mut Rng) -> String {
    let neg = if r.chance(1, 3) { "-" } else { "" };
    let int_digits: String = match r.below(8) {
        0 => "0".into(),
        1 => r.pick(&["18446744073709551615", "18446744073709551616", "9223372036854775807", "9223372036854775808", "9223372036854775809", "4294967296", "1"]).to_string(),
        2 => {
            let n = 1 + r.below(30);
            let mut s = String::new();
            s.push(char::from(b'1' + r.below(9) as u8));
            for _ in 1..n {
                s.push(char::from(b'0' + r.below(10) as u8));
            }
            s
        }
        3 => {
            let n = 280 + r.below(60);
            let mut s = String::from("1");
            for _ in 1..n {
                s.push(char::from(b'0' + r.below(10) as u8));
            }
            s
        }
        _ => (r.next() % 100000).to_string(),
    };
    let frac: String = match r.below(4) {
        0 => {
            let n = 1 + r.below(6);
            (0..n).map(|_| char::from(b'0' + r.below(10) as u8)).collect()
        }
        1 if r.chance(1, 4) => "0".repeat(1 + r.below(400)) + "1",
        _ => String::new(),
    };
    let (exp_text, exp): (String, i64) = match r.below(5) {
        0 => {
            let e = *r.pick(&[0i64, 1, 2, 10, 300, 307, 308, 309, 310, 400, 99999, 4294967296, 99999999999999999]);
            let neg_e = r.chance(1, 3);
            let sign = if neg_e { "-" } else { *r.pick(&["", "+"]) };
            (format!("{}{}{}", r.pick(&["e", "E"]), sign, e), if neg_e { -e } else { e })
        }
        1 => {
            let e = r.below(700) as i64 - 350;
            (format!("e{}", e), e)
        }
        _ => (String::new(), 0),
    };
    if !outside_window(&int_digits, &frac, exp) {
        // (the window where serde_json's float conversion decides is not modelled: another numeral instead)
        return format!("{}{}e-3", neg, r.next() % 1000);
    }
    format!("{}{}{}{}", neg, int_digits, if frac.is_empty() { String::new() } else { format!(".{}", frac) }, exp_text)
}

pub fn run_text_cases(sink: &mut Sink, r: &mut Rng, n: usize) {
    // ---- corpus
    for t in [
        "null", " null ", "nul", "nulll", "true", "false", "tru", "[]", "[ ]", "{}", "{ }", "[,]", "[1,]", "[1 2]", "{\"a\":1,}", "{\"a\" 1}", "{a:1}", "{\"a\":1 \"b\":2}",
        "\"\"", "\"a", "\"\\q\"", "\"\\u12\"", "\"\\u00e9\"", "\"\\u00E9\"", "\"\\U00e9\"", "\"\\ud83d\\ude00\"", "\"\\uD83D\\uDE00\"", "\"\\ud83d\"", "\"\\ude00\"", "\"\\ud83d\\u0041\"",
        "\"\\ud83dx\"", "\"\\ude00\\ud83d\"", "\"\\ud83d\\ud83d\"", "\"\\udbff\\udfff\"", "\"\\ud800\\udc00\"", "\"\\u0000\"", "\"\u{7f}\"", "\"\u{1}\"", "\"\t\"", "\"\\/\"", "\"/\"",
        "\u{feff}null", "null\u{0}", "", " ", "\n", "1 ", " 1", "1 1", "[1]\n", "[1] x", "0", "-0", "-", "+1", "01", "00", "1.", ".5", "1.5", "1e", "1e+", "1e5", "1E-5", "0e0", "0.0", "-0.0e0",
        "1e308", "1e310", "-1e310", "0e999999999999999999999", "0.0000e999999999999999999999", "1e-999999999999999999999", "1e999999999999999999999", "18446744073709551615", "18446744073709551616",
        "-9223372036854775808", "-9223372036854775809", "123456789012345678901234567890", "{\"a\":1,\"a\":2}", "{\"b\":1,\"a\":2,\"b\":3}", "[[[]]]", "[{}]", "{\"\":[]}", "\"\u{e9}\u{1f600}\"",
        "nan", "NaN", "Infinity", "-Infinity", "0x10", "1_000", "'a'", "[1,2,3", "]", "}", ":", ",",
    ] {
        text_case(sink, t, "corpus");
    }
    // ---- nesting around the recursion limit
    for depth in [1usize, 2, 126, 127, 128, 129, 200] {
        text_case(sink, &format!("{}{}", "[".repeat(depth), "]".repeat(depth)), "nesting");
        text_case(sink, &format!("{}1{}", "{\"a\":".repeat(depth), "}".repeat(depth)), "nesting");
        text_case(sink, &format!("{}{}", "[{\"a\":".repeat(depth / 2), "}]".repeat(depth / 2)), "nesting");
        text_case(sink, &format!("{}0{}", "[".repeat(depth), "]".repeat(depth)), "nesting");
    }
    for _ in 0..n {
        // ---- a value in some spelling
        let v = gen_value(r, 3, 0);
        let ws = |r: &mut Rng| -> &'static str { *r.pick(&["", "", " ", "\n", "\t ", "\r\n "]) };
        let text = format!("{}{}{}", ws(r), spell(&v, r), ws(r));
        text_case(sink, &text, "spelled");
        // ---- the same text with one edit
        let mut cs: Vec<char> = text.chars().collect();
        if !cs.is_empty() {
            let alphabet: Vec<char> = "{}[],:\"\\/ \t\n0123456789eE.+-ntfaulrsbdDcC\u{e9}\u{1}\u{1f600}".chars().collect();
            let pos = r.below(cs.len() + 1);
            match r.below(3) {
                0 if pos < cs.len() => {
                    cs.remove(pos);
                }
                1 if pos < cs.len() => {
                    cs[pos] = *r.pick(&alphabet);
                }
                _ => cs.insert(pos, *r.pick(&alphabet)),
            }
            let edited: String = cs.into_iter().collect();
            text_case(sink, &edited, "edited");
        }
        // ---- numerals
        let num = gen_numeral(r);
        text_case(sink, &num, "numeral");
        text_case(sink, &format!("[{} ,{}]", num, gen_numeral(r)), "numeral");
    }
}
