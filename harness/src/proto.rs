//! Line protocol shared with the Lean driver, and the per-run output files.
use std::collections::BTreeMap;
use std::fs::File;
use std::io::{BufWriter, Write};
use std::path::Path;

pub fn hex(bs: &[u8]) -> String {
    if bs.is_empty() {
        return "-".to_string();
    }
    let mut s = String::with_capacity(bs.len() * 2);
    for b in bs {
        s.push_str(&format!("{:02x}", b));
    }
    s
}

pub fn hexs(s: &str) -> String {
    hex(s.as_bytes())
}

pub fn unhex(s: &str) -> Option<Vec<u8>> {
    if s == "-" {
        return Some(vec![]);
    }
    if s.len() % 2 != 0 {
        return None;
    }
    (0..s.len() / 2)
        .map(|i| u8::from_str_radix(&s[2 * i..2 * i + 2], 16).ok())
        .collect()
}

/// Failures met by the generators themselves: a library builder or constructor that panics on
/// representable content is a finding (C14), but the generator has no `Sink` at hand; it records the
/// input here and `Sink::finish` turns the records into oracle failures.
pub static GENERATOR_PANICS: std::sync::Mutex<Vec<(String, String)>> = std::sync::Mutex::new(Vec::new());

pub fn generator_panic(what: &str, input: String) {
    if let Ok(mut g) = GENERATOR_PANICS.lock() {
        if g.len() < 20 {
            g.push((what.to_string(), input));
        }
    }
}

/// Collects what one generator run produced.
pub struct Sink {
    ops: BufWriter<File>,
    imp: BufWriter<File>,
    oracle: BufWriter<File>,
    pub n_ops: u64,
    pub n_oracle_checks: u64,
    pub n_oracle_fail: u64,
    pub stats: BTreeMap<String, u64>,
    pub samples: Vec<String>,
    pub notes: Vec<String>,
    distinct: std::collections::HashSet<u64>,
    pub n_nontrivial: u64,
}

fn fnv(s: &str) -> u64 {
    let mut h: u64 = 0xcbf29ce484222325;
    for b in s.as_bytes() {
        h ^= *b as u64;
        h = h.wrapping_mul(0x100000001b3);
    }
    h
}

impl Sink {
    pub fn new(dir: &Path) -> Self {
        std::fs::create_dir_all(dir).unwrap();
        let f = |n: &str| BufWriter::new(File::create(dir.join(n)).unwrap());
        Sink {
            ops: f("ops.txt"),
            imp: f("impl.txt"),
            oracle: f("oracle.txt"),
            n_ops: 0,
            n_oracle_checks: 0,
            n_oracle_fail: 0,
            stats: BTreeMap::new(),
            samples: vec![],
            notes: vec![],
            distinct: Default::default(),
            n_nontrivial: 0,
        }
    }

    /// One differential case: the op line for the model and what the implementation answered.
    /// `nontrivial` says whether the case got past the first guard of the code under test.
    pub fn op(&mut self, op: &str, impl_answer: &str, nontrivial: bool) {
        debug_assert!(!op.contains('\n') && !impl_answer.contains('\n'));
        writeln!(self.ops, "{}", op).unwrap();
        writeln!(self.imp, "{}", impl_answer).unwrap();
        self.n_ops += 1;
        if self.distinct.insert(fnv(op)) && nontrivial {
            self.n_nontrivial += 1;
        }
        if self.samples.len() < 6 && (self.n_ops % 97 == 1) {
            let cut = |x: &str| if x.len() > 160 { format!("{}...({} chars)", &x[..160], x.len()) } else { x.to_string() };
            self.samples.push(format!("{} => {}", cut(op), cut(impl_answer)));
        }
    }

    /// Direct evaluation of the property on the implementation's answer.
    pub fn oracle(&mut self, holds: bool, what: &str, replay: &str) {
        self.n_oracle_checks += 1;
        if !holds {
            self.n_oracle_fail += 1;
            writeln!(self.oracle, "FAIL\t{}\t{}", what, replay).unwrap();
        }
    }

    pub fn stat(&mut self, key: &str) {
        *self.stats.entry(key.to_string()).or_insert(0) += 1;
    }

    pub fn stat_n(&mut self, key: &str, n: u64) {
        *self.stats.entry(key.to_string()).or_insert(0) += n;
    }

    pub fn note(&mut self, s: &str) {
        self.notes.push(s.to_string());
    }

    pub fn finish(mut self, dir: &Path, extra: serde_json::Value) {
        // panics met while *building* inputs through the library's own builders (see `generator_panic`)
        let pending: Vec<(String, String)> = GENERATOR_PANICS.lock().map(|mut g| g.drain(..).collect()).unwrap_or_default();
        for (what, input) in pending {
            self.oracle(false, &what, &input);
        }
        self.ops.flush().unwrap();
        self.imp.flush().unwrap();
        self.oracle.flush().unwrap();
        let v = serde_json::json!({
            "ops": self.n_ops,
            "distinct_nontrivial": self.n_nontrivial,
            "oracle_checks": self.n_oracle_checks,
            "oracle_failures": self.n_oracle_fail,
            "distribution": self.stats,
            "samples": self.samples,
            "notes": self.notes,
            "extra": extra,
        });
        std::fs::write(dir.join("stats.json"), serde_json::to_vec_pretty(&v).unwrap()).unwrap();
    }
}

/// Run the real code, turning a panic into `Err(())`.
/// set once a call did not come back in time: the thread it runs on is lost (and may hold locks), so later
/// calls through `with_deadline` are not started any more
/// how long a call into the code under test may take before it is given up as not terminating: verifications
/// take milliseconds, so minutes leave room for a machine that is busy with other work
pub const DEADLINE_SECS: u64 = 300;

pub static HUNG: std::sync::atomic::AtomicBool = std::sync::atomic::AtomicBool::new(false);

type Job = Box<dyn FnOnce() + Send + 'static>;
static WORKER: std::sync::Mutex<Option<std::sync::mpsc::Sender<Job>>> = std::sync::Mutex::new(None);

/// Run `f` on the harness's worker thread - one long-lived thread that makes all calls into the code under
/// test one after the other, as a verifier serving requests does, so that whatever the code keeps per thread
/// from one call is there at the next - and wait for it at most `secs` seconds. `None`: it did not come
/// back (or an earlier call did not, and this one was not started). Code under test must terminate on every
/// input; a harness that waited for ever would turn a hang into silence.
pub fn with_deadline<T: Send + 'static>(secs: u64, f: impl FnOnce() -> T + Send + 'static) -> Option<T> {
    with_deadline_on(secs, false, f)
}

/// `fresh`: on a new thread instead (for what is read once per thread, such as the time zone)
pub fn with_deadline_on<T: Send + 'static>(secs: u64, fresh: bool, f: impl FnOnce() -> T + Send + 'static) -> Option<T> {
    use std::sync::atomic::Ordering;
    if HUNG.load(Ordering::SeqCst) {
        return None;
    }
    let (tx, rx) = std::sync::mpsc::channel();
    let job: Job = Box::new(move || {
        let _ = tx.send(f());
    });
    if fresh {
        std::thread::spawn(job);
    } else {
        let mut w = WORKER.lock().unwrap();
        if w.is_none() {
            let (jtx, jrx) = std::sync::mpsc::channel::<Job>();
            std::thread::spawn(move || {
                for j in jrx {
                    // (a job that panics answers nothing - its caller sees the closed channel - and the worker lives on)
                    let _ = std::panic::catch_unwind(std::panic::AssertUnwindSafe(j));
                }
            });
            *w = Some(jtx);
        }
        if w.as_ref().unwrap().send(job).is_err() {
            return None;
        }
    }
    match rx.recv_timeout(std::time::Duration::from_secs(secs)) {
        Ok(v) => Some(v),
        Err(std::sync::mpsc::RecvTimeoutError::Timeout) => {
            HUNG.store(true, Ordering::SeqCst);
            None
        }
        // the job ended without an answer (it panicked outside every guard)
        Err(std::sync::mpsc::RecvTimeoutError::Disconnected) => None,
    }
}

pub fn guarded<T>(f: impl FnOnce() -> T + std::panic::UnwindSafe) -> Result<T, ()> {
    std::panic::catch_unwind(f).map_err(|_| ())
}
