//! C09: metadata signed by the library verifies after a trip through the wire format; and only
//! under the right key, unaltered, with the right scheme.
use crate::c04::{keyid_hex, Entry};
use crate::meta::{gen_layout, gen_link, key_pool_all_sizes, KeyInfo};
use crate::proto::{unhex, guarded, hex, Sink};
use crate::rng::Rng;
use crate::Cfg;
use in_toto::crypto::PublicKey;
use in_toto::interchange::{DataInterchange, Json, JsonPretty};
use in_toto::models::{Metablock, MetablockBuilder, MetadataWrapper};

struct ShortWriter {
    buf: Vec<u8>,
    max: usize,
}

impl std::io::Write for ShortWriter {
    fn write(&mut self, data: &[u8]) -> std::io::Result<usize> {
        let n = data.len().min(self.max);
        self.buf.extend_from_slice(&data[..n]);
        Ok(n)
    }
    fn flush(&mut self) -> std::io::Result<()> {
        Ok(())
    }
}

fn vblock_op(t: u32, auth: &[&KeyInfo], entries: &[Entry]) -> String {
    let mut op = format!("vblock {} A", t);
    for k in auth {
        op.push(' ');
        op.push_str(&keyid_hex(k.public()));
    }
    op.push_str(" S");
    for e in entries {
        op.push_str(&format!(" {}:{}", e.label, if e.valid_under_label { 1 } else { 0 }));
    }
    op
}

pub fn run(cfg: &Cfg) {
    let mut sink = Sink::new(&cfg.out);
    let mut r = Rng::new(cfg.seed);
    let pool = key_pool_all_sizes(2);
    let n = if cfg.thorough { 2500 } else { 220 };
    for i in 0..n {
        let mut r = r.at(i as u64);
        let meta = if i % 2 == 0 { MetadataWrapper::Layout(gen_layout(&mut r, &pool)) } else { MetadataWrapper::Link(gen_link(&mut r, None)) };
        // 1..4 signers with pairwise distinct key ids
        let mut signers: Vec<&KeyInfo> = vec![];
        let want = 1 + r.below(4);
        let mut guard = 0;
        while signers.len() < want && guard < 50 {
            guard += 1;
            let k = r.pick(&pool);
            if !signers.iter().any(|s| keyid_hex(s.public()) == keyid_hex(k.public())) {
                signers.push(k);
            }
        }
        let privs: Vec<&in_toto::crypto::PrivateKey> = signers.iter().map(|k| &k.key).collect();
        let pubs: Vec<PublicKey> = signers.iter().map(|k| k.public().clone()).collect();
        let replay_base = format!("signers={:?} meta={}", signers.iter().map(|k| k.label.clone()).collect::<Vec<_>>(), hex(serde_json::to_string(&meta).unwrap().as_bytes()));
        for path in ["new", "builder", "raw"] {
            let mb = match path {
                "new" => Metablock::new(meta.clone(), &privs),
                "builder" => MetablockBuilder::from_metadata(meta.clone().into_trait()).sign(&privs).map(|b| b.build()),
                _ => {
                    // the builder fed with a document somebody else serialised: the same metadata, but not
                    // in this library's own form - further members the model has no field for, another
                    // notation of the same expiry instant, key entries without the redundant `keyid`,
                    // pretty-printed or compact
                    let mut v = serde_json::to_value(&meta).unwrap();
                    let mut form = vec![];
                    if r.chance(1, 2) {
                        v["spec_version"] = serde_json::json!("0.9");
                        form.push("extra-member");
                    }
                    if r.chance(1, 3) {
                        v["x-annotations"] = serde_json::json!({"reviewed": true, "tags": ["a", 1]});
                        form.push("extra-object");
                    }
                    if let Some(e) = v.get("expires").and_then(|e| e.as_str()).map(String::from) {
                        if e.ends_with('Z') && r.chance(1, 2) {
                            v["expires"] = serde_json::json!(format!("{}+00:00", &e[..e.len() - 1]));
                            form.push("offset-expiry");
                        }
                    }
                    if let Some(keys) = v.get_mut("keys").and_then(|k| k.as_object_mut()) {
                        if r.chance(1, 2) {
                            for (_, k) in keys.iter_mut() {
                                if let Some(o) = k.as_object_mut() {
                                    o.remove("keyid");
                                }
                            }
                            form.push("keys-without-keyid");
                        }
                    }
                    let text = if r.chance(1, 2) { serde_json::to_string_pretty(&v).unwrap() } else { v.to_string() };
                    sink.stat(&format!("raw-form/{}", if form.is_empty() { "own".to_string() } else { form.join("+") }));
                    match guarded(move || MetablockBuilder::from_raw_metadata(text.as_bytes())) {
                        Ok(Ok(b)) => b.sign(&privs).map(|b| b.build()),
                        Ok(Err(e)) => Err(e),
                        Err(()) => {
                            sink.oracle(false, "MetablockBuilder::from_raw_metadata panicked", &replay_base);
                            continue;
                        }
                    }
                }
            };
            let mb = match mb {
                Ok(m) => m,
                Err(_) => {
                    sink.oracle(false, "the library failed to sign representable metadata", &replay_base);
                    continue;
                }
            };
            for fmt in ["compact", "pretty", "JsonPretty", "Json", "Json(short writes)", "JsonPretty(short writes)"] {
                let text = match fmt {
                    // a destination that takes only part of the buffer per `write` call (a pipe, a socket, a
                    // compressing or rate-limiting adaptor): the document must arrive whole all the same
                    "Json(short writes)" | "JsonPretty(short writes)" => {
                        let mut w = ShortWriter { buf: vec![], max: *r.pick(&[1usize, 7, 64, 1000, 1024]) };
                        let res = if fmt.starts_with("JsonPretty") { JsonPretty::to_writer(&mut w, &mb) } else { Json::to_writer(&mut w, &mb) };
                        if res.is_err() {
                            sink.oracle(false, "writing signed metadata to a slow destination fails", &format!("{} path={} fmt={}", replay_base, path, fmt));
                            continue;
                        }
                        w.buf
                    }
                    "compact" => serde_json::to_vec(&mb).unwrap(),
                    "Json" => {
                        // the library's own compact interchange (canonical writer)
                        let mut b = Vec::new();
                        Json::to_writer(&mut b, &mb).unwrap();
                        b
                    }
                    "pretty" => serde_json::to_vec_pretty(&mb).unwrap(),
                    _ => {
                        let mut b = Vec::new();
                        JsonPretty::to_writer(&mut b, &mb).unwrap();
                        b
                    }
                };
                let replay = format!("{} path={} fmt={}", replay_base, path, fmt);
                let parsed: Metablock = match serde_json::from_slice(&text) {
                    Ok(p) => p,
                    Err(_) => {
                        sink.oracle(false, "signed metadata written by the library cannot be read back", &replay);
                        continue;
                    }
                };
                let (p2, k2) = (parsed.clone(), pubs.clone());
                let res = guarded(move || p2.verify(k2.len() as u32, k2.iter()));
                let ok = matches!(&res, Ok(Ok(m)) if *m == meta);
                sink.oracle(ok, "metadata signed by the library does not verify after the wire trip", &replay);
                sink.stat(&format!("{}/{}/{}", path, fmt, if ok { "verifies" } else { "FAILS" }));
                // model: every entry is valid under its label
                let entries: Vec<Entry> = parsed.signatures.iter().map(|s| Entry { label: serde_json::to_value(s.key_id()).unwrap().as_str().unwrap().to_string(), sig: s.value().as_bytes().to_vec(), valid_under_label: true, class: "valid" }).collect();
                sink.op(&vblock_op(pubs.len() as u32, &signers, &entries), if ok { "ok" } else { "err" }, true);
                if fmt != "compact" {
                    continue;
                }
                // ---- negatives, one signature at a time (threshold 1 against the one key concerned)
                let si = r.below(parsed.signatures.len());
                let sig = parsed.signatures[si].clone();
                let sig_id = serde_json::to_value(sig.key_id()).unwrap().as_str().unwrap().to_string();
                let owner = signers.iter().find(|k| keyid_hex(k.public()) == sig_id).unwrap();
                let single = |sigs: Vec<serde_json::Value>| -> Option<Metablock> {
                    serde_json::from_value(serde_json::json!({"signatures": sigs, "signed": serde_json::to_value(&meta).unwrap()})).ok()
                };
                // (a) under any other key of the pool (label rewritten to that key's id, so it is looked at)
                let mut others: Vec<&KeyInfo> = pool.iter().filter(|k| keyid_hex(k.public()) != sig_id).collect();
                // the same key material declared with the other scheme first, then any other key
                others.sort_by_key(|k| if k.pk8 == owner.pk8 { 0 } else { 1 });
                for other in others.into_iter().take(6) {
                    let blk = single(vec![serde_json::json!({"keyid": keyid_hex(other.public()), "sig": hex(sig.value().as_bytes())})]);
                    if let Some(blk) = blk {
                        let accepted = blk.verify(1, [other.public()]).is_ok();
                        sink.oracle(!accepted, "a signature verifies under another key", &format!("{} other={}", replay, other.label));
                        let e = Entry { label: keyid_hex(other.public()), sig: vec![], valid_under_label: false, class: "other-key" };
                        sink.op(&vblock_op(1, &[other], &[e]), if accepted { "ok" } else { "err" }, true);
                        if other.pk8 == owner.pk8 {
                            sink.stat("negatives/same-material-other-scheme");
                        }
                    }
                }
                // (b) single-bit flips of the signature value
                let bytes = sig.value().as_bytes().to_vec();
                let nflips = if cfg.thorough { 64 } else { 16 };
                for _ in 0..nflips {
                    let mut b = bytes.clone();
                    let bit = r.below(b.len() * 8);
                    b[bit / 8] ^= 1 << (bit % 8);
                    if let Some(blk) = single(vec![serde_json::json!({"keyid": sig_id, "sig": hex(&b)})]) {
                        let accepted = blk.verify(1, [owner.public()]).is_ok();
                        sink.oracle(!accepted, "a signature still verifies after a single-bit change", &format!("{} bit={}", replay, bit));
                        sink.stat("negatives/bitflip");
                    }
                }
                // (d) the whole block, every signer's key asked for (threshold = number of signers): with one of
                //     the keys replaced by a key that did not sign, or with one of the signatures changed in one
                //     bit, not every key asked for has a valid signature - whichever position is concerned
                if parsed.signatures.len() >= 2 {
                    for pos in [0usize, parsed.signatures.len() - 1, r.below(parsed.signatures.len())] {
                        let stranger = pool.iter().find(|k| !signers.iter().any(|s| s.pk8 == k.pk8));
                        if let Some(st) = stranger {
                            let mut keys = pubs.clone();
                            keys[pos] = st.public().clone();
                            let (p3, n) = (parsed.clone(), keys.len() as u32);
                            let accepted = guarded(move || p3.verify(n, keys.iter()).is_ok());
                            sink.oracle(accepted == Ok(false), "a block verifies with as many keys as signers although one of the keys asked for did not sign", &format!("{} replaced-key-position={}", replay, pos));
                        }
                        let mut j = serde_json::to_value(&parsed).unwrap();
                        let id_at = serde_json::to_value(pubs[pos].key_id()).unwrap();
                        if let Some(arr) = j["signatures"].as_array_mut() {
                            for e in arr.iter_mut() {
                                if e["keyid"] == id_at {
                                    let mut b = unhex(e["sig"].as_str().unwrap_or("")).unwrap_or_default();
                                    if !b.is_empty() {
                                        let bit = r.below(b.len() * 8);
                                        b[bit / 8] ^= 1 << (bit % 8);
                                        e["sig"] = serde_json::json!(hex(&b));
                                    }
                                }
                            }
                        }
                        if let Ok(p4) = serde_json::from_value::<Metablock>(j) {
                            let (keys, n) = (pubs.clone(), pubs.len() as u32);
                            let accepted = guarded(move || p4.verify(n, keys.iter()).is_ok());
                            sink.oracle(accepted == Ok(false), "a block verifies with as many keys as signers although one of the signatures was changed in one bit", &format!("{} changed-signature-position={}", replay, pos));
                        }
                        sink.stat("negatives/whole-block");
                    }
                }
                // (c) the untouched signature alone does verify under its own key
                if let Some(blk) = single(vec![serde_json::json!({"keyid": sig_id, "sig": hex(&bytes)})]) {
                    sink.oracle(blk.verify(1, [owner.public()]).is_ok(), "a single library-made signature does not verify under its own key", &replay);
                }
            }
        }
    }
    // ---- layouts that list a key in each of its descriptions (the hash-algorithm list absent, empty, one name,
    //      the usual two in the other order, a repeated name, an unknown name), for every key of the pool that
    //      has such descriptions: signed, written, read, verified - deterministically, one by one
    {
        use in_toto::crypto::KeyType;
        let lists: Vec<Option<Vec<String>>> = vec![None, Some(vec![]), Some(vec!["sha256".into()]), Some(vec!["sha512".into(), "sha256".into()]), Some(vec!["sha256".into(), "sha512".into(), "sha256".into()]), Some(vec!["blake2b".into()])];
        for (n, k) in pool.iter().enumerate() {
            for algs in &lists {
                let listed = match k.public().typ() {
                    KeyType::Ed25519 => PublicKey::from_ed25519_with_keyid_hash_algorithms(k.public().as_bytes().to_vec(), algs.clone()).ok(),
                    KeyType::Ecdsa => PublicKey::from_ecdsa_with_keyid_hash_algorithms(k.public().as_bytes().to_vec(), algs.clone()).ok(),
                    _ => None,
                };
                let Some(listed) = listed else { continue };
                let signer = &pool[(n + 1) % pool.len()];
                let layout = match in_toto::models::LayoutMetadataBuilder::new().add_key(listed.clone()).add_key(k.public().clone()).build() {
                    Ok(l) => l,
                    Err(_) => continue,
                };
                let meta = MetadataWrapper::Layout(layout);
                let replay = format!("layout listing key {} described with hash-algorithm list {:?}, signed by {}", k.label, algs, signer.label);
                for path in ["new", "builder"] {
                    let mb = match path {
                        "new" => Metablock::new(meta.clone(), &[&signer.key]),
                        _ => MetablockBuilder::from_metadata(meta.clone().into_trait()).sign(&[&signer.key]).map(|b| b.build()),
                    };
                    let Ok(mb) = mb else {
                        sink.oracle(false, "the library failed to sign representable metadata", &replay);
                        continue;
                    };
                    for text in [serde_json::to_vec(&mb).unwrap(), serde_json::to_vec_pretty(&mb).unwrap()] {
                        let ok = serde_json::from_slice::<Metablock>(&text).ok().map_or(false, |p| matches!(p.verify(1, [signer.public()]), Ok(m) if m == meta));
                        sink.oracle(ok, "metadata signed by the library does not verify after the wire trip", &format!("{} path={}", replay, path));
                        sink.stat(&format!("listed-key-descriptions/{}", if ok { "verifies" } else { "FAILS" }));
                    }
                }
            }
        }
    }
    // ---- every (key material, scheme) pair the private-key constructor accepts: whatever such a key
    //      signs verifies under its own public part - or it refuses to sign; never a signature that
    //      its public key rejects
    {
        use in_toto::crypto::{PrivateKey, SignatureScheme};
        let schemes = [SignatureScheme::Ed25519, SignatureScheme::RsaSsaPssSha256, SignatureScheme::RsaSsaPssSha512, SignatureScheme::EcdsaP256Sha256];
        for k in pool.iter() {
            for sc in &schemes {
                let (der, sc2) = (k.pk8.clone(), sc.clone());
                let sk = match guarded(move || PrivateKey::from_pkcs8(&der, sc2)) {
                    Ok(Ok(sk)) => sk,
                    Ok(Err(_)) => {
                        sink.stat("pk8-scheme/rejected");
                        continue;
                    }
                    Err(()) => {
                        sink.oracle(false, "PrivateKey::from_pkcs8 panicked", &format!("key {} scheme {:?}", k.label, sc));
                        continue;
                    }
                };
                let mlen = 1 + r.below(200);
                let msg = r.bytes(mlen);
                let replay = format!("key {} loaded with scheme {:?}, message {}", k.label, sc, hex(&msg));
                match guarded(std::panic::AssertUnwindSafe(|| sk.sign(&msg))) {
                    Ok(Ok(sig)) => {
                        sink.oracle(sk.public().verify(&msg, &sig).is_ok(), "a key signs something its own public part does not verify", &replay);
                        sink.oracle(sig.key_id() == sk.public().key_id(), "a signature does not carry its maker's key id", &replay);
                        sink.stat("pk8-scheme/signs");
                    }
                    Ok(Err(_)) => sink.stat("pk8-scheme/refuses-to-sign"),
                    Err(()) => sink.oracle(false, "signing panicked", &replay),
                }
            }
        }
    }
    // ---- randomised schemes: every length a signature can have. An ECDSA signature is a DER pair of
    //      minimal integers (68 to 72 bytes for P-256; the short ones are rare), so sign again and again
    //      until each length has been through the wire trip
    let link = MetadataWrapper::Link(gen_link(&mut r, Some("lengths")));
    for k in pool.iter().filter(|k| k.scheme == in_toto::crypto::SignatureScheme::EcdsaP256Sha256).take(2) {
        let mut seen: std::collections::BTreeSet<usize> = Default::default();
        let tries = if cfg.thorough { 40_000 } else { 8_000 };
        for _ in 0..tries {
            let mb = match Metablock::new(link.clone(), &[&k.key]) {
                Ok(m) => m,
                Err(_) => break,
            };
            let len = mb.signatures[0].value().as_bytes().len();
            if !seen.insert(len) {
                continue;
            }
            let text = serde_json::to_vec(&mb).unwrap();
            let ok = match serde_json::from_slice::<Metablock>(&text) {
                Ok(p) => p.verify(1, [k.public()]).map(|m| m == link).unwrap_or(false),
                Err(_) => false,
            };
            sink.oracle(ok, "metadata signed by the library does not verify after the wire trip", &format!("signers=[{}] ecdsa signature of {} bytes: {}", k.label, len, hex(&text)));
            sink.stat(&format!("ecdsa-signature-length/{}", len));
        }
    }
    sink.finish(&cfg.out, serde_json::json!({}));
}
