import InTotoModel.Driver.Proto
import InTotoModel.Model.Pae
import InTotoModel.Model.Utf8
import InTotoModel.Driver.JsonProto
import InTotoModel.Model.Signed
import InTotoModel.Model.JsonParse
import InTotoModel.Model.Threshold
import InTotoModel.Driver.RulesProto
import InTotoModel.Driver.VerifyProto
import InTotoModel.Generated.StrRequests
import InTotoModel.Model.Attest
import InTotoModel.Model.Wire
import InTotoModel.Model.KeyId
import InTotoModel.Driver.RecordProto
import InTotoModel.Driver.CodecProto
import InTotoModel.Model.JsonText
import InTotoModel.Model.AttestExt
import InTotoModel.Model.Pem
import InTotoModel.Model.Digest
/-
  Executable model driver: one operation per input line, one canonical answer per line.
  Unknown or malformed operations answer `bad-op` (never a default).
-/
open InToto InToto.Proto

def showOutPair (o : Out (Bytes × Bytes)) : String :=
  match o with
  | .ok (a, b) => s!"ok {hexOfBytes a} {hexOfBytes b}"
  | .err _ => "err"
  | .panic s => s!"panic {s}"

def step (line : String) : String :=
  match line.trimAscii.toString.splitOn " " with
  | ["pae_pack", t, p] =>
    match bytesOfHex t, bytesOfHex p with
    | some t, some p => hexOfBytes (Pae.pack t p)
    | _, _ => "bad-op"
  | ["pae_unpack", b] =>
    match bytesOfHex b with
    | some b => showOutPair (Pae.unpack Utf8.valid b)
    | none => "bad-op"
  | ["utf8_valid", b] =>
    match bytesOfHex b with
    | some b => toString (Utf8.valid b)
    | none => "bad-op"
  | "canon" :: toks =>
    match readJV toks with
    | some (v, []) => showOutStr (Json.canon v)
    | _ => "bad-op"
  | "signed" :: toks =>
    match readJV toks with
    | some (v, []) => showOutStr (Json.signedText v)
    | _ => "bad-op"
  | "refcanon" :: toks =>
    match readJV toks with
    | some (v, []) => showOutStr (Json.refCanon v)
    | _ => "bad-op"
  | ["parsej", h] =>
    match strOfHex h with
    | some t =>
      match Json.parseJ t with
      | some v => "ok " ++ showJV v
      | none => "none"
    | none => "bad-op"
  | "att_dec" :: kind :: toks =>
    -- att_dec <statement|predicate> <JV>: decode as the untagged wrapper does and write again
    match readJV toks with
    | some (v, []) =>
      let r := if kind == "statement" then some (AttestCodec.decStatement AttestCodec.stdExt v)
        else if kind == "predicate" then some (AttestCodec.decPredicate AttestCodec.stdExt v) else none
      match r with
      | none => "bad-op"
      | some none => "reject"
      | some (some a) => "ok " ++ showJV (Json.norm (AttestCodec.encTop a))
    | _ => "bad-op"
  | ["pem_dec", h] =>
    match strOfHex h with
    | some s =>
      match Pem.parse s with
      | some (tag, contents) => "ok " ++ hexOfStr tag ++ " " ++ hexOfBytes contents
      | none => "none"
    | none => "bad-op"
  | ["timestamp", h] =>
    match strOfHex h with
    | some s => match Time.normTimeStamp s with | some t => "ok " ++ hexOfStr t | none => "none"
    | none => "bad-op"
  | ["readtext", h] =>
    -- serde_json::from_str::<Value>: `ok <value, objects as BTreeMaps>` or `none`
    match strOfHex h with
    | some t =>
      match JsonText.readText t with
      | some v => "ok " ++ showJV (Json.norm v)
      | none => "none"
    | none => "bad-op"
  | "vblock" :: t :: rest =>
    -- vblock <t> A <kid>* S <kid>:<0|1>*   (kid = hex label; 1 = the value verifies under the key with that id)
    match t.toNat? with
    | none => "bad-op"
    | some t =>
      match rest with
      | "A" :: rest =>
        let auth := (rest.takeWhile (· != "S")).map (·.toList)
        let sg := (rest.dropWhile (· != "S")).drop 1
        let sigs : List Sig := sg.map fun e =>
          match e.splitOn ":" with
          | [k, "1"] => { kid := k.toList, val := [1] }
          | [k, _] => { kid := k.toList, val := [0] }
          | _ => { kid := [], val := [0] }
        match Threshold.verifySigs (K := Str) id (fun _ v => v == [1]) id sigs t auth with
        | .ok () => "ok"
        | .err _ => "err"
        | .panic n => s!"panic {n}"
      | _ => "bad-op"
  | ["glob", p, t] =>
    match strOfHex p, strOfHex t with
    | some p, some t =>
      match Glob.globMatch p t with
      | some b => toString b
      | none => "none"
    | _, _ => "bad-op"
  | ["clean", p] =>
    match strOfHex p with
    | some p => hexOfStr (PathClean.clean p)
    | none => "bad-op"
  | "rules" :: toks =>
    match readRulesScenario toks with
    | some (item, links) =>
      match Rules.applyRulesOnLink item links with
      | .ok () => "ok"
      | .err _ => "err"
      | .panic n => s!"panic {n}"
    | none => "bad-op"
  | "rulespec" :: toks =>
    match readRulesScenario toks with
    | some (item, links) =>
      if RulesSpec.Normalized item links then toString (RulesSpec.verdict item links) else "na"
    | none => "bad-op"
  | "verify" :: toks => runVerify toks
  | "record" :: toks => runRecord toks
  | ["lstrip", p, n] =>
    -- lstrip <hexpath> <~ | comma separated hex strips>
    let strips? : Option (Option (List Str)) :=
      if n == "~" then some none else if n == "=" then some (some []) else ((n.splitOn ",").mapM strOfHex).map some
    match strOfHex p, strips? with
    | some p, some ss => hexOfStr (Record.applyLeftStrip p ss)
    | _, _ => "bad-op"
  | ["keyid", t, scheme, algs, mat] =>
    let ty := if t == "ed25519" then some KeyId.KeyType.ed25519 else if t == "rsa" then some .rsa
      else if t == "ecdsa" then some .ecdsa else none
    let algs? : Option (Option (List Str)) :=
      if algs == "~" then some none else ((algs.splitOn ",").mapM strOfHex).map some
    match ty, strOfHex scheme, algs?, bytesOfHex mat with
    | some ty, some sc, some al, some m =>
      match KeyId.keyIdWith Sha256.hash Utf8.encode { typ := ty, scheme := sc, hashAlgs := al, material := m } with
      | some id => String.ofList id
      | none => "err"
    | _, _, _, _ => "bad-op"
  | ["spki_enc", t, mat] =>
    let ty := if t == "ed25519" then some KeyId.KeyType.ed25519 else if t == "rsa" then some .rsa
      else if t == "ecdsa" then some .ecdsa else none
    match ty, bytesOfHex mat with
    | some ty, some m => hexOfBytes (KeyId.spkiEncode ty m)
    | _, _ => "bad-op"
  | ["spki_dec", der] =>
    match bytesOfHex der with
    | some d =>
      match KeyId.spkiDecode d with
      | some (t, m) => "ok " ++ (match t with | .ed25519 => "ed25519" | .rsa => "rsa" | .ecdsa => "ecdsa") ++ " " ++ hexOfBytes m
      | none => "reject"
    | none => "bad-op"
  | ["sha256", h] =>
    match bytesOfHex h with
    | some b => hexOfBytes (Sha256.hash b)
    | none => "bad-op"
  | ["sha512", h] =>
    match bytesOfHex h with
    | some b => hexOfBytes (Sha512.hash b)
    | none => "bad-op"
  | "hashes" :: algs :: reads =>
    -- hashes <alg,alg,..|-> <read>*   read = `D<hex>` (the bytes one `read` call returned; `D-` = none: end) | `E` (error)
    -- answer: `err` | `ok <size> <alg>=<hex>*`
    let algList : Option (List Digest.HashAlg) :=
      if algs == "-" then some []
      else (algs.splitOn ",").mapM fun a => if a == "sha256" then some Digest.HashAlg.sha256 else if a == "sha512" then some .sha512 else none
    let rs : Option (List Md.ReadRes) := reads.mapM fun t =>
      if t == "E" then some Md.ReadRes.error
      else if t.startsWith "D" then (bytesOfHex (t.drop 1).toString).map Md.ReadRes.data
      else none
    match algList, rs with
    | some al, some rs =>
      match Digest.calcHashes al rs with
      | none => "err"
      | some (n, ds) => String.intercalate " " (s!"ok {n}" :: ds.map fun p => p.1.name ++ "=" ++ hexOfBytes p.2)
    | _, _ => "bad-op"
  | ["hexdec", h] =>
    match strOfHex h with
    | some s => match KeyId.hexDecode s with | some b => "ok " ++ hexOfBytes b | none => "reject"
    | none => "bad-op"
  | "doc_dec" :: toks => docDec toks
  | "key_dec" :: toks => keyDec toks
  | "doc_text" :: toks => docText toks
  | "writetext" :: toks => writeText toks
  | ["rfc3339", h] => runRfc3339 h
  | ["fmttime", a, b] => runFmtTime a b
  | "rule_dec" :: toks =>
    match readJV toks with
    | some (v, []) =>
      match Wire.ruleOfJson v with
      | some r => "ok " ++ String.intercalate " " ((Wire.ruleTokens r).map hexOfStr)
      | none => "reject"
    | _ => "bad-op"
  | "bp_dec" :: toks =>
    match readJV toks with
    | some (v, []) =>
      match Wire.byProductsOfJson v with
      | some b =>
        let o (x : Option Str) := match x with | some s => "s" ++ hexOfStr s | none => "~"
        let rv := match b.returnValue with | some i => toString i | none => "~"
        -- the extra-field map is a BTreeMap: print sorted by key
        let other := (b.other.toArray.qsort (fun a b => strLt a.1 b.1)).toList
        s!"ok {rv} {o b.stderr} {o b.stdout}" ++
          (if other.isEmpty then "" else " " ++ String.intercalate "," (other.map fun p => hexOfStr p.1 ++ "=" ++ hexOfStr p.2))
      | none => "reject"
    | _ => "bad-op"
  | "pred_fmt" :: _ :: keys =>
    match keys.mapM strOfHex with
    | some ks =>
      let c := Attest.candidates Attest.predicateFormats ks
      if c.isEmpty then "none" else String.intercalate "," (c.map String.ofList)
    | none => "bad-op"
  | "stmt_fmt" :: _ :: keys =>
    match keys.mapM strOfHex with
    | some ks =>
      let c := Attest.candidates Attest.statementFormats ks
      if c.isEmpty then "none" else String.intercalate "," (c.map String.ofList)
    | none => "bad-op"
  | ["pred_ver_of", h] =>
    match strOfHex h with
    | some s => match Attest.predicateVerOf s with | some v => String.ofList v | none => "none"
    | none => "bad-op"
  | ["stmt_ver_of", h] =>
    match strOfHex h with
    | some s => match Attest.statementVerOf s with | some v => String.ofList v | none => "none"
    | none => "bad-op"
  | ["strreq-all-owned", _] =>
    toString (Generated.strRequests.all fun r => r.kind != .borrowed && r.kind != .unknown)
  | ["prefix8", h] =>
    match strOfHex h with
    | some k => if (Utf8.encode k).length == 64 then "ok " ++ hexOfStr (Verify.prefix8 k) else "rejected"
    | none => "bad-op"
  | _ => "bad-op"

partial def loop (h : IO.FS.Stream) (out : IO.FS.Stream) : IO Unit := do
  let line ← h.getLine
  if line.isEmpty then return ()
  out.putStrLn (step line)
  out.flush
  loop h out

def main : IO Unit := do
  let stdin ← IO.getStdin
  let stdout ← IO.getStdout
  loop stdin stdout
