import InTotoModel.Driver.JsonProto
import InTotoModel.Model.Codec
import InTotoModel.Model.KeyJson
import InTotoModel.Model.JsonWrite
/-
  `doc_dec <kind> <JV>`
  kind ∈ link step insp layout block sig.  The model decodes the document and writes it again;
  answer `ok <JV, objects sorted>` or `reject`.  Nothing is handed over from the implementation: key
  descriptions are read and written by `Model/KeyJson.lean` (with `Model/Pem.lean`, the DER reader and
  the model's own SHA-256 for the ids), `expires` by the model of chrono's RFC 3339 reader / writer
  (`Model/Time.lean`).

  `rfc3339 <hex text>`       → `none` | `ok <secs> <nanos>`       (chrono `parse_from_rfc3339` → UTC)
  `fmttime <secs> <nanos>`   → `<hex text>`                       (`to_rfc3339_opts(Secs, true)`)
-/
namespace InToto.Proto
open InToto InToto.Wire

def docDec (toks : List String) : String :=
  match toks with
  | kind :: rest =>
    match readJV rest with
    | some (v, r1) =>
      match some ((), r1) with
      | some (_, r2) =>
        match r2 with
        | [] =>
          let E := KeyJson.stdKeyEnv
          let out : Option (Option JV) :=
            if kind == "link" then some ((linkOfJson v).map linkToJson)
            else if kind == "step" then some ((stepOfJson v).map stepToJson)
            else if kind == "insp" then some ((inspOfJson v).map inspToJson)
            else if kind == "sig" then some ((sigOfJson v).map sigToJson)
            else if kind == "layout" then some ((layoutOfJson E v).map (layoutToJson E))
            else if kind == "meta" then some ((metaOfJson E v).map (metaToJson E))
            else if kind == "block" then some ((blockOfJson E v).map (blockToJson E))
            else none
          match out with
          | none => "bad-op"
          | some none => "reject"
          | some (some j) => "ok " ++ showJV (Json.norm j)
        | _ => "bad-op"
      | none => "bad-op"
    | none => "bad-op"
  | [] => "bad-op"

/-- `doc_text <kind> <flag> <JV>`: the document decoded, encoded again and written as text:
    `ok <hex to_string_pretty(&doc)> <hex to_string(&doc)> <hex JsonPretty::to_writer(&doc)>` (the first two
    with the members in the order of the derive, the third through a `Value`, members sorted) or `reject` -/
def docText (toks : List String) : String :=
  match toks with
  | kind :: flag :: rest =>
    match readJV rest with
    | some (v, []) =>
      let E := KeyJson.stdKeyEnv
      let out : Option (Option JV) :=
        if kind == "link" then some ((linkOfJson v).map linkToJson)
        else if kind == "step" then some ((stepOfJson v).map stepToJson)
        else if kind == "insp" then some ((inspOfJson v).map inspToJson)
        else if kind == "sig" then some ((sigOfJson v).map sigToJson)
        else if kind == "layout" then some ((layoutOfJson E v).map (layoutToJson E))
        else if kind == "meta" then some ((metaOfJson E v).map (metaToJson E))
        else if kind == "block" then some ((blockOfJson E v).map (blockToJson E))
        else none
      match out with
      | none => "bad-op"
      | some none => "reject"
      | some (some j) =>
        -- (with two or more entries in a `HashMap` the order of the direct texts is unspecified: flag 0)
        (if flag == "1" then "ok " ++ hexOfStr (JsonWrite.writePretty j) ++ " " ++ hexOfStr (Json.write j) else "ok - -")
          ++ " " ++ hexOfStr (JsonWrite.writePretty (Json.norm j))
    | _ => "bad-op"
  | _ => "bad-op"

/-- `writetext <JV>`: `<hex compact text> <hex pretty text>` (`serde_json::to_string`, `to_string_pretty`) -/
def writeText (toks : List String) : String :=
  match readJV toks with
  | some (v, []) => hexOfStr (Json.write v) ++ " " ++ hexOfStr (JsonWrite.writePretty v)
  | _ => "bad-op"

/-- `key_dec <JV>`: a key description read and written again: `ok <key id> <JV>` or `reject` -/
def keyDec (toks : List String) : String :=
  match readJV toks with
  | some (v, []) =>
    match KeyJson.keyOfJson v with
    | some d => "ok " ++ String.ofList (KeyJson.kidOf d) ++ " " ++ showJV (Json.norm (KeyJson.keyToJson d))
    | none => "reject"
  | _ => "bad-op"

def runRfc3339 (h : String) : String :=
  match strOfHex h with
  | some s =>
    match Time.parseRfc3339 s with
    | some t => s!"ok {t.secs} {t.nanos}"
    | none => "none"
  | none => "bad-op"

def runFmtTime (a b : String) : String :=
  match a.toInt?, b.toNat? with
  | some secs, some nanos => hexOfStr (Time.fmtRfc3339 { secs := secs, nanos := nanos })
  | _, _ => "bad-op"

end InToto.Proto
