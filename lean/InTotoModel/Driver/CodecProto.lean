import InTotoModel.Driver.JsonProto
import InTotoModel.Model.Codec
/-
  `doc_dec <kind> <JV> K <n> {<JV entry> (N | A2 S<id> <JV rewritten>)}*`
  kind ∈ link step insp layout block sig.  The model decodes the document and writes it again;
  answer `ok <JV, objects sorted>` or `reject`.  The table is the behaviour of the public-key
  (de)serialiser on the key descriptions that occur in the document (observed from the real library by
  the harness); `expires` is read and written by the model of chrono's RFC 3339 reader / writer
  (Model/Time.lean).

  `rfc3339 <hex text>`       → `none` | `ok <secs> <nanos>`       (chrono `parse_from_rfc3339` → UTC)
  `fmttime <secs> <nanos>`   → `<hex text>`                       (`to_rfc3339_opts(Secs, true)`)
-/
namespace InToto.Proto
open InToto InToto.Wire

structure DKey where
  id : Str
  json : JV

def readTable (tag : String) (toks : List String) : Option (List (JV × JV) × List String) :=
  match toks with
  | t :: n :: rest =>
    if t != tag then none else
    match n.toNat? with
    | none => none
    | some n =>
      let rec go (k : Nat) (toks : List String) (acc : List (JV × JV)) : Option (List (JV × JV) × List String) :=
        match k with
        | 0 => some (acc.reverse, toks)
        | k + 1 =>
          match readJV toks with
          | some (a, r1) =>
            match readJV r1 with
            | some (b, r2) => go k r2 ((a, b) :: acc)
            | none => none
          | none => none
      go n rest []
  | _ => none

def mkEnv (keys : List (JV × JV)) : DocEnv DKey :=
  { keyToJson := fun k => k.json
    keyOfJson := fun v =>
      match keys.find? (fun e => showJV e.1 == showJV v) with
      | some (_, .arr [.str id, j]) => some { id := id, json := j }
      | _ => none
    kidOf := fun k => k.id
    fmtTime := Time.fmtTimeKey
    parseTime := Time.parseTimeKey }

def docDec (toks : List String) : String :=
  match toks with
  | kind :: rest =>
    match readJV rest with
    | some (v, r1) =>
      match some ((), r1) with
      | some (_, r2) =>
        match readTable "K" r2 with
        | some (keys, []) =>
          let E := mkEnv keys
          let out : Option (Option JV) :=
            if kind == "link" then some ((linkOfJson v).map linkToJson)
            else if kind == "step" then some ((stepOfJson v).map stepToJson)
            else if kind == "insp" then some ((inspOfJson v).map inspToJson)
            else if kind == "sig" then some ((sigOfJson v).map sigToJson)
            else if kind == "layout" then some ((layoutOfJson E v).map (layoutToJson E))
            else if kind == "meta" then some ((metaOfJson E v).map (metaToJson E))
            else if kind == "block" then some ((blockOfJson E v).map (blockToJson E))
            else none
          match out with
          | none => "bad-op"
          | some none => "reject"
          | some (some j) => "ok " ++ showJV (Json.norm j)
        | _ => "bad-op"
      | none => "bad-op"
    | none => "bad-op"
  | [] => "bad-op"

def runRfc3339 (h : String) : String :=
  match strOfHex h with
  | some s =>
    match Time.parseRfc3339 s with
    | some t => s!"ok {t.secs} {t.nanos}"
    | none => "none"
  | none => "bad-op"

def runFmtTime (a b : String) : String :=
  match a.toInt?, b.toNat? with
  | some secs, some nanos => hexOfStr (Time.fmtRfc3339 { secs := secs, nanos := nanos })
  | _, _ => "bad-op"

end InToto.Proto
