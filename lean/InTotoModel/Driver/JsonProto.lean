import InTotoModel.Driver.Proto
import InTotoModel.Model.Json
import InTotoModel.Model.Utf8
/-
  JSON values on the line protocol (prefix notation, space separated):
    N | T | F | I<decimal> | X (a non-integer number) | S<hex utf-8> | A<n> v1 .. vn | O<n> S<key> v1 .. S<key> vn
-/
namespace InToto.Proto
open InToto

def strOfHex (h : String) : Option Str := do
  let b ← bytesOfHex h
  Utf8.decode b

def hexOfStr (s : Str) : String := hexOfBytes (Utf8.encode s)

partial def readJV (toks : List String) : Option (JV × List String) :=
  match toks with
  | [] => none
  | t :: rest =>
    if t == "N" then some (.null, rest)
    else if t == "T" then some (.bool true, rest)
    else if t == "F" then some (.bool false, rest)
    else if t == "X" then some (.num .nonInt, rest)
    else
      let tag := t.take 1 |>.toString
      let body := t.drop 1 |>.toString
      if tag == "I" then (body.toInt?).map fun i => (.num (.int i), rest)
      else if tag == "S" then (strOfHex body).map fun s => (.str s, rest)
      else if tag == "A" then
        match body.toNat? with
        | none => none
        | some n =>
          let rec go (k : Nat) (toks : List String) (acc : List JV) : Option (List JV × List String) :=
            if k == 0 then some (acc.reverse, toks) else
            match readJV toks with
            | some (v, r) => go (k - 1) r (v :: acc)
            | none => none
          (go n rest []).map fun (xs, r) => (.arr xs, r)
      else if tag == "O" then
        match body.toNat? with
        | none => none
        | some n =>
          let rec goM (k : Nat) (toks : List String) (acc : List (Str × JV)) : Option (List (Str × JV) × List String) :=
            if k == 0 then some (acc.reverse, toks) else
            match toks with
            | kt :: r0 =>
              if (kt.take 1).toString != "S" then none else
              match strOfHex (kt.drop 1).toString, readJV r0 with
              | some key, some (v, r) => goM (k - 1) r ((key, v) :: acc)
              | _, _ => none
            | [] => none
          (goM n rest []).map fun (kvs, r) => (.obj kvs, r)
      else none

partial def showJV : JV → String
  | .null => "N"
  | .bool true => "T"
  | .bool false => "F"
  | .num (.int i) => s!"I{i}"
  | .num .nonInt => "X"
  | .str s => "S" ++ hexOfStr s
  | .arr xs => String.intercalate " " (s!"A{xs.length}" :: xs.map showJV)
  | .obj kvs => String.intercalate " " (s!"O{kvs.length}" :: kvs.map fun (k, v) => "S" ++ hexOfStr k ++ " " ++ showJV v)

def showOutStr (o : Out Str) : String :=
  match o with
  | .ok s => "ok " ++ hexOfStr s
  | .err _ => "err"
  | .panic n => s!"panic {n}"

end InToto.Proto
