import InTotoModel.Driver.JsonProto
import InTotoModel.Model.Record
namespace InToto.Proto
open InToto InToto.Record

partial def readNode (toks : List String) : Option (Node × List String) :=
  match toks with
  | "F" :: id :: c :: r => do
    let id ← id.toNat?
    let c ← bytesOfHex c
    pure (.file id c, r)
  | "L" :: t :: r => do
    let t ← strOfHex t
    pure (.link t, r)
  | "D" :: n :: r => do
    let n ← n.toNat?
    let rec go (k : Nat) (toks : List String) (acc : List (Str × Node)) : Option (List (Str × Node) × List String) :=
      if k == 0 then some (acc.reverse, toks) else
      match toks with
      | name :: r =>
        match strOfHex name, readNode r with
        | some nm, some (nd, r') => go (k - 1) r' ((nm, nd) :: acc)
        | _, _ => none
      | [] => none
    let (es, r') ← go n r []
    pure (.dir es, r')
  | _ => none

def readStrs (toks : List String) : Option (List Str × List String) :=
  match toks with
  | n :: r => do
    let n ← n.toNat?
    if r.length < n then none else
    let ss ← (r.take n).mapM strOfHex
    pure (ss, r.drop n)
  | [] => none

def runRecord (toks : List String) : String :=
  let parsed : Option (List Str × Node × List Str × Option (List Str)) := do
    match toks with
    | "R" :: abs :: "T" :: r => do
      let abs ← strOfHex abs
      let (tree, r) ← readNode r
      match r with
      | "P" :: r => do
        let (paths, r) ← readStrs r
        match r with
        | ["S", "~"] => pure (splitComps abs, tree, paths, none)
        | "S" :: r => do
          let (ss, r) ← readStrs r
          if r.isEmpty then pure (splitComps abs, tree, paths, some ss) else none
        | _ => none
      | _ => none
    | _ => none
  match parsed with
  | none => "bad-op"
  | some (abs, tree, paths, strips) =>
    match recordArtifacts tree abs 64 paths strips with
    | .ok es =>
      let sorted := (es.toArray.qsort (fun a b => strLt a.key b.key)).toList
      String.intercalate " " (s!"ok {sorted.length}" :: sorted.map fun e => hexOfStr e.key ++ " " ++ hexOfBytes (Sha256.hash e.content))
    | .err 98 => "unmodelled"
    | .err _ => "err"
    | .panic s => s!"panic {s}"

end InToto.Proto
