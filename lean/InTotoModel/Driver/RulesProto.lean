import InTotoModel.Driver.JsonProto
import InTotoModel.Spec.Rules
/-
  Rules scenarios on the line protocol:
    <hexname> M <n> <rule>*n P <n> <rule>*n L <k> ( <hexname> <nm> (<hexpath> <hexdigest>)*nm <np> (..)*np )*k
  rule:  C=<pat> D=<pat> O=<pat> A=<pat> R=<pat> X=<pat>   (create delete modify allow require disallow)
         T=<pat>,<src|~>,<M|P>,<dst|~>,<from>
-/
namespace InToto.Proto
open InToto InToto.Rules

def optStr (h : String) : Option (Option Str) :=
  if h == "~" then some none else (strOfHex h).map some

def readRule (t : String) : Option Rule :=
  match t.splitOn "=" with
  | [tag, body] =>
    if tag == "T" then
      match body.splitOn "," with
      | [p, s, w, d, f] => do
        let p ← strOfHex p
        let s ← optStr s
        let d ← optStr d
        let f ← strOfHex f
        let w ← if w == "M" then some ArtKind.materials else if w == "P" then some ArtKind.products else none
        pure (.matchR p s w d f)
      | _ => none
    else do
      let p ← strOfHex body
      if tag == "C" then pure (.create p) else if tag == "D" then pure (.delete p)
      else if tag == "O" then pure (.modify p) else if tag == "A" then pure (.allow p)
      else if tag == "R" then pure (.require p) else if tag == "X" then pure (.disallow p) else none
  | _ => none

def readRules (toks : List String) : Option (List Rule × List String) :=
  match toks with
  | n :: rest => do
    let n ← n.toNat?
    if rest.length < n then none else
    let rs ← (rest.take n).mapM readRule
    pure (rs, rest.drop n)
  | [] => none

partial def readArts (toks : List String) : Option (Artifacts × List String) :=
  match toks with
  | n :: rest => do
    let n ← n.toNat?
    let rec go (k : Nat) (toks : List String) (acc : Artifacts) : Option (Artifacts × List String) :=
      if k == 0 then some (acc.reverse, toks) else
      match toks with
      | p :: d :: r =>
        match strOfHex p, bytesOfHex d with
        | some p, some d => go (k - 1) r ((p, [([], d)]) :: acc)
        | _, _ => none
      | _ => none
    go n rest []
  | [] => none

partial def readLinks (k : Nat) (toks : List String) (acc : List (Str × LinkArts)) : Option (List (Str × LinkArts) × List String) :=
  if k == 0 then some (acc.reverse, toks) else
  match toks with
  | name :: rest => do
    let name ← strOfHex name
    let (m, rest) ← readArts rest
    let (p, rest) ← readArts rest
    readLinks (k - 1) rest ((name, { materials := m, products := p }) :: acc)
  | [] => none

def readRulesScenario (toks : List String) : Option (Item × List (Str × LinkArts)) :=
  match toks with
  | name :: "M" :: rest => do
    let name ← strOfHex name
    let (ms, rest) ← readRules rest
    match rest with
    | "P" :: rest => do
      let (ps, rest) ← readRules rest
      match rest with
      | "L" :: k :: rest => do
        let k ← k.toNat?
        let (links, rest) ← readLinks k rest []
        if rest.isEmpty then pure ({ name := name, expMaterials := ms, expProducts := ps }, links) else none
      | _ => none
    | _ => none
  | _ => none

end InToto.Proto
