import InTotoModel.Model.Basic
/-
  Line-protocol helpers for the driver (not part of any model or theorem).
  Bytes travel as lower-case hex (`-` for the empty string); text as hex of its UTF-8 bytes.
-/
namespace InToto.Proto

def hexDigit (n : Nat) : Char :=
  if n < 10 then Char.ofNat (48 + n) else Char.ofNat (87 + n)

def hexOfBytes (bs : Bytes) : String :=
  if bs.isEmpty then "-" else
  String.ofList (bs.flatMap fun b => [hexDigit (b.toNat / 16), hexDigit (b.toNat % 16)])

def hexVal (c : Char) : Option Nat :=
  if '0' ≤ c ∧ c ≤ '9' then some (c.toNat - 48)
  else if 'a' ≤ c ∧ c ≤ 'f' then some (c.toNat - 87)
  else none

def bytesOfHexChars : List Char → Option Bytes
  | [] => some []
  | [_] => none
  | a :: b :: r => do
    let x ← hexVal a
    let y ← hexVal b
    let rest ← bytesOfHexChars r
    pure (UInt8.ofNat (x * 16 + y) :: rest)

def bytesOfHex (s : String) : Option Bytes :=
  if s == "-" then some [] else bytesOfHexChars s.toList

end InToto.Proto
