import InTotoModel.Driver.RulesProto
import InTotoModel.Model.Verify
import InTotoModel.Spec.Verify
/-
  End-to-end verification scenarios on the line protocol (see harness/src/e2e.rs for the writer):

    verify <name|~> <now> K <n> <kid>* <block> <dir> R <n> ( <path> <insp-name> ( <status> <link> | F ) )*
    block := B <nsigs> (<kid>:<0|1>)* <meta>          bit: the value verifies under the key whose id is <kid>
    meta  := Y <expires> <nkeys> <kid>* <nsteps> step* <ninsp> insp*  |  N <link>
    step  := <name> <threshold> <npk> <kid>* <nm> rule* <np> rule*
    insp  := <name> <nm> rule* <np> rule*
    link  := <name> <arts> <arts> <extra>
    dir   := D <nfiles> ( <fname> ( U | block ) )* <nsubs> ( <name> dir )*
  Keys are identified by their intrinsic id (`K := Str`, `kidOf := id`).
-/
namespace InToto.Proto
open InToto InToto.Rules InToto.Verify

abbrev P (α : Type) := List String → Option (α × List String)

def pNat : P Nat
  | t :: r => t.toNat?.map (·, r)
  | [] => none

def pInt : P Int
  | t :: r => t.toInt?.map (·, r)
  | [] => none

def pStr : P Str
  | t :: r => (strOfHex t).map (·, r)
  | [] => none

def pKid : P Str
  | t :: r => some (t.toList, r)
  | [] => none

partial def pMany {α : Type} (p : P α) (n : Nat) (toks : List String) (acc : List α := []) : Option (List α × List String) :=
  if n == 0 then some (acc.reverse, toks) else
  match p toks with
  | some (a, r) => pMany p (n - 1) r (a :: acc)
  | none => none

def pCounted {α : Type} (p : P α) : P (List α) := fun toks =>
  match pNat toks with
  | some (n, r) => pMany p n r
  | none => none

def pRule : P Rule
  | t :: r => (readRule t).map (·, r)
  | [] => none

def pLink : P Link := fun toks => do
  let (name, r) ← pStr toks
  let (m, r) ← readArts r
  let (p, r) ← readArts r
  match r with
  | e :: r => do
    let e ← bytesOfHex e
    pure ({ name := name, arts := { materials := m, products := p }, extra := e }, r)
  | [] => none

def pStep : P Step := fun toks => do
  let (name, r) ← pStr toks
  let (t, r) ← pNat r
  let (pk, r) ← pCounted pKid r
  let (m, r) ← pCounted pRule r
  let (p, r) ← pCounted pRule r
  pure ({ name := name, threshold := t, pubkeys := pk, expMaterials := m, expProducts := p }, r)

def pInsp : P Insp := fun toks => do
  let (name, r) ← pStr toks
  let (m, r) ← pCounted pRule r
  let (p, r) ← pCounted pRule r
  pure ({ name := name, expMaterials := m, expProducts := p }, r)

def pSig : P Sig
  | t :: r =>
    match t.splitOn ":" with
    | [k, b] => some ({ kid := k.toList, val := if b == "1" then [1] else [0] }, r)
    | _ => none
  | [] => none

def pMeta : P (Meta Str)
  | "Y" :: r => do
    let (e, r) ← pInt r
    let (ks, r) ← pCounted pKid r
    let (st, r) ← pCounted pStep r
    let (ins, r) ← pCounted pInsp r
    pure (.layout { expires := e, keys := ks.map (fun k => (k, k)), steps := st, inspect := ins }, r)
  | "N" :: r => do
    let (l, r) ← pLink r
    pure (.link l, r)
  | _ => none

def pBlock : P (Block Str)
  | "B" :: r => do
    let (sg, r) ← pCounted pSig r
    let (m, r) ← pMeta r
    pure ({ sigs := sg, signed := m }, r)
  | _ => none

def pFile : P (Str × FileC Str) := fun toks => do
  let (name, r) ← pStr toks
  match r with
  | "U" :: r => pure ((name, .unreadable), r)
  | _ => do
    let (b, r) ← pBlock r
    pure ((name, .block b), r)

partial def pDir : P (Dir Str)
  | "D" :: r => do
    let (files, r) ← pCounted pFile r
    let (n, r) ← pNat r
    let rec subs (k : Nat) (toks : List String) (acc : List (Str × Dir Str)) : Option (List (Str × Dir Str) × List String) :=
      if k == 0 then some (acc.reverse, toks) else
      match pStr toks with
      | some (name, r) =>
        match pDir r with
        | some (d, r) => subs (k - 1) r ((name, d) :: acc)
        | none => none
      | none => none
    let (ss, r) ← subs n r []
    pure (.mk files ss, r)
  | _ => none

structure RunEntry where
  path : Str
  name : Str
  outcome : Option (Int × Link)

def pRun : P RunEntry := fun toks => do
  let (path, r) ← pStr toks
  let (name, r) ← pStr r
  match r with
  | "F" :: r => pure ({ path := path, name := name, outcome := none }, r)
  | _ => do
    let (st, r) ← pInt r
    let (l, r) ← pLink r
    pure ({ path := path, name := name, outcome := some (st, l) }, r)

def joinPath : List Str → Str
  | [] => []
  | [a] => a
  | a :: r => a ++ '/' :: joinPath r

def showArts (a : Artifacts) : String :=
  String.intercalate " " (toString a.length :: a.map fun (p, d) =>
    hexOfStr p ++ " " ++ hexOfBytes (match d with | (_, b) :: _ => b | [] => []))

def showLink (l : Link) : String :=
  s!"{hexOfStr l.name} {showArts l.arts.materials} {showArts l.arts.products} {hexOfBytes l.extra}"

/-- the inspection commands that were started, in the order in which they were started -/
def showEvents (ev : List Event) : String :=
  let names := ev.map fun e => match e with | .inspectionStarted p n => hexOfStr (joinPath p) ++ ":" ++ hexOfStr n
  String.intercalate " " (s!"E{names.length}" :: names)

def revOrd : Ord := { perm := fun _ {_} l => l.reverse }
def idOrd : Ord := { perm := fun _ {_} l => l }

def runVerify (toks : List String) : String :=
  let parsed : Option (Option Str × Int × List Str × Block Str × Dir Str × List RunEntry) := do
    match toks with
    | nm :: r => do
      let name ← optStr nm
      let (now, r) ← pInt r
      match r with
      | "K" :: r => do
        let (keys, r) ← pCounted pKid r
        let (b, r) ← pBlock r
        let (d, r) ← pDir r
        match r with
        | "R" :: r => do
          let (runs, r) ← pCounted pRun r
          if r.isEmpty then pure (name, now, keys, b, d, runs) else none
        | _ => none
      | _ => none
    | [] => none
  match parsed with
  | none => "bad-op"
  | some (name, now, keys, b, d, runs) =>
    let env : Env Str := {
      kidOf := id
      valid := fun _ _ v => v == [1]
      now := fun _ => now
      run := fun path i =>
        match runs.find? (fun e => e.path == joinPath path && e.name == i.name) with
        | some e => e.outcome
        | none => some (-9999, emptyLink i.name)   -- the scenario did not say: flagged below
    }
    let go (o : Ord) : String :=
      let (res, ev) := verify env o 64 [] b keys d (name.getD [])
      let missing := ev.any fun e => match e with
        | .inspectionStarted p n => !(runs.any fun r => r.path == joinPath p && r.name == n)
      let head := match res with
        | .ok l => "ok " ++ showLink l
        | .err 99 => "unmodelled"
        | .err _ => "err"
        | .panic s => s!"panic {s}"
      -- (delegated evidence is visited in layout order and key-id order: the sequence of inspection
      -- commands is determined, in failing runs too, and compared as a sequence)
      -- the specification's verdict (`Spec/Verify.lean`; proved equal to the model's success part in
      -- `Props/Spec.lean` - evaluated here as well, so that the executable definitions are exercised)
      let spec := InToto.VerifySpec.accepts env 64 [] b keys d (name.getD [])
      let agrees := match res, spec with
        | .ok l, some l' => decide (l = l')
        | .ok _, none => false
        | _, some _ => false
        | _, none => true
      (if missing then "model-ran-an-inspection-the-implementation-did-not " else "") ++
        (if agrees then "" else "SPECIFICATION-DIFFERS ") ++ head ++ " " ++ showEvents ev
    let a := go (seqOrd idOrd)
    let b' := go (seqOrd revOrd)
    if a == b' then a else "ORDER-DEPENDENT [" ++ a ++ "] [" ++ b' ++ "]"

end InToto.Proto
