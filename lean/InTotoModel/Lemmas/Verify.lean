import InTotoModel.Lemmas.Assoc
import InTotoModel.Props.C04
namespace InToto.Verify
open InToto.Threshold

variable {K : Type}

/-- everything a successful run of the pipeline went through -/
structure Passed (env : Env K) (ord : Ord) (fuel : Nat) (path : List Str) (b : Block K) (keys : List K)
    (dir : Dir K) (name : Str) (s : Link) where
  L : Layout K
  loaded : List (Str × List (Str × Block K))
  verified : List (Str × List (Str × Block K))
  links : List (Str × List (Str × Link))
  ev : List Event
  reduced : List (Str × Link)
  inspLinks : List (Str × Link)
  ev' : List Event
  hsig : verifyBlockK env ord b keys.length keys = .ok (.layout L)
  hexp : ¬ (L.expires < env.now path)
  hload : loadLinks dir L.steps [] = .ok loaded
  hthr : verifyThresholds env ord L loaded L.steps [] = .ok verified
  hsub : subLayouts env ord fuel path L dir (ord.perm 2 verified) [] [] = (.ok links, ev)
  hagree : checkAgreement ord links L.steps = .ok ()
  hred : reduceLinks links = .ok reduced
  hrules : itemRules 9 reduced (L.steps.map stepItem) = .ok ()
  hinsp : runInspections env path L.inspect [] ev = (.ok inspLinks, ev')
  hirules : itemRules 11 (extend reduced inspLinks) (L.inspect.map inspItem) = .ok ()
  hsum : summary L (extend reduced inspLinks) name = .ok s

theorem verify_ok_inv {env : Env K} {ord : Ord} {fuel : Nat} {path : List Str} {b : Block K} {keys : List K}
    {dir : Dir K} {name : Str} {s : Link}
    (h : (verify env ord (fuel + 1) path b keys dir name).1 = .ok s) :
    Nonempty (Passed env ord fuel path b keys dir name s) := by
  rw [verify] at h
  split at h
  · simp at h
  · simp at h
  · simp at h
  · rename_i L hsig
    split at h
    · simp at h
    · rename_i hexp
      split at h
      · simp at h
      · simp at h
      · rename_i loaded hload
        split at h
        · simp at h
        · simp at h
        · rename_i verified hthr
          split at h
          · simp at h
          · simp at h
          · rename_i links ev hsub
            split at h
            · simp at h
            · simp at h
            · rename_i hagree
              split at h
              · simp at h
              · simp at h
              · rename_i reduced hred
                split at h
                · simp at h
                · simp at h
                · rename_i hrules
                  split at h
                  · simp at h
                  · simp at h
                  · rename_i inspLinks ev' hinsp
                    simp only at h
                    split at h
                    · simp at h
                    · simp at h
                    · rename_i hirules
                      exact ⟨⟨L, loaded, verified, links, ev, reduced, inspLinks, ev', hsig, hexp, hload, hthr,
                        hsub, hagree, hred, hrules, hinsp, hirules, h⟩⟩

theorem verify_zero {env : Env K} {ord : Ord} {path : List Str} {b : Block K} {keys : List K}
    {dir : Dir K} {name : Str} : verify env ord 0 path b keys dir name = (.err 5, []) := by
  rw [verify]

theorem verifyBlockK_ok {env : Env K} {ord : Ord} {b : Block K} {t : Nat} {auth : List K} {m : Meta K}
    (h : verifyBlockK env ord b t auth = .ok m) :
    m = b.signed ∧ verifySigs env.kidOf (fun k v => env.valid k b.signed v) (ord.perm 0) b.sigs t auth = .ok () :=
  c04_returns_checked_content _ _ _ _ _ _ _ _ h

end InToto.Verify

namespace InToto.Verify
open InToto.Threshold
variable {K : Type}

/-- every iteration order is a rearrangement -/
def Ord.Valid (ord : Ord) : Prop := ∀ (site : Nat) (α : Type) (l : List (Str × α)), (ord.perm site l).Perm l

theorem eq_of_nodup_map {β : Type} (f : β → Str) {l : List β} (h : (l.map f).Nodup) {a b : β}
    (ha : a ∈ l) (hb : b ∈ l) (e : f a = f b) : a = b := by
  induction l with
  | nil => simp at ha
  | cons x r ih =>
    simp only [List.map_cons, List.nodup_cons] at h
    simp only [List.mem_cons] at ha hb
    rcases ha with rfl | ha <;> rcases hb with rfl | hb
    · rfl
    · exfalso; exact h.1 (List.mem_map.mpr ⟨b, hb, e.symm⟩)
    · exfalso; exact h.1 (List.mem_map.mpr ⟨a, ha, e⟩)
    · exact ih h.2 ha hb

theorem verify_ok_fuel {env : Env K} {ord : Ord} {fuel : Nat} {path : List Str} {b : Block K} {keys : List K}
    {dir : Dir K} {name : Str} {s : Link}
    (h : (verify env ord fuel path b keys dir name).1 = .ok s) : ∃ f, fuel = f + 1 := by
  cases fuel with
  | zero => rw [verify_zero] at h; simp at h
  | succ f => exact ⟨f, rfl⟩

end InToto.Verify

namespace InToto.Verify
variable {K : Type}

/-- the directory a sub-layout filed under `kid` for step `stepName` is verified against -/
def subName (stepName kid : Str) : Str := stepName ++ '.' :: prefix8 kid

/-- what `verify_sublayouts` established for one piece of evidence -/
def SubOk (env : Env K) (ord : Ord) (fuel : Nat) (path : List Str) (L : Layout K) (dir : Dir K)
    (stepName kid : Str) (blk : Block K) : Prop :=
  match blk.signed with
  | .link _ => True
  | .layout _ =>
    ∃ k s', lookup kid L.keys = some k ∧
      (verify env ord fuel (path ++ [subName stepName kid]) blk [k] (subDirOf dir (subName stepName kid)) stepName).1
        = .ok s'

theorem subLayoutsStep_spec {env : Env K} {ord : Ord} {fuel : Nat} {path : List Str} {L : Layout K} {dir : Dir K}
    {stepName : Str} (per : List (Str × Block K)) (acc : List (Str × Link)) (ev : List Event)
    {res : List (Str × Link)} {ev' : List Event}
    (h : subLayoutsStep env ord fuel path L dir stepName per acc ev = (.ok res, ev')) :
    (∀ e ∈ per, SubOk env ord fuel path L dir stepName e.1 e.2) ∧
    (per ≠ [] ∨ acc ≠ [] → res ≠ []) ∧
    ((acc.map Prod.fst).Nodup → (res.map Prod.fst).Nodup) := by
  induction per generalizing acc ev with
  | nil =>
    rw [subLayoutsStep] at h
    cases h
    exact ⟨by simp, by simp, id⟩
  | cons e rest ih =>
    obtain ⟨kid, b⟩ := e
    rw [subLayoutsStep] at h
    split at h
    · rename_i l hl
      have ⟨h1, h2, h3⟩ := ih _ _ h
      refine ⟨?_, ?_, ?_⟩
      · intro e he
        simp only [List.mem_cons] at he
        rcases he with rfl | he
        · simp [SubOk, hl]
        · exact h1 e he
      · intro _; exact h2 (Or.inr (upsert_ne_nil _ _ _))
      · intro hn; exact h3 (nodup_upsert _ _ hn)
    · rename_i L' hl
      split at h
      · simp at h
      · rename_i k hk
        simp only at h
        split at h
        · rename_i l evs hv
          have ⟨h1, h2, h3⟩ := ih _ _ h
          refine ⟨?_, ?_, ?_⟩
          · intro e he
            simp only [List.mem_cons] at he
            rcases he with rfl | he
            · simp only [SubOk, hl]
              exact ⟨k, l, hk, by simp only [subName]; rw [hv]⟩
            · exact h1 e he
          · intro _; exact h2 (Or.inr (upsert_ne_nil _ _ _))
          · intro hn; exact h3 (nodup_upsert _ _ hn)
        · simp at h
        · simp at h

theorem subLayouts_spec {env : Env K} {ord : Ord} {fuel : Nat} {path : List Str} {L : Layout K} {dir : Dir K}
    (vs : List (Str × List (Str × Block K))) (acc : List (Str × List (Str × Link))) (ev : List Event)
    {links : List (Str × List (Str × Link))} {ev' : List Event}
    (h : subLayouts env ord fuel path L dir vs acc ev = (.ok links, ev')) :
    (∀ v ∈ vs, ∀ e ∈ ord.perm 3 v.2, SubOk env ord fuel path L dir v.1 e.1 e.2) := by
  induction vs generalizing acc ev with
  | nil => simp
  | cons v rest ih =>
    obtain ⟨stepName, per⟩ := v
    rw [subLayouts] at h
    split at h
    · simp at h
    · simp at h
    · rename_i perLinks ev1 hstep
      have h1 := (subLayoutsStep_spec _ _ _ hstep).1
      intro v hv
      simp only [List.mem_cons] at hv
      rcases hv with rfl | hv
      · exact h1
      · exact ih _ _ h v hv

end InToto.Verify

namespace InToto.Verify
variable {K : Type}

/-! ### stage 3 -/

/-- a link-directory file that is evidence of `stepName` filed under key id `kid` -/
def FiledIn (dir : Dir K) (stepName kid : Str) (blk : Block K) : Prop :=
  ∃ fname, (fname, FileC.block blk) ∈ dir.files ∧ matchesStepFile stepName fname = true ∧
    ∃ σ ∈ blk.sigs, σ.kid = kid ∧ prefix8 kid = fileShortId stepName fname

theorem matchSignatures_spec (b : Block K) (short : Str) (acc : List (Str × Block K)) :
    ∀ e ∈ matchSignatures b short acc, e ∈ acc ∨ (e.2 = b ∧ ∃ σ ∈ b.sigs, σ.kid = e.1 ∧ prefix8 e.1 = short) := by
  intro e he
  unfold matchSignatures at he
  split at he
  · rename_i s hs
    rcases mem_upsert he with h | h
    · subst h
      have hm := List.mem_of_find?_eq_some hs
      have hp := List.find?_some hs
      exact Or.inr ⟨rfl, s, hm, rfl, by simpa using hp⟩
    · exact Or.inl h
  · exact Or.inl he

theorem matchSignatures_nodup (b : Block K) (short : Str) {acc : List (Str × Block K)}
    (h : (acc.map Prod.fst).Nodup) : ((matchSignatures b short acc).map Prod.fst).Nodup := by
  unfold matchSignatures
  split
  · exact nodup_upsert _ _ h
  · exact h

theorem loadStepFiles_spec (stepName : Str) (files : List (Str × FileC K)) (acc : List (Str × Block K))
    {res : List (Str × Block K)} (h : loadStepFiles stepName files acc = .ok res) :
    (∀ e ∈ res, e ∈ acc ∨ ∃ fname, (fname, FileC.block e.2) ∈ files ∧ matchesStepFile stepName fname = true ∧
        ∃ σ ∈ e.2.sigs, σ.kid = e.1 ∧ prefix8 e.1 = fileShortId stepName fname) ∧
    ((acc.map Prod.fst).Nodup → (res.map Prod.fst).Nodup) := by
  induction files generalizing acc with
  | nil =>
    simp only [loadStepFiles] at h
    cases h
    exact ⟨fun e he => Or.inl he, id⟩
  | cons f rest ih =>
    obtain ⟨fname, c⟩ := f
    simp only [loadStepFiles] at h
    split at h
    · rename_i hm
      split at h
      · cases h
      · rename_i b
        have ⟨h1, h2⟩ := ih _ h
        refine ⟨?_, fun hn => h2 (matchSignatures_nodup _ _ hn)⟩
        intro e he
        rcases h1 e he with h | ⟨fn, hfn, hmm, hσ⟩
        · rcases matchSignatures_spec b _ acc e h with h | ⟨hb, σ, hσ, hk, hp⟩
          · exact Or.inl h
          · exact Or.inr ⟨fname, by rw [hb]; simp, hm, σ, by rw [hb]; exact hσ, hk, hp⟩
        · exact Or.inr ⟨fn, List.mem_cons_of_mem _ hfn, hmm, hσ⟩
    · have ⟨h1, h2⟩ := ih _ h
      refine ⟨?_, h2⟩
      intro e he
      rcases h1 e he with h | ⟨fn, hfn, hmm, hσ⟩
      · exact Or.inl h
      · exact Or.inr ⟨fn, List.mem_cons_of_mem _ hfn, hmm, hσ⟩

/-- every entry of the loaded table comes from the accumulator or from the files of the directory -/
theorem loadLinks_spec (dir : Dir K) (steps : List Step) (acc : List (Str × List (Str × Block K)))
    {loaded : List (Str × List (Str × Block K))} (h : loadLinks dir steps acc = .ok loaded) :
    ∀ v ∈ loaded, v ∈ acc ∨ ((∀ e ∈ v.2, FiledIn dir v.1 e.1 e.2) ∧ (v.2.map Prod.fst).Nodup) := by
  induction steps generalizing acc with
  | nil => simp only [loadLinks] at h; cases h; exact fun v hv => Or.inl hv
  | cons st rest ih =>
    simp only [loadLinks] at h
    split at h
    · cases h
    · split at h
      · rename_i links hl
        split at h
        · cases h
        · intro v hv
          rcases ih _ h v hv with hm | hm
          · rcases mem_upsert hm with e | e
            · subst e
              have ⟨h1, h2⟩ := loadStepFiles_spec st.name dir.files [] hl
              refine Or.inr ⟨?_, h2 (by simp)⟩
              intro e he
              rcases h1 e he with h0 | h0
              · simp at h0
              · exact h0
            · exact Or.inl e
          · exact Or.inr hm
      · cases h
      · cases h

/-! ### stage 4 -/

/-- a link counted for step `st`: signed by a key listed for the step and defined in the key table -/
def Counted (env : Env K) (ord : Ord) (L : Layout K) (st : Step) (kid : Str) (blk : Block K) : Prop :=
  kid ∈ st.pubkeys ∧ ∃ k m, lookup kid L.keys = some k ∧ verifyBlockK env ord blk 1 [k] = .ok m

theorem goodLinks_spec (env : Env K) (ord : Ord) (L : Layout K) (st : Step)
    (links acc : List (Str × Block K)) :
    (∀ e ∈ goodLinks env ord L st links acc, e ∈ acc ∨ (e ∈ links ∧ Counted env ord L st e.1 e.2)) ∧
    ((acc.map Prod.fst).Nodup → ((goodLinks env ord L st links acc).map Prod.fst).Nodup) := by
  induction links generalizing acc with
  | nil => simp [goodLinks]
  | cons x rest ih =>
    obtain ⟨kid, b⟩ := x
    simp only [goodLinks]
    split
    · rename_i hpk
      split
      · rename_i k hk
        split
        · rename_i m hv
          have ⟨h1, h2⟩ := ih (upsert kid b acc)
          refine ⟨?_, fun hn => h2 (nodup_upsert _ _ hn)⟩
          intro e he
          rcases h1 e he with h | ⟨h, hc⟩
          · rcases mem_upsert h with h | h
            · subst h
              exact Or.inr ⟨by simp, hpk, k, m, hk, hv⟩
            · exact Or.inl h
          · exact Or.inr ⟨List.mem_cons_of_mem _ h, hc⟩
        · have ⟨h1, h2⟩ := ih acc
          refine ⟨?_, h2⟩
          intro e he
          rcases h1 e he with h | ⟨h, hc⟩
          · exact Or.inl h
          · exact Or.inr ⟨List.mem_cons_of_mem _ h, hc⟩
      · have ⟨h1, h2⟩ := ih acc
        refine ⟨?_, h2⟩
        intro e he
        rcases h1 e he with h | ⟨h, hc⟩
        · exact Or.inl h
        · exact Or.inr ⟨List.mem_cons_of_mem _ h, hc⟩
    · have ⟨h1, h2⟩ := ih acc
      refine ⟨?_, h2⟩
      intro e he
      rcases h1 e he with h | ⟨h, hc⟩
      · exact Or.inl h
      · exact Or.inr ⟨List.mem_cons_of_mem _ h, hc⟩

/-- the verified links of step `st`, as a function of what was loaded -/
def goodOf (env : Env K) (ord : Ord) (L : Layout K) (loaded : List (Str × List (Str × Block K))) (st : Step) :
    List (Str × Block K) :=
  goodLinks env ord L st (ord.perm 1 ((lookup st.name loaded).getD [])) []

theorem verifyThresholds_spec (env : Env K) (ord : Ord) (L : Layout K)
    (loaded : List (Str × List (Str × Block K))) (steps : List Step)
    (acc : List (Str × List (Str × Block K))) {verified : List (Str × List (Str × Block K))}
    (h : verifyThresholds env ord L loaded steps acc = .ok verified) :
    (∀ v ∈ verified, v ∈ acc ∨ ∃ st ∈ steps, v.1 = st.name ∧ v.2 = goodOf env ord L loaded st) ∧
    (∀ name, name ∉ steps.map Step.name → lookup name verified = lookup name acc) ∧
    ((steps.map Step.name).Nodup → ∀ st ∈ steps,
        lookup st.name verified = some (goodOf env ord L loaded st) ∧
        st.threshold ≤ (goodOf env ord L loaded st).length) ∧
    ((acc.map Prod.fst).Nodup → (verified.map Prod.fst).Nodup) := by
  induction steps generalizing acc with
  | nil =>
    simp only [verifyThresholds] at h
    cases h
    exact ⟨fun v hv => Or.inl hv, fun _ _ => rfl, fun _ st hst => by simp at hst, id⟩
  | cons st rest ih =>
    simp only [verifyThresholds] at h
    split at h
    · cases h
    · rename_i hcond
      have hlen : ¬ (goodLinks env ord L st (ord.perm 1 ((lookup st.name loaded).getD [])) []).length < st.threshold := by
        intro c; apply hcond; simp [c]
      have ⟨h1, h2, h3, h4⟩ := ih _ h
      refine ⟨?_, ?_, ?_, fun hn => h4 (nodup_upsert _ _ hn)⟩
      · intro v hv
        rcases h1 v hv with hm | ⟨s', hs', e1, e2⟩
        · rcases mem_upsert hm with e | e
          · subst e
            exact Or.inr ⟨st, by simp, rfl, rfl⟩
          · exact Or.inl e
        · exact Or.inr ⟨s', List.mem_cons_of_mem _ hs', e1, e2⟩
      · intro name hname
        simp only [List.map_cons, List.mem_cons, not_or] at hname
        rw [h2 name hname.2, lookup_upsert_ne hname.1]
      · intro hnd s' hs'
        simp only [List.map_cons, List.nodup_cons] at hnd
        simp only [List.mem_cons] at hs'
        rcases hs' with rfl | hs'
        · refine ⟨?_, by simp only [goodOf]; omega⟩
          rw [h2 _ hnd.1, lookup_upsert_self]
          rfl
        · exact h3 hnd.2 s' hs'

/-- a successful stage 4 has seen every step name once: none was in the table before, and the names
    are pairwise distinct -/
theorem verifyThresholds_names (env : Env K) (ord : Ord) (L : Layout K)
    (loaded : List (Str × List (Str × Block K))) (steps : List Step)
    (acc : List (Str × List (Str × Block K))) {verified : List (Str × List (Str × Block K))}
    (h : verifyThresholds env ord L loaded steps acc = .ok verified) :
    (∀ st ∈ steps, lookup st.name acc = none) ∧ (steps.map Step.name).Nodup := by
  induction steps generalizing acc with
  | nil => exact ⟨by simp, by simp⟩
  | cons st rest ih =>
    simp only [verifyThresholds] at h
    split at h
    · cases h
    · rename_i hcond
      have hfresh : lookup st.name acc = none := by
        cases hl : lookup st.name acc with
        | none => rfl
        | some v => exfalso; apply hcond; simp [hl]
      have ⟨h1, h2⟩ := ih _ h
      refine ⟨?_, ?_⟩
      · intro s' hs'
        rcases List.mem_cons.mp hs' with rfl | hs'
        · exact hfresh
        · have := h1 s' hs'
          by_cases e : s'.name = st.name
          · rw [e, lookup_upsert_self] at this; cases this
          · rwa [lookup_upsert_ne e] at this
      · simp only [List.map_cons, List.nodup_cons]
        refine ⟨?_, h2⟩
        intro hm
        obtain ⟨s', hs', e⟩ := List.mem_map.mp hm
        have := h1 s' hs'
        rw [e, lookup_upsert_self] at this
        cases this

end InToto.Verify

namespace InToto.Verify
variable {K : Type}

/-! ### stages 5 and 8: every step keeps an entry; reduction needs it non-empty -/

theorem subLayouts_keeps {env : Env K} {ord : Ord} {fuel : Nat} {path : List Str} {L : Layout K} {dir : Dir K}
    (vs : List (Str × List (Str × Block K))) (acc : List (Str × List (Str × Link))) (ev : List Event)
    {links : List (Str × List (Str × Link))} {ev' : List Event}
    (h : subLayouts env ord fuel path L dir vs acc ev = (.ok links, ev'))
    {n : Str} {pl : List (Str × Link)} (hm : (n, pl) ∈ acc) (hn : n ∉ vs.map Prod.fst) : (n, pl) ∈ links := by
  induction vs generalizing acc ev with
  | nil => rw [subLayouts] at h; cases h; exact hm
  | cons v rest ih =>
    obtain ⟨stepName, per⟩ := v
    simp only [List.map_cons, List.mem_cons, not_or] at hn
    rw [subLayouts] at h
    split at h
    · simp at h
    · simp at h
    · exact ih _ _ h (mem_upsert_of_mem hm hn.1) hn.2

theorem subLayouts_entries {env : Env K} {ord : Ord} (hord : ord.Valid) {fuel : Nat} {path : List Str}
    {L : Layout K} {dir : Dir K}
    (vs : List (Str × List (Str × Block K))) (acc : List (Str × List (Str × Link))) (ev : List Event)
    {links : List (Str × List (Str × Link))} {ev' : List Event}
    (h : subLayouts env ord fuel path L dir vs acc ev = (.ok links, ev'))
    (hnd : (vs.map Prod.fst).Nodup) :
    ∀ v ∈ vs, ∃ pl, (v.1, pl) ∈ links ∧ (v.2 = [] → pl = []) := by
  induction vs generalizing acc ev with
  | nil => simp
  | cons v rest ih =>
    obtain ⟨stepName, per⟩ := v
    simp only [List.map_cons, List.nodup_cons] at hnd
    rw [subLayouts] at h
    split at h
    · simp at h
    · simp at h
    · rename_i perLinks ev1 hstep
      intro v hv
      simp only [List.mem_cons] at hv
      rcases hv with rfl | hv
      · refine ⟨perLinks, subLayouts_keeps _ _ _ h (mem_upsert_self _ _ _) hnd.1, ?_⟩
        intro hnil
        simp only at hnil hstep
        subst hnil
        have : ord.perm 3 ([] : List (Str × Block K)) = [] := List.Perm.eq_nil (hord 3 _ [])
        rw [this, subLayoutsStep] at hstep
        cases hstep
        rfl
      · exact ih _ _ h hnd.2 v hv

theorem minEntry_ne_none {α : Type} {l : List (Str × α)} (h : l ≠ []) : minEntry l ≠ none := by
  cases l with
  | nil => exact absurd rfl h
  | cons e r =>
    simp only [minEntry]
    split
    · simp
    · split <;> simp

theorem reduceLinks_nonempty {links : List (Str × List (Str × Link))} {reduced : List (Str × Link)}
    (h : reduceLinks links = .ok reduced) : ∀ v ∈ links, v.2 ≠ [] := by
  induction links generalizing reduced with
  | nil => simp
  | cons v rest ih =>
    obtain ⟨name, per⟩ := v
    simp only [reduceLinks] at h
    split at h
    · cases h
    · rename_i hmin
      split at h
      · rename_i r hr
        intro v hv
        simp only [List.mem_cons] at hv
        rcases hv with rfl | hv
        · intro e
          simp only at e
          rw [e] at hmin
          simp [minEntry] at hmin
        · exact ih hr v hv
      · cases h
      · cases h

end InToto.Verify
