import InTotoModel.Lemmas.JsonOrder
namespace InToto.Json

/-- first value filed under `k` -/
def lookupS (k : Str) : List (Str × JV) → Option JV
  | [] => none
  | (k', v) :: r => if k = k' then some v else lookupS k r

theorem lookupS_insertKV (k' k : Str) (v : JV) (l : List (Str × JV)) :
    lookupS k' (insertKV k v l) = if k' = k then some v else lookupS k' l := by
  induction l with
  | nil => simp [insertKV, lookupS]
  | cons q r ih =>
    obtain ⟨k2, v2⟩ := q
    simp only [insertKV]
    split
    · rename_i hlt
      simp only [lookupS]
    · split
      · rename_i _ hgt
        simp only [lookupS, ih]
        by_cases e : k' = k2
        · subst e
          have : k' ≠ k := by
            intro e; subst e; rw [strLt_irrefl] at hgt; cases hgt
          simp [this]
        · simp [e]
      · rename_i h1 h2
        have : k = k2 := strLt_total (by simpa using h1) (by simpa using h2)
        subst this
        simp only [lookupS]
        by_cases e : k' = k <;> simp [e]

theorem lookupS_none_of_allGt {k : Str} {l : List (Str × JV)} (h : AllGt k l) : lookupS k l = none := by
  induction l with
  | nil => rfl
  | cons q r ih =>
    obtain ⟨k2, v2⟩ := q
    have hk : strLt k k2 = true := h (k2, v2) (by simp)
    have : k ≠ k2 := by
      intro e; subst e; rw [strLt_irrefl] at hk; cases hk
    simp only [lookupS, this, if_false]
    exact ih (fun p hp => h p (by simp [hp]))

/-- Two strictly sorted association lists with the same lookup function are equal. -/
theorem sorted_ext {l1 l2 : List (Str × JV)} (h1 : Sorted l1) (h2 : Sorted l2)
    (h : ∀ k, lookupS k l1 = lookupS k l2) : l1 = l2 := by
  induction l1 generalizing l2 with
  | nil =>
    cases l2 with
    | nil => rfl
    | cons q r =>
      obtain ⟨k2, v2⟩ := q
      have := h k2
      simp [lookupS] at this
  | cons p r1 ih =>
    obtain ⟨k1, v1⟩ := p
    cases l2 with
    | nil =>
      have := h k1
      simp [lookupS] at this
    | cons q r2 =>
      obtain ⟨k2, v2⟩ := q
      have ⟨g1, s1⟩ := sorted_cons_iff.mp h1
      have ⟨g2, s2⟩ := sorted_cons_iff.mp h2
      have hk : k1 = k2 := by
        apply strLt_total
        · cases hlt : strLt k1 k2 with
          | false => rfl
          | true =>
            exfalso
            have e := h k1
            have hne : k1 ≠ k2 := by
              intro e; subst e; rw [strLt_irrefl] at hlt; cases hlt
            have : AllGt k1 r2 := fun p hp => strLt_trans hlt (g2 p hp)
            simp [lookupS, hne, lookupS_none_of_allGt this] at e
        · cases hlt : strLt k2 k1 with
          | false => rfl
          | true =>
            exfalso
            have e := h k2
            have hne : k2 ≠ k1 := by
              intro e; subst e; rw [strLt_irrefl] at hlt; cases hlt
            have : AllGt k2 r1 := fun p hp => strLt_trans hlt (g1 p hp)
            simp [lookupS, hne, lookupS_none_of_allGt this] at e
      subst hk
      have hv : v1 = v2 := by
        have e := h k1
        simpa [lookupS] using e
      subst hv
      have : r1 = r2 := by
        apply ih s1 s2
        intro k
        by_cases e : k = k1
        · subst e
          rw [lookupS_none_of_allGt g1, lookupS_none_of_allGt g2]
        · have := h k
          simpa [lookupS, e] using this
      rw [this]

/-- value of the last pair filed under `k` -/
def lastFind (k : Str) : List (Str × JV) → Option JV
  | [] => none
  | (k', v) :: r =>
    match lastFind k r with
    | some w => some w
    | none => if k = k' then some v else none

theorem lookupS_normKvs (k : Str) (kvs acc : List (Str × JV)) :
    lookupS k (normKvs kvs acc) =
      match lastFind k kvs with
      | some v => some (norm v)
      | none => lookupS k acc := by
  induction kvs generalizing acc with
  | nil => simp [normKvs, lastFind]
  | cons p r ih =>
    obtain ⟨k', v⟩ := p
    simp only [normKvs, lastFind]
    rw [ih]
    cases hl : lastFind k r with
    | some w => simp
    | none =>
      simp only [lookupS_insertKV]
      by_cases e : k = k' <;> simp [e]

theorem lastFind_mem {k : Str} {w : JV} {r : List (Str × JV)} (h : lastFind k r = some w) : (k, w) ∈ r := by
  induction r with
  | nil => simp [lastFind] at h
  | cons p r ih =>
    obtain ⟨k', v'⟩ := p
    simp only [lastFind] at h
    cases hl : lastFind k r with
    | some w' =>
      rw [hl] at h
      cases h
      exact List.mem_cons_of_mem _ (ih hl)
    | none =>
      rw [hl] at h
      by_cases e : k = k'
      · subst e; simp at h; subst h; simp
      · simp [e] at h

theorem lastFind_none {k : Str} {r : List (Str × JV)} (h : k ∉ r.map Prod.fst) : lastFind k r = none := by
  cases hl : lastFind k r with
  | none => rfl
  | some w =>
    exfalso
    apply h
    have := lastFind_mem hl
    exact List.mem_map.mpr ⟨(k, w), this, rfl⟩

theorem lastFind_eq_some_iff {k : Str} {v : JV} {kvs : List (Str × JV)}
    (hnd : (kvs.map Prod.fst).Nodup) : lastFind k kvs = some v ↔ (k, v) ∈ kvs := by
  constructor
  · exact lastFind_mem
  · intro hm
    induction kvs with
    | nil => simp at hm
    | cons p r ih =>
      obtain ⟨k', v'⟩ := p
      simp only [List.map_cons, List.nodup_cons] at hnd
      simp only [List.mem_cons, Prod.mk.injEq] at hm
      simp only [lastFind]
      rcases hm with ⟨rfl, rfl⟩ | hm
      · rw [lastFind_none hnd.1]
        simp
      · rw [ih hnd.2 hm]

/-- For objects with pairwise distinct keys the normal form depends only on the *set* of members. -/
theorem normKvs_perm {kvs kvs' : List (Str × JV)} (hp : kvs.Perm kvs')
    (hnd : (kvs.map Prod.fst).Nodup) : normKvs kvs [] = normKvs kvs' [] := by
  have hnd' : (kvs'.map Prod.fst).Nodup := (hp.map Prod.fst).nodup_iff.mp hnd
  have s0 : Sorted ([] : List (Str × JV)) := trivial
  apply sorted_ext (sorted_normKvs kvs [] s0) (sorted_normKvs kvs' [] s0)
  intro k
  rw [lookupS_normKvs, lookupS_normKvs]
  have hiff : ∀ v, lastFind k kvs = some v ↔ lastFind k kvs' = some v := by
    intro v
    rw [lastFind_eq_some_iff hnd, lastFind_eq_some_iff hnd']
    exact hp.mem_iff
  cases h1 : lastFind k kvs with
  | some v => rw [(hiff v).mp h1]
  | none =>
    cases h2 : lastFind k kvs' with
    | none => rfl
    | some v => rw [(hiff v).mpr h2] at h1; cases h1

end InToto.Json
