import InTotoModel.Lemmas.Events
namespace InToto.Rules

theorem applyRule_no_panic (rule : Rule) (arts : Artifacts) (c d m q : List Str) (red : List (Str × LinkArts)) (s : Nat) :
    applyRule rule arts c d m q red ≠ .panic s := by
  cases rule <;> simp only [applyRule] <;> (try simp) <;> (repeat' split) <;> simp

theorem applyRules_no_panic (rules : List Rule) (arts : Artifacts) (c d m : List Str) (red : List (Str × LinkArts))
    (q : List Str) (s : Nat) : applyRules rules arts c d m red q ≠ .panic s := by
  induction rules generalizing q with
  | nil => simp [applyRules]
  | cons r rest ih =>
    simp only [applyRules]
    split
    · exact ih _
    · simp
    · rename_i s' h; exact absurd h (applyRule_no_panic _ _ _ _ _ _ _ _)

theorem applyRulesOnLink_no_panic (item : Item) (red : List (Str × LinkArts)) (s : Nat) :
    applyRulesOnLink item red ≠ .panic s := by
  unfold applyRulesOnLink
  split
  · simp
  · simp only
    split
    · exact applyRules_no_panic _ _ _ _ _ _ _ _
    · simp
    · rename_i s' h; exact absurd h (applyRules_no_panic _ _ _ _ _ _ _ _)

end InToto.Rules

namespace InToto.Verify
open InToto.Threshold

variable {K : Type}

theorem verifyBlockK_no_panic (env : Env K) (ord : Ord) (b : Block K) (t : Nat) (auth : List K) (s : Nat) :
    verifyBlockK env ord b t auth ≠ .panic s := by
  unfold verifyBlockK verifyBlock
  rcases verifySigs_ok_or_err env.kidOf (fun k v => env.valid k b.signed v) (ord.perm 0) b.sigs t auth with h | h <;>
    rw [h] <;> simp

theorem loadStepFiles_no_panic (name : Str) (files : List (Str × FileC K)) (acc : List (Str × Block K)) (s : Nat) :
    loadStepFiles name files acc ≠ .panic s := by
  induction files generalizing acc with
  | nil => simp [loadStepFiles]
  | cons f rest ih =>
    obtain ⟨fn, c⟩ := f
    simp only [loadStepFiles]
    split
    · split
      · simp
      · exact ih _
    · exact ih _

theorem loadLinks_no_panic (dir : Dir K) (steps : List Step) (acc : List (Str × List (Str × Block K))) (s : Nat) :
    loadLinks dir steps acc ≠ .panic s := by
  induction steps generalizing acc with
  | nil => simp [loadLinks]
  | cons st rest ih =>
    simp only [loadLinks]
    split
    · simp
    · split
      · split
        · simp
        · exact ih _
      · simp
      · rename_i s' h; exact absurd h (loadStepFiles_no_panic _ _ _ _)

theorem verifyThresholds_no_panic (env : Env K) (ord : Ord) (L : Layout K) (loaded : List (Str × List (Str × Block K)))
    (steps : List Step) (acc : List (Str × List (Str × Block K))) (s : Nat) :
    verifyThresholds env ord L loaded steps acc ≠ .panic s := by
  induction steps generalizing acc with
  | nil => simp [verifyThresholds]
  | cons st rest ih =>
    simp only [verifyThresholds]
    split
    · simp
    · exact ih _

theorem checkAgreement_no_panic (ord : Ord) (links : List (Str × List (Str × Link))) (steps : List Step) (s : Nat) :
    checkAgreement ord links steps ≠ .panic s := by
  induction steps with
  | nil => simp [checkAgreement]
  | cons st rest ih =>
    simp only [checkAgreement]
    repeat' split
    all_goals first | exact ih | simp

theorem reduceLinks_no_panic (links : List (Str × List (Str × Link))) : ∀ s : Nat, reduceLinks links ≠ .panic s := by
  induction links with
  | nil => simp [reduceLinks]
  | cons v rest ih =>
    obtain ⟨n, per⟩ := v
    intro s
    simp only [reduceLinks]
    split
    · simp
    · split
      · simp
      · simp
      · rename_i s' h; exact absurd h (ih s')

theorem itemRules_no_panic (c : Nat) (red : List (Str × Link)) (items : List Rules.Item) (s : Nat) :
    itemRules c red items ≠ .panic s := by
  induction items with
  | nil => simp [itemRules]
  | cons it rest ih =>
    simp only [itemRules]
    split
    · exact ih
    · simp
    · rename_i s' h; exact absurd h (Rules.applyRulesOnLink_no_panic _ _ _)

theorem runInspections_no_panic (env : Env K) (path : List Str) (insps : List Insp) (acc : List (Str × Link))
    (ev : List Event) (s : Nat) : (runInspections env path insps acc ev).1 ≠ .panic s := by
  induction insps generalizing acc ev with
  | nil => simp [runInspections]
  | cons i rest ih =>
    simp only [runInspections]
    split
    · simp
    · split
      · simp
      · exact ih _ _

/-! ### keys persist from the steps to the reduced table -/

theorem lookup_isSome_upsert {α : Type} (k k' : Str) (v : α) (l : List (Str × α)) (h : (lookup k l).isSome) :
    (lookup k (upsert k' v l)).isSome := by
  by_cases e : k = k'
  · subst e; rw [lookup_upsert_self]; rfl
  · rw [lookup_upsert_ne e]; exact h

theorem verifyThresholds_keys (env : Env K) (ord : Ord) (L : Layout K) (loaded : List (Str × List (Str × Block K)))
    (steps : List Step) (acc : List (Str × List (Str × Block K))) {verified : List (Str × List (Str × Block K))}
    (h : verifyThresholds env ord L loaded steps acc = .ok verified) :
    (∀ k, (lookup k acc).isSome → (lookup k verified).isSome) ∧ ∀ st ∈ steps, (lookup st.name verified).isSome := by
  induction steps generalizing acc with
  | nil => simp only [verifyThresholds] at h; cases h; exact ⟨fun _ h => h, by simp⟩
  | cons st rest ih =>
    simp only [verifyThresholds] at h
    split at h
    · cases h
    · have ⟨h1, h2⟩ := ih _ h
      refine ⟨fun k hk => h1 k (lookup_isSome_upsert _ _ _ _ hk), ?_⟩
      intro s' hs'
      simp only [List.mem_cons] at hs'
      rcases hs' with rfl | hs'
      · exact h1 _ (by rw [lookup_upsert_self]; rfl)
      · exact h2 s' hs'

theorem subLayouts_keys {env : Env K} {ord : Ord} {fuel : Nat} {path : List Str} {L : Layout K} {dir : Dir K}
    (vs : List (Str × List (Str × Block K))) (acc : List (Str × List (Str × Link))) (ev : List Event)
    {links : List (Str × List (Str × Link))} {ev' : List Event}
    (h : subLayouts env ord fuel path L dir vs acc ev = (.ok links, ev')) :
    (∀ k, (lookup k acc).isSome → (lookup k links).isSome) ∧ ∀ v ∈ vs, (lookup v.1 links).isSome := by
  induction vs generalizing acc ev with
  | nil => rw [subLayouts] at h; cases h; exact ⟨fun _ h => h, by simp⟩
  | cons v rest ih =>
    obtain ⟨name, per⟩ := v
    rw [subLayouts] at h
    split at h
    · simp at h
    · simp at h
    · have ⟨h1, h2⟩ := ih _ _ h
      refine ⟨fun k hk => h1 k (lookup_isSome_upsert _ _ _ _ hk), ?_⟩
      intro v hv
      simp only [List.mem_cons] at hv
      rcases hv with rfl | hv
      · exact h1 _ (by rw [lookup_upsert_self]; rfl)
      · exact h2 v hv

theorem reduceLinks_keys {links : List (Str × List (Str × Link))} {reduced : List (Str × Link)}
    (h : reduceLinks links = .ok reduced) : ∀ k, (lookup k links).isSome → (lookup k reduced).isSome := by
  induction links generalizing reduced with
  | nil => intro k hk; simp [lookup] at hk
  | cons v rest ih =>
    obtain ⟨n, per⟩ := v
    simp only [reduceLinks] at h
    split at h
    · cases h
    · split at h
      · rename_i r hr
        cases h
        intro k hk
        simp only [lookup] at hk ⊢
        split
        · rfl
        · rename_i hne
          simp only [hne, if_false] at hk
          exact ih hr k hk
      · cases h
      · cases h

theorem extend_keys {α : Type} (m l : List (Str × α)) : ∀ k, (lookup k m).isSome → (lookup k (extend m l)).isSome := by
  induction l generalizing m with
  | nil => intro k h; exact h
  | cons p r ih =>
    obtain ⟨k', v⟩ := p
    intro k h
    simp only [extend]
    exact ih _ k (lookup_isSome_upsert _ _ _ _ h)

theorem lookup_isSome_of_mem {α : Type} {k : Str} {v : α} {l : List (Str × α)} (h : (k, v) ∈ l) : (lookup k l).isSome := by
  induction l with
  | nil => simp at h
  | cons p r ih =>
    obtain ⟨k', v'⟩ := p
    simp only [lookup]
    split
    · rfl
    · rename_i hne
      simp only [List.mem_cons, Prod.mk.injEq] at h
      rcases h with ⟨rfl, _⟩ | h
      · exact absurd rfl hne
      · exact ih h

theorem summary_no_panic (L : Layout K) (reduced : List (Str × Link)) (name : Str)
    (h : ∀ st ∈ L.steps, (lookup st.name reduced).isSome) (s : Nat) : summary L reduced name ≠ .panic s := by
  unfold summary
  split
  · rename_i first last hf hl
    have h1 : first ∈ L.steps := List.mem_of_mem_head? hf
    have h2 : last ∈ L.steps := List.mem_of_mem_getLast? hl
    have a1 := h first h1
    have a2 := h last h2
    split
    · simp
    · rename_i hno
      exfalso
      obtain ⟨x, hx⟩ := Option.isSome_iff_exists.mp a1
      obtain ⟨y, hy⟩ := Option.isSome_iff_exists.mp a2
      exact hno x y hx hy
  · simp

end InToto.Verify

namespace InToto.Verify
variable {K : Type}

theorem subLayoutsStep_no_panic {env : Env K} {ord : Ord} {fuel : Nat}
    (hv : ∀ path b keys dir name s, (verify env ord fuel path b keys dir name).1 ≠ .panic s)
    (path : List Str) (L : Layout K) (dir : Dir K) (stepName : Str)
    (per : List (Str × Block K)) (acc : List (Str × Link)) (ev : List Event) (s : Nat) :
    (subLayoutsStep env ord fuel path L dir stepName per acc ev).1 ≠ .panic s := by
  induction per generalizing acc ev with
  | nil => rw [subLayoutsStep]; simp
  | cons x rest ih =>
    obtain ⟨kid, b⟩ := x
    rw [subLayoutsStep]
    split
    · exact ih _ _
    · split
      · simp
      · rename_i k hk
        simp only
        split
        · exact ih _ _
        · simp
        · rename_i s' evs heq
          exfalso
          have := hv (path ++ [stepName ++ '.' :: prefix8 kid]) b [k] (subDirOf dir (stepName ++ '.' :: prefix8 kid)) stepName s'
          rw [heq] at this
          exact this rfl

theorem subLayouts_no_panic {env : Env K} {ord : Ord} {fuel : Nat}
    (hv : ∀ path b keys dir name s, (verify env ord fuel path b keys dir name).1 ≠ .panic s)
    (path : List Str) (L : Layout K) (dir : Dir K)
    (vs : List (Str × List (Str × Block K))) (acc : List (Str × List (Str × Link))) (ev : List Event) (s : Nat) :
    (subLayouts env ord fuel path L dir vs acc ev).1 ≠ .panic s := by
  induction vs generalizing acc ev with
  | nil => rw [subLayouts]; simp
  | cons v rest ih =>
    obtain ⟨name, per⟩ := v
    rw [subLayouts]
    split
    · simp
    · rename_i s' ev1 heq
      exfalso
      have := subLayoutsStep_no_panic hv path L dir name (ord.perm 3 per) [] ev s'
      rw [heq] at this
      exact this rfl
    · exact ih _ _

/-- The whole pipeline never reaches a panicking branch: for every environment, iteration order,
    link directory, fuel — in particular every index into the table of reduced links made while
    building the summary hits an existing entry. -/
theorem verify_no_panic (env : Env K) (ord : Ord) (hord : ord.Valid) (fuel : Nat) :
    ∀ path b keys dir name s, (verify env ord fuel path b keys dir name).1 ≠ .panic s := by
  induction fuel with
  | zero => intro path b keys dir name s; rw [verify_zero]; simp
  | succ f ih =>
    intro path b keys dir name s
    rw [verify]
    split
    · simp
    · rename_i s' h; exact absurd h (verifyBlockK_no_panic _ _ _ _ _ _)
    · simp
    · rename_i L hsig
      split
      · simp
      · split
        · simp
        · rename_i s' h; exact absurd h (loadLinks_no_panic _ _ _ _)
        · rename_i loaded hload
          split
          · simp
          · rename_i s' h; exact absurd h (verifyThresholds_no_panic _ _ _ _ _ _ _)
          · rename_i verified hthr
            split
            · simp
            · rename_i s' ev heq
              exfalso
              have := subLayouts_no_panic ih path L dir (ord.perm 2 verified) [] [] s'
              rw [heq] at this
              exact this rfl
            · rename_i links ev hsub
              split
              · simp
              · rename_i s' h; exact absurd h (checkAgreement_no_panic _ _ _ _)
              · split
                · simp
                · rename_i s' h; exact absurd h (reduceLinks_no_panic _ _)
                · rename_i reduced hred
                  split
                  · simp
                  · rename_i s' h; exact absurd h (itemRules_no_panic _ _ _ _)
                  · split
                    · simp
                    · rename_i s' ev' heq
                      exfalso
                      have := runInspections_no_panic env path L.inspect [] ev s'
                      rw [heq] at this
                      exact this rfl
                    · rename_i inspLinks ev' hinsp
                      simp only
                      split
                      · simp
                      · rename_i s' h; exact absurd h (itemRules_no_panic _ _ _ _)
                      · -- the summary: every step name is a key of the reduced table
                        apply summary_no_panic
                        intro st hst
                        apply extend_keys
                        apply reduceLinks_keys hred
                        have hv := (verifyThresholds_keys env ord L loaded L.steps [] hthr).2 st hst
                        obtain ⟨g, hg⟩ := Option.isSome_iff_exists.mp hv
                        have hm : (st.name, g) ∈ ord.perm 2 verified := (hord 2 _ _).mem_iff.mpr (mem_of_lookup hg)
                        exact (subLayouts_keys _ _ _ hsub).2 _ hm

end InToto.Verify
