import InTotoModel.Lemmas.JsonNorm
import InTotoModel.Lemmas.JsonParse
import InTotoModel.Model.Signed
namespace InToto.Json

/-! ### `norm` keeps "no non-integer inside" -/

theorem hasNonIntKvs_insertKV {k : Str} {v : JV} {l : List (Str × JV)}
    (hv : hasNonInt v = false) (hl : hasNonIntKvs l = false) : hasNonIntKvs (insertKV k v l) = false := by
  induction l with
  | nil => simp [insertKV, hasNonIntKvs, hv]
  | cons q r ih =>
    obtain ⟨k', v'⟩ := q
    simp only [hasNonIntKvs, Bool.or_eq_false_iff] at hl
    simp only [insertKV]
    split
    · simp [hasNonIntKvs, hv, hl.1, hl.2]
    · split
      · simp [hasNonIntKvs, hl.1, ih hl.2]
      · simp [hasNonIntKvs, hv, hl.2]

mutual
theorem hasNonInt_norm (v : JV) (h : hasNonInt v = false) : hasNonInt (norm v) = false := by
  match v, h with
  | .null, h => simpa [norm] using h
  | .bool _, h => simpa [norm] using h
  | .num _, h => simpa [norm] using h
  | .str _, h => simpa [norm] using h
  | .arr xs, h =>
    simp only [hasNonInt] at h
    simp only [norm, hasNonInt]
    exact hasNonIntList_norm xs h
  | .obj kvs, h =>
    simp only [hasNonInt] at h
    simp only [norm, hasNonInt]
    exact hasNonIntKvs_norm kvs [] h rfl
theorem hasNonIntList_norm (xs : List JV) (h : hasNonIntList xs = false) : hasNonIntList (normList xs) = false := by
  match xs, h with
  | [], _ => simp [normList, hasNonIntList]
  | x :: xs, h =>
    simp only [hasNonIntList, Bool.or_eq_false_iff] at h
    simp [normList, hasNonIntList, hasNonInt_norm x h.1, hasNonIntList_norm xs h.2]
theorem hasNonIntKvs_norm (kvs acc : List (Str × JV)) (h : hasNonIntKvs kvs = false)
    (ha : hasNonIntKvs acc = false) : hasNonIntKvs (normKvs kvs acc) = false := by
  match kvs, h with
  | [], _ => simpa [normKvs] using ha
  | (k, v) :: r, h =>
    simp only [hasNonIntKvs, Bool.or_eq_false_iff] at h
    simp only [normKvs]
    exact hasNonIntKvs_norm r _ h.2 (hasNonIntKvs_insertKV (hasNonInt_norm v h.1) ha)
end

/-! ### `to_signable_text` turns `Value::write` output into the reference encoding -/

theorem sigOut_cons_ne {c : Char} (h : c ≠ '"') (r : Str) : sigOut (c :: r) = c :: sigOut r := by
  rw [sigOut.eq_def]
  split <;> simp_all

theorem sigOut_noquote (xs rest : Str) (h : '"' ∉ xs) : sigOut (xs ++ rest) = xs ++ sigOut rest := by
  induction xs with
  | nil => rfl
  | cons c cs ih =>
    simp only [List.mem_cons, not_or] at h
    simp only [List.cons_append]
    rw [sigOut_cons_ne (fun e => h.1 e.symm), ih h.2]

theorem quote_not_mem_natDec (n : Nat) : '"' ∉ natDec n := by
  intro h
  have := natDec_digits n _ h
  simp [isDigitC] at this

theorem quote_not_mem_intDec (i : Int) : '"' ∉ intDec i := by
  cases i with
  | ofNat n => exact quote_not_mem_natDec n
  | negSucc n =>
    simp only [intDec, List.mem_cons, not_or]
    exact ⟨by decide, quote_not_mem_natDec _⟩

theorem sigIn_plain (c : Char) (r : Str) (h1 : c ≠ '"') (h2 : c ≠ '\\') : sigIn (c :: r) = c :: sigIn r := by
  rw [sigIn.eq_def]
  split <;> simp_all

theorem hex4_facts : ∀ n : Fin 32,
    hex4Char '0' '0' (hexLower (n.val / 16)) (hexLower (n.val % 16)) = some (Char.ofNat n.val) := by decide

theorem sigIn_escChar (c : Char) (tail : Str) : sigIn (escChar c ++ tail) = refEscChar c ++ sigIn tail := by
  unfold escChar refEscChar
  split
  · rename_i h; subst h; simp [sigIn]
  · split
    · rename_i h; subst h; simp [sigIn]
    · split
      · rename_i hq hb hlt
        have hc : c = Char.ofNat c.toNat := (Char.ofNat_toNat c).symm
        have hf := hex4_facts ⟨c.toNat, hlt⟩
        simp only at hf
        split
        · rename_i h; rw [hc, h]; simp [sigIn]
        · split
          · rename_i h; rw [hc, h]; simp [sigIn]
          · split
            · rename_i h; rw [hc, h]; simp [sigIn]
            · split
              · rename_i h; rw [hc, h]; simp [sigIn]
              · split
                · rename_i h; rw [hc, h]; simp [sigIn]
                · simp only [List.cons_append, List.nil_append]
                  rw [sigIn, hf, ← hc]
      · rename_i hq hb hge
        simp only [List.cons_append, List.nil_append]
        exact sigIn_plain c tail hq hb

theorem sigIn_escBody (s rest : Str) :
    sigIn (escBody s ++ '"' :: rest) = refEscBody s ++ '"' :: sigOut rest := by
  induction s with
  | nil => simp [escBody, refEscBody, sigIn]
  | cons c cs ih =>
    simp only [escBody, refEscBody, List.append_assoc]
    rw [sigIn_escChar, ih]

theorem sigOut_quote (s rest : Str) :
    sigOut (quoteG escBody s ++ rest) = quoteG refEscBody s ++ sigOut rest := by
  simp only [quoteG, List.cons_append, List.append_assoc, List.nil_append]
  rw [sigOut, sigIn_escBody]

mutual
theorem sigOut_write (v : JV) (rest : Str) : sigOut (write v ++ rest) = refWrite v ++ sigOut rest := by
  match v with
  | .null => simp [write, refWrite, writeG, sigOut]
  | .bool true => simp [write, refWrite, writeG, sigOut]
  | .bool false => simp [write, refWrite, writeG, sigOut]
  | .num .nonInt => simp [write, refWrite, writeG]
  | .num (.int i) =>
    simp only [write, refWrite, writeG]
    exact sigOut_noquote _ _ (quote_not_mem_intDec i)
  | .str s => simp only [write, refWrite, writeG]; exact sigOut_quote s rest
  | .arr [] => simp [write, refWrite, writeG, sigOut]
  | .arr (x :: xs) =>
    have h1 := sigOut_write x (writeTailG escBody xs ++ rest)
    have h2 := sigOut_writeTail xs rest
    simp only [write, refWrite] at h1 h2 ⊢
    simp only [writeG, List.cons_append, List.append_assoc]
    rw [sigOut_cons_ne (by decide), h1, h2]
  | .obj [] => simp [write, refWrite, writeG, sigOut]
  | .obj ((k, v) :: r) =>
    have h1 := sigOut_write v (writeKvsTailG escBody r ++ rest)
    have h2 := sigOut_writeKvsTail r rest
    simp only [write, refWrite] at h1 h2 ⊢
    simp only [writeG, List.cons_append, List.append_assoc]
    rw [sigOut_cons_ne (by decide), sigOut_quote, sigOut_cons_ne (by decide), h1, h2]
theorem sigOut_writeTail (xs : List JV) (rest : Str) :
    sigOut (writeTailG escBody xs ++ rest) = writeTailG refEscBody xs ++ sigOut rest := by
  match xs with
  | [] => simp [writeTailG, sigOut]
  | x :: xs =>
    have h1 := sigOut_write x (writeTailG escBody xs ++ rest)
    have h2 := sigOut_writeTail xs rest
    simp only [write, refWrite] at h1
    simp only [writeTailG, List.cons_append, List.append_assoc]
    rw [sigOut_cons_ne (by decide), h1, h2]
theorem sigOut_writeKvsTail (r : List (Str × JV)) (rest : Str) :
    sigOut (writeKvsTailG escBody r ++ rest) = writeKvsTailG refEscBody r ++ sigOut rest := by
  match r with
  | [] => simp [writeKvsTailG, sigOut]
  | (k, v) :: r =>
    have h1 := sigOut_write v (writeKvsTailG escBody r ++ rest)
    have h2 := sigOut_writeKvsTail r rest
    simp only [write, refWrite] at h1
    simp only [writeKvsTailG, List.cons_append, List.append_assoc]
    rw [sigOut_cons_ne (by decide), sigOut_quote, sigOut_cons_ne (by decide), h1, h2]
end

theorem toSignable_write (v : JV) : toSignable (write v) = refWrite v := by
  have := sigOut_write v []
  simpa [toSignable, sigOut] using this

end InToto.Json
