import InTotoModel.Lemmas.Time
/-
  Reading back what a notation writes: `parseRfc3339 (render t n) = some t`.
-/
namespace InToto.Time

/-- The reader on a text whose first nineteen characters are the fixed-width fields. -/
theorem parse_fields {y mo d h mi sc : Nat} {sep : Char} {rest : Str}
    (hy : y < 10000) (hmo : mo < 100) (hd : d < 100) (hh : h < 100) (hmi : mi < 100) (hsc : sc < 100) :
    parseRfc3339 (four y ++ ['-'] ++ two mo ++ ['-'] ++ two d ++ [sep] ++ two h ++ [':'] ++ two mi ++ [':'] ++
        two sc ++ rest) =
      (if ¬(sep = 'T' ∨ sep = 't' ∨ sep = ' ') then none
      else if mo < 1 ∨ mo > 12 ∨ d < 1 ∨ (d : Int) > daysInMonth y mo then none
      else if h ≥ 24 ∨ mi ≥ 60 ∨ sc > 60 then none
      else
        match fracPart rest with
        | none => none
        | some (nano, zone) =>
          match parseZone zone with
          | none => none
          | some off =>
            some { secs := daysFromCivil y mo d * 86400 + h * 3600 + mi * 60 + (if sc = 60 then 59 else sc) - off
                   nanos := (if sc = 60 then 1000000000 else 0) + nano }) := by
  simp only [four, two, List.cons_append, List.nil_append, parseRfc3339,
    num4_four hy, num2_two hmo, num2_two hd, num2_two hh, num2_two hmi, num2_two hsc]
  simp only [ne_eq, not_true_eq_false, or_self, if_false]
  rfl

theorem parse_render (t : Time) (n : Notation) (hv : n.Valid)
    (hyear : 0 ≤ (civilFromDays ((t.secs + n.offMin * 60) / 86400)).y ∧
             (civilFromDays ((t.secs + n.offMin * 60) / 86400)).y ≤ 9999)
    (hnanos : t.nanos < 2000000000)
    (hleap : t.nanos ≥ 1000000000 → t.secs % 60 = 59)
    (hfrac : n.fraction = false → t.nanos % 1000000000 = 0) :
    parseRfc3339 (render t n) = some t := by
  obtain ⟨hlo, hhi, hsep, hz, hmin, hextra⟩ := hv
  have hvalid : n.Valid := ⟨hlo, hhi, hsep, hz, hmin, hextra⟩
  simp only [render, dateTimeText]
  generalize hloc : t.secs + n.offMin * 60 = loc at *
  obtain ⟨hdays, hm1, hm12, hd1, hdim⟩ := civil_facts (loc / 86400)
  generalize hc : civilFromDays (loc / 86400) = c at *
  have hdim31 : c.d ≤ 31 := by
    have : daysInMonth c.y c.m ≤ 31 := by
      unfold daysInMonth; split
      · split <;> omega
      · split <;> omega
    omega
  simp only [yearText, if_pos hyear]
  generalize hsod : (loc % 86400).toNat = sod
  have hsodb : sod < 86400 := by omega
  generalize hlp : (if t.nanos ≥ 1000000000 then 1 else 0) = leap
  have hleapb : leap ≤ 1 := by subst hlp; split <;> omega
  rw [List.append_assoc _ _ (zoneText n)]
  rw [parse_fields (by omega) (by omega) (by omega) (by omega) (by omega) (by omega)]
  have hsep' : ¬¬(n.sep = 'T' ∨ n.sep = 't' ∨ n.sep = ' ') := not_not_intro hsep
  rw [if_neg hsep']
  have hdate : ¬ (c.m.toNat < 1 ∨ c.m.toNat > 12 ∨ c.d.toNat < 1 ∨
      ((c.d.toNat : Nat) : Int) > daysInMonth (c.y.toNat : Nat) (c.m.toNat : Nat)) := by
    have e1 : ((c.y.toNat : Nat) : Int) = c.y := by omega
    have e2 : ((c.m.toNat : Nat) : Int) = c.m := by omega
    have e3 : ((c.d.toNat : Nat) : Int) = c.d := by omega
    rw [e1, e2, e3]; omega
  rw [if_neg hdate]
  have htime : ¬ (sod / 3600 ≥ 24 ∨ sod % 3600 / 60 ≥ 60 ∨ sod % 60 + leap > 60) := by omega
  rw [if_neg htime]
  -- the seconds field and the leap second
  have hsec60 : (sod % 60 + leap = 60) ↔ (t.nanos ≥ 1000000000) := by
    constructor
    · intro h; subst hlp; split at h <;> omega
    · intro h
      have := hleap h
      subst hlp; rw [if_pos h]
      have : loc % 60 = 59 := by omega
      omega
  -- fraction and zone
  have hzone := parseZone_zoneText n hvalid
  have hnd := zoneText_nondigit n hvalid
  have e1 : ((c.y.toNat : Nat) : Int) = c.y := by omega
  have e2 : ((c.m.toNat : Nat) : Int) = c.m := by omega
  have e3 : ((c.d.toNat : Nat) : Int) = c.d := by omega
  cases hfr : n.fraction with
  | true =>
    simp only [if_true]
    rw [show ('.' :: (nine (t.nanos % 1000000000) ++ n.extraDigits)) ++ zoneText n
          = '.' :: (nine (t.nanos % 1000000000) ++ n.extraDigits ++ zoneText n) from by simp]
    simp only [fracPart, parseFrac_nine (Nat.mod_lt _ (by omega)) hextra hnd, hzone, e1, e2, e3, hdays]
    congr 1
    cases t with
    | mk secs nanos =>
      simp only at *
      by_cases hl : nanos ≥ 1000000000
      · have h60 := hsec60.2 hl
        simp only [h60, if_true, Time.mk.injEq]
        have := hleap hl
        constructor <;> omega
      · have h60 : ¬ (sod % 60 + leap = 60) := fun h => hl (hsec60.1 h)
        have hl0 : leap = 0 := by subst hlp; rw [if_neg hl]
        simp only [if_neg h60, Time.mk.injEq]
        constructor <;> omega
  | false =>
    have h0 := hfrac hfr
    simp only [Bool.false_eq_true, if_false, List.nil_append]
    have hzt : fracPart (zoneText n) = some (0, zoneText n) := by
      cases hzz : zoneText n with
      | nil => rfl
      | cons ch r =>
        have hne : ch ≠ '.' := (zoneText_head n hvalid ch r hzz).2
        unfold fracPart
        split
        · rename_i heq; simp only [List.cons.injEq] at heq; exact absurd heq.1 hne
        · rfl
    rw [hzt]
    simp only [hzone, e1, e2, e3, hdays]
    congr 1
    cases t with
    | mk secs nanos =>
      simp only at *
      by_cases hl : nanos ≥ 1000000000
      · have h60 := hsec60.2 hl
        simp only [h60, if_true, Time.mk.injEq]
        have := hleap hl
        constructor <;> omega
      · have h60 : ¬ (sod % 60 + leap = 60) := fun h => hl (hsec60.1 h)
        have hl0 : leap = 0 := by subst hlp; rw [if_neg hl]
        simp only [if_neg h60, Time.mk.injEq]
        constructor <;> omega

/-- The reader on the date-time fields of the whole second `loc` followed by any fraction-and-zone
    text: it yields `loc` less the zone's offset, whatever the tail denotes. -/
theorem parse_dateTimeText (loc : Int) (leap : Nat) (sep : Char) (tail : Str)
    (hsep : sep = 'T' ∨ sep = 't' ∨ sep = ' ')
    (hyear : 0 ≤ (civilFromDays (loc / 86400)).y ∧ (civilFromDays (loc / 86400)).y ≤ 9999)
    (hleapb : leap ≤ 1) (hl59 : leap = 1 → loc % 60 = 59) :
    parseRfc3339 (dateTimeText loc leap sep ++ tail) =
      (match fracPart tail with
      | none => none
      | some (nano, zone) =>
        match parseZone zone with
        | none => none
        | some off => some { secs := loc - off, nanos := (if leap = 1 then 1000000000 else 0) + nano }) := by
  simp only [dateTimeText]
  obtain ⟨hdays, hm1, hm12, hd1, hdim⟩ := civil_facts (loc / 86400)
  generalize hc : civilFromDays (loc / 86400) = c at *
  have hdim31 : c.d ≤ 31 := by
    have : daysInMonth c.y c.m ≤ 31 := by
      unfold daysInMonth; split
      · split <;> omega
      · split <;> omega
    omega
  simp only [yearText, if_pos hyear]
  generalize hsod : (loc % 86400).toNat = sod
  have hsodb : sod < 86400 := by omega
  rw [parse_fields (by omega) (by omega) (by omega) (by omega) (by omega) (by omega)]
  rw [if_neg (not_not_intro hsep)]
  have e1 : ((c.y.toNat : Nat) : Int) = c.y := by omega
  have e2 : ((c.m.toNat : Nat) : Int) = c.m := by omega
  have e3 : ((c.d.toNat : Nat) : Int) = c.d := by omega
  have hdate : ¬ (c.m.toNat < 1 ∨ c.m.toNat > 12 ∨ c.d.toNat < 1 ∨
      ((c.d.toNat : Nat) : Int) > daysInMonth (c.y.toNat : Nat) (c.m.toNat : Nat)) := by
    rw [e1, e2, e3]; omega
  rw [if_neg hdate]
  have htime : ¬ (sod / 3600 ≥ 24 ∨ sod % 3600 / 60 ≥ 60 ∨ sod % 60 + leap > 60) := by omega
  rw [if_neg htime]
  cases hfp : fracPart tail with
  | none => rfl
  | some p =>
    obtain ⟨nano, zone⟩ := p
    simp only
    cases hz : parseZone zone with
    | none => rfl
    | some off =>
      simp only [e1, e2, e3, hdays]
      congr 1
      have hA : loc = loc / 86400 * 86400 + (sod : Int) := by omega
      have hB : (sod : Int) = ((sod / 3600 : Nat) : Int) * 3600 + ((sod % 3600 / 60 : Nat) : Int) * 60 + ((sod % 60 : Nat) : Int) := by
        omega
      clear hdate hdim hdim31 htime hm1 hm12 hd1 hdays e1 e2 e3 hyear hc
      by_cases hl : leap = 1
      · have h59 := hl59 hl
        have h60 : sod % 60 + leap = 60 := by omega
        have hs59 : ((sod % 60 : Nat) : Int) = 59 := by omega
        simp only [h60, if_true, if_pos hl, Time.mk.injEq, and_true]
        omega
      · have hl0 : leap = 0 := by omega
        have h60 : ¬ (sod % 60 + leap = 60) := by omega
        simp only [if_neg h60, if_neg hl, Time.mk.injEq]
        subst hl0
        constructor
        · simp only [Nat.add_zero]; omega
        · first | omega | rfl | trivial

-- ------------------------------------------------------------------ AutoSi timestamps with an offset

theorem digitsVal_three {k : Nat} (h : k < 1000) : digitsVal (three k) 0 = k := by
  simp only [three, digitsVal, dig_digitChar, Option.getD_some]; omega

theorem digitsVal_six {k : Nat} (h : k < 1000000) : digitsVal (six k) 0 = k := by
  simp only [six, digitsVal, dig_digitChar, Option.getD_some]; omega

theorem parseFrac_digits {ds rest : Str} (hds : ∀ c ∈ ds, isDig c = true) (hne : ds ≠ []) (hlen : ds.length ≤ 9)
    (hrest : ∀ c r, rest = c :: r → isDig c = false) :
    parseFrac (ds ++ rest) = some (digitsVal ds 0 * 10 ^ (9 - ds.length), rest) := by
  obtain ⟨ht, hd⟩ := takeWhile_isDig_append hds hrest
  simp only [parseFrac, ht, hd]
  have : ds.isEmpty = false := by cases ds <;> simp_all
  simp only [this, Bool.false_eq_true, if_false, List.take_of_length_le hlen]

/-- The AutoSi fraction reads back as the sub-second part. -/
theorem fracPart_autosi {n : Nat} (h : n < 1000000000) {rest : Str}
    (hrest : ∀ c r, rest = c :: r → isDig c = false ∧ c ≠ '.') :
    fracPart (fracAutoSi n ++ rest) = some (n, rest) := by
  have hnd : ∀ c r, rest = c :: r → isDig c = false := fun c r e => (hrest c r e).1
  unfold fracAutoSi
  by_cases h0 : n = 0
  · subst h0
    simp only [if_true, List.nil_append]
    cases hr : rest with
    | nil => rfl
    | cons c r =>
      have hne := (hrest c r hr).2
      unfold fracPart
      split
      · rename_i heq; simp only [List.cons.injEq] at heq; exact absurd heq.1 hne
      · rfl
  · simp only [if_neg h0]
    by_cases h6 : n % 1000000 = 0
    · simp only [if_pos h6, List.cons_append, fracPart]
      have hall : ∀ c ∈ three (n / 1000000), isDig c = true := by
        intro c hc; simp only [three, List.mem_cons, List.not_mem_nil, or_false] at hc
        rcases hc with rfl | rfl | rfl <;> exact isDig_digitChar _
      rw [parseFrac_digits hall (by simp [three]) (by simp [three]) hnd, digitsVal_three (by omega)]
      simp only [three, List.length_cons, List.length_nil]
      congr 2; omega
    · simp only [if_neg h6]
      by_cases h3 : n % 1000 = 0
      · simp only [if_pos h3, List.cons_append, fracPart]
        have hall : ∀ c ∈ six (n / 1000), isDig c = true := by
          intro c hc; simp only [six, List.mem_cons, List.not_mem_nil, or_false] at hc
          rcases hc with rfl | rfl | rfl | rfl | rfl | rfl <;> exact isDig_digitChar _
        rw [parseFrac_digits hall (by simp [six]) (by simp [six]) hnd, digitsVal_six (by omega)]
        simp only [six, List.length_cons, List.length_nil]
        congr 2; omega
      · simp only [if_neg h3, List.cons_append, fracPart]
        have := parseFrac_nine h (extra := []) (rest := rest) (by simp) hnd
        simpa using this

/-- whole-minute offsets strictly inside a day -/
def OffsetOk (off : Int) : Prop := -86400 < off ∧ off < 86400 ∧ off % 60 = 0

theorem zoneTextOff_head {off : Int} : ∀ c r, zoneTextOff off = c :: r → isDig c = false ∧ c ≠ '.' := by
  intro c r h
  unfold zoneTextOff at h
  split at h
  · simp only [List.cons.injEq] at h; obtain ⟨rfl, _⟩ := h; decide
  · simp only [List.cons.injEq] at h
    obtain ⟨rfl, _⟩ := h
    split <;> decide

theorem parseZone_zoneTextOff {off : Int} (h : OffsetOk off) : parseZone (zoneTextOff off) = some off := by
  obtain ⟨hlo, hhi, hm⟩ := h
  unfold zoneTextOff
  by_cases h0 : off = 0
  · subst h0; rfl
  · simp only [if_neg h0, two, List.cons_append, List.nil_append, parseZone]
    have ha : off.natAbs < 86400 := by omega
    have h1 : num2 (digitChar (off.natAbs / 3600 / 10)) (digitChar (off.natAbs / 3600)) = some (off.natAbs / 3600) :=
      num2_two (by omega)
    have h2 : num2 (digitChar (off.natAbs % 3600 / 60 / 10)) (digitChar (off.natAbs % 3600 / 60)) =
        some (off.natAbs % 3600 / 60) := num2_two (by omega)
    simp only [h1, h2, ne_eq, not_true_eq_false, if_false]
    have hb : ¬ (off.natAbs % 3600 / 60 ≥ 60 ∨ off.natAbs / 3600 * 3600 + off.natAbs % 3600 / 60 * 60 ≥ 86400) := by
      omega
    by_cases hneg : off < 0
    · simp [hneg, hb]
      omega
    · simp [hneg, hb]
      omega

/-- What `AutoSi` writes for an instant held with an offset reads back as that instant. -/
theorem parse_fmtAutoSi (t : Time) (off : Int) (hoff : OffsetOk off)
    (hyear : 0 ≤ (civilFromDays ((t.secs + off) / 86400)).y ∧ (civilFromDays ((t.secs + off) / 86400)).y ≤ 9999)
    (hnanos : t.nanos < 2000000000) (hleap : t.nanos ≥ 1000000000 → t.secs % 60 = 59) :
    parseRfc3339 (fmtAutoSi t off) = some t := by
  unfold fmtAutoSi
  rw [List.append_assoc]
  have hm := hoff.2.2
  rw [parse_dateTimeText _ _ 'T' _ (Or.inl rfl) hyear (by split <;> omega)
    (by intro h; split at h
        · rename_i hl; have := hleap hl; omega
        · cases h)]
  rw [fracPart_autosi (Nat.mod_lt _ (by omega)) zoneTextOff_head]
  simp only [parseZone_zoneTextOff hoff]
  congr 1
  cases t with
  | mk secs nanos =>
    simp only at *
    by_cases hl : nanos ≥ 1000000000
    · simp only [if_pos hl, if_true, Time.mk.injEq]
      constructor <;> omega
    · simp only [if_neg hl, Time.mk.injEq]
      simp only [show ((0 : Nat) = 1) = False from by simp, if_false]
      constructor <;> omega

theorem digitChar_ne_zulu (k : Nat) : ¬ (digitChar k = 'Z' ∨ digitChar k = 'z') := by
  intro h
  have hd := dig_digitChar k
  have hZ : dig 'Z' = none := by decide
  have hz : dig 'z' = none := by decide
  rcases h with h | h <;> rw [h] at hd
  · rw [hZ] at hd; cases hd
  · rw [hz] at hd; cases hd

theorem zoneOf_append_zone (a : Str) {off : Int} (h : OffsetOk off) : zoneOf (a ++ zoneTextOff off) = some off := by
  unfold zoneOf
  by_cases h0 : off = 0
  · subst h0
    simp [zoneTextOff]
  · have hz : zoneTextOff off = [(if off < 0 then '-' else '+'), digitChar (off.natAbs / 3600 / 10), digitChar (off.natAbs / 3600), ':',
        digitChar (off.natAbs % 3600 / 60 / 10), digitChar (off.natAbs % 3600 / 60)] := by
      simp [zoneTextOff, h0, two]
    have hlast : (a ++ zoneTextOff off).getLast? = some (digitChar (off.natAbs % 3600 / 60)) := by
      rw [hz]; simp
    rw [hlast]
    simp only [if_neg (digitChar_ne_zulu _)]
    have hlen : (zoneTextOff off).length = 6 := by rw [hz]; rfl
    have hdrop : (a ++ zoneTextOff off).drop ((a ++ zoneTextOff off).length - 6) = zoneTextOff off := by
      rw [List.length_append, hlen, show a.length + 6 - 6 = a.length from by omega]
      exact List.drop_left
    rw [hdrop]
    exact parseZone_zoneTextOff h

/-- A timestamp text written by `AutoSi` is its own normal form: reading it and writing it again
    gives the same text. -/
theorem normTimeStamp_fmtAutoSi (t : Time) (off : Int) (hoff : OffsetOk off)
    (hyear : 0 ≤ (civilFromDays ((t.secs + off) / 86400)).y ∧ (civilFromDays ((t.secs + off) / 86400)).y ≤ 9999)
    (hnanos : t.nanos < 2000000000) (hleap : t.nanos ≥ 1000000000 → t.secs % 60 = 59) :
    normTimeStamp (fmtAutoSi t off) = some (fmtAutoSi t off) := by
  unfold normTimeStamp
  rw [parse_fmtAutoSi t off hoff hyear hnanos hleap]
  have : zoneOf (fmtAutoSi t off) = some off := by
    unfold fmtAutoSi
    exact zoneOf_append_zone _ hoff
  rw [this]

/-- The notation the library writes: UTC, `T`, `Z`, whole seconds. -/
def stdNotation : Notation := ⟨0, 'T', some 'Z', '-', false, []⟩

theorem stdNotation_valid : stdNotation.Valid := by
  refine ⟨by decide, by decide, Or.inl rfl, ?_, Or.inl rfl, by simp [stdNotation]⟩
  intro z hz
  simp only [stdNotation, Option.some.injEq] at hz
  exact ⟨Or.inl hz.symm, rfl⟩

theorem fmt_eq_render (t : Time) : fmtRfc3339 t = render (truncWhole t) stdNotation := by
  unfold fmtRfc3339 render stdNotation truncWhole zoneText
  simp only [Int.zero_mul, Int.add_zero, Bool.false_eq_true, if_false, List.append_nil]
  by_cases h : t.nanos ≥ 1000000000 <;> simp [h]

theorem truncWhole_representable {t : Time} (h : t.Representable) : (truncWhole t).Representable := by
  obtain ⟨h1, h2, h3, h4⟩ := h
  refine ⟨h1, h2, ?_, ?_⟩
  · simp only [truncWhole]; split <;> omega
  · intro h5
    apply h4
    simp only [truncWhole] at h5
    split at h5 <;> omega

/-- What the library writes reads back as the instant kept to the second. -/
theorem parse_fmt (t : Time) (h : t.Representable) : parseRfc3339 (fmtRfc3339 t) = some (truncWhole t) := by
  rw [fmt_eq_render]
  have h' := truncWhole_representable h
  obtain ⟨h1, h2, h3, h4⟩ := h'
  apply parse_render _ _ stdNotation_valid
  · simpa [stdNotation] using ⟨h1, h2⟩
  · exact h3
  · exact h4
  · intro _
    simp only [truncWhole]
    split <;> rfl

-- ------------------------------------------------------------------ range of the reader

theorem digitsVal_lt (ds : List Char) (acc : Nat) : digitsVal ds acc < (acc + 1) * 10 ^ ds.length := by
  induction ds generalizing acc with
  | nil => simp [digitsVal]
  | cons c cs ih =>
    have hd : (dig c).getD 0 ≤ 9 := by
      unfold dig
      repeat' split
      all_goals simp
    have := ih (acc * 10 + (dig c).getD 0)
    simp only [digitsVal, List.length_cons, Nat.pow_succ]
    calc digitsVal cs (acc * 10 + (dig c).getD 0)
        < (acc * 10 + (dig c).getD 0 + 1) * 10 ^ cs.length := this
      _ ≤ ((acc + 1) * 10) * 10 ^ cs.length := Nat.mul_le_mul_right _ (by omega)
      _ = (acc + 1) * (10 ^ cs.length * 10) := by rw [Nat.mul_assoc, Nat.mul_comm 10]

theorem parseFrac_lt {s : Str} {n : Nat} {r : Str} (h : parseFrac s = some (n, r)) : n < 1000000000 := by
  simp only [parseFrac] at h
  split at h
  · cases h
  · simp only [Option.some.injEq, Prod.mk.injEq] at h
    obtain ⟨h, _⟩ := h
    subst h
    generalize hu : (List.takeWhile isDig s).take 9 = used
    have hl : used.length ≤ 9 := by subst hu; simp [List.length_take]; omega
    have := digitsVal_lt used 0
    simp only [Nat.zero_add, Nat.one_mul] at this
    calc digitsVal used 0 * 10 ^ (9 - used.length)
        < 10 ^ used.length * 10 ^ (9 - used.length) :=
          Nat.mul_lt_mul_of_pos_right this (Nat.pow_pos (by omega))
      _ = 10 ^ 9 := by rw [← Nat.pow_add]; congr 1; omega
      _ = 1000000000 := by decide

theorem fracPart_lt {s : Str} {n : Nat} {r : Str} (h : fracPart s = some (n, r)) : n < 1000000000 := by
  unfold fracPart at h
  split at h
  · exact parseFrac_lt h
  · simp only [Option.some.injEq, Prod.mk.injEq] at h
    omega

/-- The reader only yields sub-second parts chrono can hold. -/
theorem parse_nanos_lt {s : Str} {t : Time} (h : parseRfc3339 s = some t) : t.nanos < 2000000000 := by
  unfold parseRfc3339 at h
  split at h
  · split at h
    · split at h; · cases h
      split at h; · cases h
      split at h; · cases h
      split at h; · cases h
      split at h
      · cases h
      · rename_i nano zone hfp
        split at h
        · cases h
        · simp only [Option.some.injEq] at h
          subst h
          have := fracPart_lt hfp
          simp only
          split <;> omega
    · cases h
  · cases h

-- ------------------------------------------------------------------ keys

theorem ofKey_key (t : Time) (h : t.nanos < 2000000000) : ofKey t.key = t := by
  cases t with
  | mk secs nanos =>
    simp only [ofKey, Time.key, Time.mk.injEq] at *
    constructor <;> omega

theorem key_injective {t t' : Time} (h : t.nanos < 2000000000) (h' : t'.nanos < 2000000000)
    (e : t.key = t'.key) : t = t' := by
  rw [← ofKey_key t h, ← ofKey_key t' h', e]

/-- chrono's order on instants (date-time first, then the sub-second part) is the order of keys. -/
theorem key_lt_iff {t t' : Time} (h : t.nanos < 2000000000) (h' : t'.nanos < 2000000000) :
    t.key < t'.key ↔ t.secs < t'.secs ∨ (t.secs = t'.secs ∧ t.nanos < t'.nanos) := by
  cases t; cases t'
  simp only [Time.key] at *
  omega

theorem truncKey_key (t : Time) (h : t.nanos < 2000000000) : truncKey t.key = (truncWhole t).key := by
  obtain ⟨secs, nanos⟩ := t
  have hm : (secs * 2000000000 + (nanos : Int)) % 2000000000 = nanos := by
    simp only at h; omega
  show (secs * 2000000000 + (nanos : Int)) - (secs * 2000000000 + (nanos : Int)) % 2000000000 +
      (if (secs * 2000000000 + (nanos : Int)) % 2000000000 ≥ 1000000000 then 1000000000 else 0) =
    secs * 2000000000 + ((if nanos ≥ 1000000000 then 1000000000 else 0 : Nat) : Int)
  by_cases hl : nanos ≥ 1000000000
  · have c1 : (secs * 2000000000 + (nanos : Int)) % 2000000000 ≥ 1000000000 := by omega
    rw [if_pos c1, if_pos hl]; omega
  · have c1 : ¬ (secs * 2000000000 + (nanos : Int)) % 2000000000 ≥ 1000000000 := by omega
    rw [if_neg c1, if_neg hl]; omega

/-- Keys of whole-second representable instants: what a layout's `expires` can be. -/
def WholeKey (k : Int) : Prop := ∃ t : Time, t.Representable ∧ truncWhole t = t ∧ k = t.key

theorem parseTimeKey_fmtTimeKey {k : Int} (h : WholeKey k) : parseTimeKey (fmtTimeKey k) = some k := by
  obtain ⟨t, hr, hw, rfl⟩ := h
  unfold parseTimeKey fmtTimeKey
  rw [ofKey_key t hr.2.2.1, parse_fmt t hr, hw]
  rfl

theorem truncKey_wholeKey {k : Int} (h : WholeKey k) : truncKey k = k := by
  obtain ⟨t, hr, hw, rfl⟩ := h
  rw [truncKey_key t hr.2.2.1, hw]

theorem fmtTimeKey_injective {k k' : Int} (h : WholeKey k) (h' : WholeKey k')
    (e : fmtTimeKey k = fmtTimeKey k') : k = k' := by
  have a := parseTimeKey_fmtTimeKey h
  have b := parseTimeKey_fmtTimeKey h'
  rw [e, b] at a
  exact (Option.some.inj a).symm

end InToto.Time
