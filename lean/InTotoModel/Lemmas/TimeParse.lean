import InTotoModel.Lemmas.Time
/-
  Reading back what a notation writes: `parseRfc3339 (render t n) = some t`.
-/
namespace InToto.Time

/-- The reader on a text whose first nineteen characters are the fixed-width fields. -/
theorem parse_fields {y mo d h mi sc : Nat} {sep : Char} {rest : Str}
    (hy : y < 10000) (hmo : mo < 100) (hd : d < 100) (hh : h < 100) (hmi : mi < 100) (hsc : sc < 100) :
    parseRfc3339 (four y ++ ['-'] ++ two mo ++ ['-'] ++ two d ++ [sep] ++ two h ++ [':'] ++ two mi ++ [':'] ++
        two sc ++ rest) =
      (if ¬(sep = 'T' ∨ sep = 't' ∨ sep = ' ') then none
      else if mo < 1 ∨ mo > 12 ∨ d < 1 ∨ (d : Int) > daysInMonth y mo then none
      else if h ≥ 24 ∨ mi ≥ 60 ∨ sc > 60 then none
      else
        match fracPart rest with
        | none => none
        | some (nano, zone) =>
          match parseZone zone with
          | none => none
          | some off =>
            some { secs := daysFromCivil y mo d * 86400 + h * 3600 + mi * 60 + (if sc = 60 then 59 else sc) - off
                   nanos := (if sc = 60 then 1000000000 else 0) + nano }) := by
  simp only [four, two, List.cons_append, List.nil_append, parseRfc3339,
    num4_four hy, num2_two hmo, num2_two hd, num2_two hh, num2_two hmi, num2_two hsc]
  simp only [ne_eq, not_true_eq_false, or_self, if_false]
  rfl

theorem parse_render (t : Time) (n : Notation) (hv : n.Valid)
    (hyear : 0 ≤ (civilFromDays ((t.secs + n.offMin * 60) / 86400)).y ∧
             (civilFromDays ((t.secs + n.offMin * 60) / 86400)).y ≤ 9999)
    (hnanos : t.nanos < 2000000000)
    (hleap : t.nanos ≥ 1000000000 → t.secs % 60 = 59)
    (hfrac : n.fraction = false → t.nanos % 1000000000 = 0) :
    parseRfc3339 (render t n) = some t := by
  obtain ⟨hlo, hhi, hsep, hz, hmin, hextra⟩ := hv
  have hvalid : n.Valid := ⟨hlo, hhi, hsep, hz, hmin, hextra⟩
  simp only [render, dateTimeText]
  generalize hloc : t.secs + n.offMin * 60 = loc at *
  obtain ⟨hdays, hm1, hm12, hd1, hdim⟩ := civil_facts (loc / 86400)
  generalize hc : civilFromDays (loc / 86400) = c at *
  have hdim31 : c.d ≤ 31 := by
    have : daysInMonth c.y c.m ≤ 31 := by
      unfold daysInMonth; split
      · split <;> omega
      · split <;> omega
    omega
  simp only [yearText, if_pos hyear]
  generalize hsod : (loc % 86400).toNat = sod
  have hsodb : sod < 86400 := by omega
  generalize hlp : (if t.nanos ≥ 1000000000 then 1 else 0) = leap
  have hleapb : leap ≤ 1 := by subst hlp; split <;> omega
  rw [List.append_assoc _ _ (zoneText n)]
  rw [parse_fields (by omega) (by omega) (by omega) (by omega) (by omega) (by omega)]
  have hsep' : ¬¬(n.sep = 'T' ∨ n.sep = 't' ∨ n.sep = ' ') := not_not_intro hsep
  rw [if_neg hsep']
  have hdate : ¬ (c.m.toNat < 1 ∨ c.m.toNat > 12 ∨ c.d.toNat < 1 ∨
      ((c.d.toNat : Nat) : Int) > daysInMonth (c.y.toNat : Nat) (c.m.toNat : Nat)) := by
    have e1 : ((c.y.toNat : Nat) : Int) = c.y := by omega
    have e2 : ((c.m.toNat : Nat) : Int) = c.m := by omega
    have e3 : ((c.d.toNat : Nat) : Int) = c.d := by omega
    rw [e1, e2, e3]; omega
  rw [if_neg hdate]
  have htime : ¬ (sod / 3600 ≥ 24 ∨ sod % 3600 / 60 ≥ 60 ∨ sod % 60 + leap > 60) := by omega
  rw [if_neg htime]
  -- the seconds field and the leap second
  have hsec60 : (sod % 60 + leap = 60) ↔ (t.nanos ≥ 1000000000) := by
    constructor
    · intro h; subst hlp; split at h <;> omega
    · intro h
      have := hleap h
      subst hlp; rw [if_pos h]
      have : loc % 60 = 59 := by omega
      omega
  -- fraction and zone
  have hzone := parseZone_zoneText n hvalid
  have hnd := zoneText_nondigit n hvalid
  have e1 : ((c.y.toNat : Nat) : Int) = c.y := by omega
  have e2 : ((c.m.toNat : Nat) : Int) = c.m := by omega
  have e3 : ((c.d.toNat : Nat) : Int) = c.d := by omega
  cases hfr : n.fraction with
  | true =>
    simp only [if_true]
    rw [show ('.' :: (nine (t.nanos % 1000000000) ++ n.extraDigits)) ++ zoneText n
          = '.' :: (nine (t.nanos % 1000000000) ++ n.extraDigits ++ zoneText n) from by simp]
    simp only [fracPart, parseFrac_nine (Nat.mod_lt _ (by omega)) hextra hnd, hzone, e1, e2, e3, hdays]
    congr 1
    cases t with
    | mk secs nanos =>
      simp only at *
      by_cases hl : nanos ≥ 1000000000
      · have h60 := hsec60.2 hl
        simp only [h60, if_true, Time.mk.injEq]
        have := hleap hl
        constructor <;> omega
      · have h60 : ¬ (sod % 60 + leap = 60) := fun h => hl (hsec60.1 h)
        have hl0 : leap = 0 := by subst hlp; rw [if_neg hl]
        simp only [if_neg h60, Time.mk.injEq]
        constructor <;> omega
  | false =>
    have h0 := hfrac hfr
    simp only [Bool.false_eq_true, if_false, List.nil_append]
    have hzt : fracPart (zoneText n) = some (0, zoneText n) := by
      cases hzz : zoneText n with
      | nil => rfl
      | cons ch r =>
        have hne : ch ≠ '.' := (zoneText_head n hvalid ch r hzz).2
        unfold fracPart
        split
        · rename_i heq; simp only [List.cons.injEq] at heq; exact absurd heq.1 hne
        · rfl
    rw [hzt]
    simp only [hzone, e1, e2, e3, hdays]
    congr 1
    cases t with
    | mk secs nanos =>
      simp only at *
      by_cases hl : nanos ≥ 1000000000
      · have h60 := hsec60.2 hl
        simp only [h60, if_true, Time.mk.injEq]
        have := hleap hl
        constructor <;> omega
      · have h60 : ¬ (sod % 60 + leap = 60) := fun h => hl (hsec60.1 h)
        have hl0 : leap = 0 := by subst hlp; rw [if_neg hl]
        simp only [if_neg h60, Time.mk.injEq]
        constructor <;> omega

/-- The notation the library writes: UTC, `T`, `Z`, whole seconds. -/
def stdNotation : Notation := ⟨0, 'T', some 'Z', '-', false, []⟩

theorem stdNotation_valid : stdNotation.Valid := by
  refine ⟨by decide, by decide, Or.inl rfl, ?_, Or.inl rfl, by simp [stdNotation]⟩
  intro z hz
  simp only [stdNotation, Option.some.injEq] at hz
  exact ⟨Or.inl hz.symm, rfl⟩

theorem fmt_eq_render (t : Time) : fmtRfc3339 t = render (truncWhole t) stdNotation := by
  unfold fmtRfc3339 render stdNotation truncWhole zoneText
  simp only [Int.zero_mul, Int.add_zero, Bool.false_eq_true, if_false, List.append_nil]
  by_cases h : t.nanos ≥ 1000000000 <;> simp [h]

theorem truncWhole_representable {t : Time} (h : t.Representable) : (truncWhole t).Representable := by
  obtain ⟨h1, h2, h3, h4⟩ := h
  refine ⟨h1, h2, ?_, ?_⟩
  · simp only [truncWhole]; split <;> omega
  · intro h5
    apply h4
    simp only [truncWhole] at h5
    split at h5 <;> omega

/-- What the library writes reads back as the instant kept to the second. -/
theorem parse_fmt (t : Time) (h : t.Representable) : parseRfc3339 (fmtRfc3339 t) = some (truncWhole t) := by
  rw [fmt_eq_render]
  have h' := truncWhole_representable h
  obtain ⟨h1, h2, h3, h4⟩ := h'
  apply parse_render _ _ stdNotation_valid
  · simpa [stdNotation] using ⟨h1, h2⟩
  · exact h3
  · exact h4
  · intro _
    simp only [truncWhole]
    split <;> rfl

-- ------------------------------------------------------------------ range of the reader

theorem digitsVal_lt (ds : List Char) (acc : Nat) : digitsVal ds acc < (acc + 1) * 10 ^ ds.length := by
  induction ds generalizing acc with
  | nil => simp [digitsVal]
  | cons c cs ih =>
    have hd : (dig c).getD 0 ≤ 9 := by
      unfold dig
      repeat' split
      all_goals simp
    have := ih (acc * 10 + (dig c).getD 0)
    simp only [digitsVal, List.length_cons, Nat.pow_succ]
    calc digitsVal cs (acc * 10 + (dig c).getD 0)
        < (acc * 10 + (dig c).getD 0 + 1) * 10 ^ cs.length := this
      _ ≤ ((acc + 1) * 10) * 10 ^ cs.length := Nat.mul_le_mul_right _ (by omega)
      _ = (acc + 1) * (10 ^ cs.length * 10) := by rw [Nat.mul_assoc, Nat.mul_comm 10]

theorem parseFrac_lt {s : Str} {n : Nat} {r : Str} (h : parseFrac s = some (n, r)) : n < 1000000000 := by
  simp only [parseFrac] at h
  split at h
  · cases h
  · simp only [Option.some.injEq, Prod.mk.injEq] at h
    obtain ⟨h, _⟩ := h
    subst h
    generalize hu : (List.takeWhile isDig s).take 9 = used
    have hl : used.length ≤ 9 := by subst hu; simp [List.length_take]; omega
    have := digitsVal_lt used 0
    simp only [Nat.zero_add, Nat.one_mul] at this
    calc digitsVal used 0 * 10 ^ (9 - used.length)
        < 10 ^ used.length * 10 ^ (9 - used.length) :=
          Nat.mul_lt_mul_of_pos_right this (Nat.pow_pos (by omega))
      _ = 10 ^ 9 := by rw [← Nat.pow_add]; congr 1; omega
      _ = 1000000000 := by decide

theorem fracPart_lt {s : Str} {n : Nat} {r : Str} (h : fracPart s = some (n, r)) : n < 1000000000 := by
  unfold fracPart at h
  split at h
  · exact parseFrac_lt h
  · simp only [Option.some.injEq, Prod.mk.injEq] at h
    omega

/-- The reader only yields sub-second parts chrono can hold. -/
theorem parse_nanos_lt {s : Str} {t : Time} (h : parseRfc3339 s = some t) : t.nanos < 2000000000 := by
  unfold parseRfc3339 at h
  split at h
  · split at h
    · split at h; · cases h
      split at h; · cases h
      split at h; · cases h
      split at h; · cases h
      split at h
      · cases h
      · rename_i nano zone hfp
        split at h
        · cases h
        · simp only [Option.some.injEq] at h
          subst h
          have := fracPart_lt hfp
          simp only
          split <;> omega
    · cases h
  · cases h

-- ------------------------------------------------------------------ keys

theorem ofKey_key (t : Time) (h : t.nanos < 2000000000) : ofKey t.key = t := by
  cases t with
  | mk secs nanos =>
    simp only [ofKey, Time.key, Time.mk.injEq] at *
    constructor <;> omega

theorem key_injective {t t' : Time} (h : t.nanos < 2000000000) (h' : t'.nanos < 2000000000)
    (e : t.key = t'.key) : t = t' := by
  rw [← ofKey_key t h, ← ofKey_key t' h', e]

/-- chrono's order on instants (date-time first, then the sub-second part) is the order of keys. -/
theorem key_lt_iff {t t' : Time} (h : t.nanos < 2000000000) (h' : t'.nanos < 2000000000) :
    t.key < t'.key ↔ t.secs < t'.secs ∨ (t.secs = t'.secs ∧ t.nanos < t'.nanos) := by
  cases t; cases t'
  simp only [Time.key] at *
  omega

theorem truncKey_key (t : Time) (h : t.nanos < 2000000000) : truncKey t.key = (truncWhole t).key := by
  obtain ⟨secs, nanos⟩ := t
  have hm : (secs * 2000000000 + (nanos : Int)) % 2000000000 = nanos := by
    simp only at h; omega
  show (secs * 2000000000 + (nanos : Int)) - (secs * 2000000000 + (nanos : Int)) % 2000000000 +
      (if (secs * 2000000000 + (nanos : Int)) % 2000000000 ≥ 1000000000 then 1000000000 else 0) =
    secs * 2000000000 + ((if nanos ≥ 1000000000 then 1000000000 else 0 : Nat) : Int)
  by_cases hl : nanos ≥ 1000000000
  · have c1 : (secs * 2000000000 + (nanos : Int)) % 2000000000 ≥ 1000000000 := by omega
    rw [if_pos c1, if_pos hl]; omega
  · have c1 : ¬ (secs * 2000000000 + (nanos : Int)) % 2000000000 ≥ 1000000000 := by omega
    rw [if_neg c1, if_neg hl]; omega

/-- Keys of whole-second representable instants: what a layout's `expires` can be. -/
def WholeKey (k : Int) : Prop := ∃ t : Time, t.Representable ∧ truncWhole t = t ∧ k = t.key

theorem parseTimeKey_fmtTimeKey {k : Int} (h : WholeKey k) : parseTimeKey (fmtTimeKey k) = some k := by
  obtain ⟨t, hr, hw, rfl⟩ := h
  unfold parseTimeKey fmtTimeKey
  rw [ofKey_key t hr.2.2.1, parse_fmt t hr, hw]
  rfl

theorem truncKey_wholeKey {k : Int} (h : WholeKey k) : truncKey k = k := by
  obtain ⟨t, hr, hw, rfl⟩ := h
  rw [truncKey_key t hr.2.2.1, hw]

theorem fmtTimeKey_injective {k k' : Int} (h : WholeKey k) (h' : WholeKey k')
    (e : fmtTimeKey k = fmtTimeKey k') : k = k' := by
  have a := parseTimeKey_fmtTimeKey h
  have b := parseTimeKey_fmtTimeKey h'
  rw [e, b] at a
  exact (Option.some.inj a).symm

end InToto.Time
