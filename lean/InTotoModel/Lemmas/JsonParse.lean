import InTotoModel.Model.JsonParse
import InTotoModel.Model.Signed
namespace InToto.Json

/-- the text that follows a value never starts with a digit -/
def NDH (rest : Str) : Prop := ∀ c r, rest = c :: r → isDigitC c = false

theorem ndh_nil : NDH [] := by intro c r h; cases h
theorem ndh_cons {c : Char} {r : Str} (h : isDigitC c = false) : NDH (c :: r) := by
  intro c' r' e; cases e; exact h

theorem digitChar_facts : ∀ d : Fin 10, (digitChar d.val).toNat = 48 + d.val ∧ isDigitC (digitChar d.val) = true := by
  decide

theorem digitChar_toNat {d : Nat} (h : d < 10) : (digitChar d).toNat = 48 + d :=
  (digitChar_facts ⟨d, h⟩).1

theorem isDigitC_digitChar {d : Nat} (h : d < 10) : isDigitC (digitChar d) = true :=
  (digitChar_facts ⟨d, h⟩).2

/-- value of a digit string folded onto `acc` -/
def digitsVal : Str → Nat → Nat
  | [], acc => acc
  | c :: cs, acc => digitsVal cs (acc * 10 + (c.toNat - 48))

theorem foldDigitsC_append {xs : Str} (hx : ∀ c ∈ xs, isDigitC c = true) {rest : Str} (hr : NDH rest) (acc : Nat) :
    foldDigitsC (xs ++ rest) acc = (digitsVal xs acc, rest) := by
  induction xs generalizing acc with
  | nil =>
    cases rest with
    | nil => rfl
    | cons c r => simp [foldDigitsC, digitsVal, hr c r rfl]
  | cons x xs ih =>
    have hx0 : isDigitC x = true := hx x (by simp)
    simp only [List.cons_append, foldDigitsC, hx0, if_true, digitsVal]
    exact ih (fun c hc => hx c (by simp [hc])) _

theorem digitsVal_append (xs ys : Str) (acc : Nat) :
    digitsVal (xs ++ ys) acc = digitsVal ys (digitsVal xs acc) := by
  induction xs generalizing acc with
  | nil => rfl
  | cons x xs ih => simp [digitsVal, ih]

theorem natDec_digits (n : Nat) : ∀ c ∈ natDec n, isDigitC c = true := by
  induction n using Nat.strongRecOn with
  | ind n ih =>
    rw [natDec]
    split
    · intro c hc
      simp at hc; subst hc
      exact isDigitC_digitChar (by omega)
    · intro c hc
      simp at hc
      rcases hc with hc | hc
      · exact ih (n / 10) (by omega) c hc
      · subst hc; exact isDigitC_digitChar (by omega)

theorem natDec_val (n : Nat) : digitsVal (natDec n) 0 = n := by
  induction n using Nat.strongRecOn with
  | ind n ih =>
    rw [natDec]
    split
    · rename_i h
      simp [digitsVal, digitChar_toNat h]
    · rename_i h
      rw [digitsVal_append, ih (n / 10) (by omega)]
      simp [digitsVal, digitChar_toNat (show n % 10 < 10 by omega)]
      omega

theorem natDec_head {n : Nat} (h : 0 < n) :
    ∃ c cs, natDec n = c :: cs ∧ isDigitC c = true ∧ c ≠ '0' := by
  induction n using Nat.strongRecOn with
  | ind n ih =>
    rw [natDec]
    split
    · rename_i hlt
      refine ⟨digitChar n, [], rfl, isDigitC_digitChar hlt, ?_⟩
      intro e
      have := digitChar_toNat hlt
      rw [e] at this
      simp at this
      omega
    · rename_i hge
      obtain ⟨c, cs, e, hd, h0⟩ := ih (n / 10) (by omega) (by omega)
      exact ⟨c, cs ++ [digitChar (n % 10)], by rw [e]; rfl, hd, h0⟩

theorem natDec_zero : natDec 0 = ['0'] := by
  rw [natDec]; rfl

/-- evaluation lemmas for concrete numerals (`natDec` is defined by well-founded recursion and does
    not reduce by `decide`) -/
theorem natDec_lt10 {n : Nat} (h : n < 10) : natDec n = [digitChar n] := by
  rw [natDec]; simp [h]

theorem natDec_ge10 {n : Nat} (h : ¬ n < 10) : natDec n = natDec (n / 10) ++ [digitChar (n % 10)] := by
  rw [natDec]; simp [h]

theorem parseNat_natDec (n : Nat) {rest : Str} (hr : NDH rest) :
    parseNat (natDec n ++ rest) = some (n, rest) := by
  cases n with
  | zero =>
    rw [natDec_zero]
    cases rest with
    | nil => simp [parseNat, isDigitC]
    | cons d r =>
      have := hr d r rfl
      simp [parseNat, this]
      decide
  | succ m =>
    obtain ⟨c, cs, e, hd, h0⟩ := natDec_head (Nat.succ_pos m)
    have hall := natDec_digits (m + 1)
    have hval := natDec_val (m + 1)
    rw [e] at hall hval ⊢
    simp only [List.cons_append, parseNat, hd, Bool.not_true, Bool.false_eq_true, if_false, h0]
    have := foldDigitsC_append (xs := c :: cs) hall hr 0
    simp only [List.cons_append] at this
    rw [this, hval]

theorem parseInt_intDec (i : Int) {rest : Str} (hr : NDH rest) :
    parseInt (intDec i ++ rest) = some (i, rest) := by
  cases i with
  | ofNat n =>
    simp only [intDec]
    have hp := parseNat_natDec n hr
    cases n with
    | zero =>
      rw [natDec_zero] at hp ⊢
      simp only [List.cons_append, List.nil_append] at hp ⊢
      unfold parseInt
      simp [hp]
    | succ m =>
      obtain ⟨c, cs, e, hd, h0⟩ := natDec_head (Nat.succ_pos m)
      rw [e] at hp ⊢
      have hne : c ≠ '-' := by
        intro e; subst e; simp [isDigitC] at hd
      simp only [List.cons_append] at hp ⊢
      unfold parseInt
      split
      · rename_i heq; cases heq; exact absurd rfl hne
      · rw [hp]
  | negSucc n =>
    simp only [intDec, List.cons_append]
    unfold parseInt
    simp [parseNat_natDec (n + 1) hr]

theorem parseStrBody_plain (c : Char) (r acc : Str) (h1 : c ≠ '"') (h2 : c ≠ '\\') (h3 : ¬ c.toNat < 32) :
    parseStrBody (c :: r) acc = parseStrBody r (c :: acc) := by
  rw [parseStrBody.eq_def]
  split <;> simp_all
  intro h; omega

theorem hex_facts : ∀ n : Fin 32,
    hexValC (hexLower (n.val / 16)) = some (n.val / 16) ∧ hexValC (hexLower (n.val % 16)) = some (n.val % 16)
    ∧ Char.ofNat n.val ≠ '"' ∧ Char.ofNat n.val ≠ '\\' := by decide

theorem parseStrBody_escChar (c : Char) (tail acc : Str) :
    parseStrBody (escChar c ++ tail) acc = parseStrBody tail (c :: acc) := by
  unfold escChar
  split
  · rename_i h; subst h; simp [parseStrBody]
  · split
    · rename_i h; subst h; simp [parseStrBody]
    · split
      · rename_i hq hb hlt
        have hc : c = Char.ofNat c.toNat := (Char.ofNat_toNat c).symm
        have hf := hex_facts ⟨c.toNat, hlt⟩
        simp only at hf
        split
        · rename_i h; rw [hc, h]; simp [parseStrBody]
        · split
          · rename_i h; rw [hc, h]; simp [parseStrBody]
          · split
            · rename_i h; rw [hc, h]; simp [parseStrBody]
            · split
              · rename_i h; rw [hc, h]; simp [parseStrBody]
              · split
                · rename_i h; rw [hc, h]; simp [parseStrBody]
                · have h0 : hexValC '0' = some 0 := by decide
                  simp only [List.cons_append, List.nil_append]
                  rw [parseStrBody.eq_def]
                  simp [h0, hf.1, hf.2.1]
                  have e : c.toNat / 16 * 16 + c.toNat % 16 = c.toNat := by omega
                  rw [e, ← hc]
                  have : ¬ (55296 ≤ c.toNat ∧ c.toNat ≤ 57343) := by omega
                  simp [this]
      · rename_i hq hb hge
        exact parseStrBody_plain c tail acc hq hb hge


theorem parseStrBody_escBody (s rest acc : Str) :
    parseStrBody (escBody s ++ '"' :: rest) acc = some (acc.reverse ++ s, rest) := by
  induction s generalizing acc with
  | nil => simp [escBody, parseStrBody]
  | cons c cs ih =>
    simp only [escBody, List.append_assoc]
    rw [parseStrBody_escChar, ih]
    simp

theorem parseStr_escStr (s rest : Str) :
    parseStrBody (escBody s ++ ['"'] ++ rest) [] = some (s, rest) := by
  have := parseStrBody_escBody s rest []
  simpa using this

mutual
def fuelOf : JV → Nat
  | .arr [] => 1
  | .arr (x :: xs) => 1 + fuelOf x + fuelTail xs
  | .obj [] => 1
  | .obj ((_, v) :: r) => 1 + fuelOf v + fuelMTail r
  | _ => 1
def fuelTail : List JV → Nat
  | [] => 1
  | x :: xs => 1 + fuelOf x + fuelTail xs
def fuelMTail : List (Str × JV) → Nat
  | [] => 1
  | (_, v) :: r => 1 + fuelOf v + fuelMTail r
end

/-- first character of an encoded value -/
def ValHead (c : Char) : Prop :=
  c = 'n' ∨ c = 't' ∨ c = 'f' ∨ c = '"' ∨ c = '[' ∨ c = '{' ∨ c = '-' ∨ isDigitC c = true

theorem intDec_head (i : Int) : ∃ c r, intDec i = c :: r ∧ (c = '-' ∨ isDigitC c = true) := by
  cases i with
  | ofNat n =>
    have hne : natDec n ≠ [] := by
      rw [natDec]; split <;> simp
    cases h : natDec n with
    | nil => exact absurd h hne
    | cons c r =>
      refine ⟨c, r, by simp [intDec, h], Or.inr ?_⟩
      exact natDec_digits n c (by rw [h]; simp)
  | negSucc n => exact ⟨'-', _, rfl, Or.inl rfl⟩

theorem write_head (E : Str → Str) (v : JV) (h : hasNonInt v = false) : ∃ c r, writeG E v = c :: r ∧ ValHead c := by
  cases v with
  | null => exact ⟨'n', ['u', 'l', 'l'], by simp [writeG], by simp [ValHead]⟩
  | bool b => cases b
              · exact ⟨'f', ['a', 'l', 's', 'e'], by simp [writeG], by simp [ValHead]⟩
              · exact ⟨'t', ['r', 'u', 'e'], by simp [writeG], by simp [ValHead]⟩
  | num n =>
    cases n with
    | nonInt => simp [hasNonInt] at h
    | int i =>
      obtain ⟨c, r, e, hc⟩ := intDec_head i
      refine ⟨c, r, by simp [writeG, e], ?_⟩
      rcases hc with hc | hc <;> simp [ValHead, hc]
  | str s => exact ⟨'"', E s ++ ['"'], by simp [writeG, quoteG], by simp [ValHead]⟩
  | arr xs => cases xs with
    | nil => exact ⟨'[', [']'], by simp [writeG], by simp [ValHead]⟩
    | cons x xs => exact ⟨'[', writeG E x ++ writeTailG E xs, by simp [writeG], by simp [ValHead]⟩
  | obj kvs =>
    cases kvs with
    | nil => exact ⟨'{', ['}'], by simp [writeG], by simp [ValHead]⟩
    | cons p r => obtain ⟨k, v⟩ := p; exact ⟨'{', quoteG E k ++ ':' :: (writeG E v ++ writeKvsTailG E r), by simp [writeG], by simp [ValHead]⟩

/-- what the round trip needs from a (string-body escaper, string-body reader) pair -/
def StrRT (E : Str → Str) (P : Str → Str → Option (Str × Str)) : Prop :=
  ∀ s rest acc, P (E s ++ '"' :: rest) acc = some (acc.reverse ++ s, rest)

theorem parseKey_quote {E : Str → Str} {P : Str → Str → Option (Str × Str)} (hP : StrRT E P) (k rest : Str) :
    parseKeyG P (quoteG E k ++ ':' :: rest) = some (k, rest) := by
  have := hP k (':' :: rest) []
  simp only [quoteG, List.cons_append, List.append_assoc, parseKeyG]
  simp at this
  simp [this]

theorem parseV_int (P : Str → Str → Option (Str × Str)) (i : Int) (f : Nat) (rest : Str) (hr : NDH rest) :
    parseVG P (f + 1) (intDec i ++ rest) = some (.num (.int i), rest) := by
  obtain ⟨c, r, e, hc⟩ := intDec_head i
  have hp := parseInt_intDec i hr
  rw [e] at hp ⊢
  simp only [List.cons_append] at hp ⊢
  rw [parseVG]
  simp only [hp]
  all_goals (intros; rename_i heq; have h1 := (List.cons.inj heq).1; subst h1; rcases hc with hc | hc <;> simp [isDigitC] at hc)


theorem ndh_writeTail (E : Str → Str) (xs : List JV) (rest : Str) : NDH (writeTailG E xs ++ rest) := by
  cases xs <;> (simp only [writeTailG, List.cons_append]; exact ndh_cons (by decide))

theorem ndh_writeKvsTail (E : Str → Str) (r : List (Str × JV)) (rest : Str) : NDH (writeKvsTailG E r ++ rest) := by
  cases r with
  | nil => simp only [writeKvsTailG, List.cons_append]; exact ndh_cons (by decide)
  | cons p r => obtain ⟨k, v⟩ := p; simp only [writeKvsTailG, List.cons_append]; exact ndh_cons (by decide)

theorem valHead_ne {c : Char} (h : ValHead c) : c ≠ ']' ∧ c ≠ '}' := by
  unfold ValHead at h
  constructor <;> (intro e; subst e; simp [isDigitC] at h)

mutual
theorem parse_write {E : Str → Str} {P : Str → Str → Option (Str × Str)} (hP : StrRT E P) (v : JV) (h : hasNonInt v = false) (f : Nat) (rest : Str)
    (hf : fuelOf v ≤ f) (hr : NDH rest) : parseVG P f (writeG E v ++ rest) = some (v, rest) := by
  match v, h, hf with
  | .null, _, hf =>
    obtain ⟨f', rfl⟩ : ∃ f', f = f' + 1 := ⟨f - 1, by simp [fuelOf] at hf; omega⟩
    simp [writeG, parseVG]
  | .bool true, _, hf =>
    obtain ⟨f', rfl⟩ : ∃ f', f = f' + 1 := ⟨f - 1, by simp [fuelOf] at hf; omega⟩
    simp [writeG, parseVG]
  | .bool false, _, hf =>
    obtain ⟨f', rfl⟩ : ∃ f', f = f' + 1 := ⟨f - 1, by simp [fuelOf] at hf; omega⟩
    simp [writeG, parseVG]
  | .num .nonInt, h, _ => simp [hasNonInt] at h
  | .num (.int i), _, hf =>
    obtain ⟨f', rfl⟩ : ∃ f', f = f' + 1 := ⟨f - 1, by simp [fuelOf] at hf; omega⟩
    simp only [writeG]
    exact parseV_int P i f' rest hr
  | .str s, _, hf =>
    obtain ⟨f', rfl⟩ : ∃ f', f = f' + 1 := ⟨f - 1, by simp [fuelOf] at hf; omega⟩
    have := hP s rest []
    simp at this
    simp [writeG, quoteG, parseVG, this]
  | .arr [], _, hf =>
    obtain ⟨f', rfl⟩ : ∃ f', f = f' + 1 := ⟨f - 1, by simp [fuelOf] at hf; omega⟩
    simp [writeG, parseVG]
  | .arr (x :: xs), h, hf =>
    simp only [hasNonInt, hasNonIntList, Bool.or_eq_false_iff] at h
    simp only [fuelOf] at hf
    obtain ⟨f', rfl⟩ : ∃ f', f = f' + 1 := ⟨f - 1, by omega⟩
    have ih1 := parse_write hP x h.1 f' (writeTailG E xs ++ rest) (by omega) (ndh_writeTail E xs rest)
    have ih2 := parse_tail hP xs h.2 f' rest (by omega) hr
    obtain ⟨c, r0, e, hc⟩ := write_head E x h.1
    have hne := (valHead_ne hc).1
    rw [e] at ih1
    simp only [writeG, List.cons_append, List.append_assoc, e]
    simp only [List.cons_append] at ih1
    rw [parseVG]
    · simp [ih1, ih2]
    · intro r heq; exact hne (List.cons.inj heq).1
  | .obj [], _, hf =>
    obtain ⟨f', rfl⟩ : ∃ f', f = f' + 1 := ⟨f - 1, by simp [fuelOf] at hf; omega⟩
    simp [writeG, parseVG]
  | .obj ((k, v) :: r), h, hf =>
    simp only [hasNonInt, hasNonIntKvs, Bool.or_eq_false_iff] at h
    simp only [fuelOf] at hf
    obtain ⟨f', rfl⟩ : ∃ f', f = f' + 1 := ⟨f - 1, by omega⟩
    have ih1 := parse_write hP v h.1 f' (writeKvsTailG E r ++ rest) (by omega) (ndh_writeKvsTail E r rest)
    have ih2 := parse_mtail hP r h.2 f' rest (by omega) hr
    have hk := parseKey_quote hP k (writeG E v ++ (writeKvsTailG E r ++ rest))
    simp only [writeG, List.cons_append, List.append_assoc]
    simp only [quoteG, List.cons_append, List.append_assoc, List.nil_append] at hk ⊢
    rw [parseVG]
    · simp [hk, ih1, ih2]
    · intro r1 heq; exact absurd (List.cons.inj heq).1 (by decide)
theorem parse_tail {E : Str → Str} {P : Str → Str → Option (Str × Str)} (hP : StrRT E P) (xs : List JV) (h : hasNonIntList xs = false) (f : Nat) (rest : Str)
    (hf : fuelTail xs ≤ f) (hr : NDH rest) : parseTailG P f (writeTailG E xs ++ rest) = some (xs, rest) := by
  match xs, h, hf with
  | [], _, hf =>
    obtain ⟨f', rfl⟩ : ∃ f', f = f' + 1 := ⟨f - 1, by simp [fuelTail] at hf; omega⟩
    simp [writeTailG, parseTailG]
  | x :: xs, h, hf =>
    simp only [hasNonIntList, Bool.or_eq_false_iff] at h
    simp only [fuelTail] at hf
    obtain ⟨f', rfl⟩ : ∃ f', f = f' + 1 := ⟨f - 1, by omega⟩
    have ih1 := parse_write hP x h.1 f' (writeTailG E xs ++ rest) (by omega) (ndh_writeTail E xs rest)
    have ih2 := parse_tail hP xs h.2 f' rest (by omega) hr
    simp only [writeTailG, List.cons_append, List.append_assoc]
    rw [parseTailG]
    simp [ih1, ih2]
theorem parse_mtail {E : Str → Str} {P : Str → Str → Option (Str × Str)} (hP : StrRT E P) (r : List (Str × JV)) (h : hasNonIntKvs r = false) (f : Nat) (rest : Str)
    (hf : fuelMTail r ≤ f) (hr : NDH rest) : parseMTailG P f (writeKvsTailG E r ++ rest) = some (r, rest) := by
  match r, h, hf with
  | [], _, hf =>
    obtain ⟨f', rfl⟩ : ∃ f', f = f' + 1 := ⟨f - 1, by simp [fuelMTail] at hf; omega⟩
    simp [writeKvsTailG, parseMTailG]
  | (k, v) :: r, h, hf =>
    simp only [hasNonIntKvs, Bool.or_eq_false_iff] at h
    simp only [fuelMTail] at hf
    obtain ⟨f', rfl⟩ : ∃ f', f = f' + 1 := ⟨f - 1, by omega⟩
    have ih1 := parse_write hP v h.1 f' (writeKvsTailG E r ++ rest) (by omega) (ndh_writeKvsTail E r rest)
    have ih2 := parse_mtail hP r h.2 f' rest (by omega) hr
    have hk := parseKey_quote hP k (writeG E v ++ (writeKvsTailG E r ++ rest))
    simp only [writeKvsTailG, quoteG, List.cons_append, List.append_assoc, List.nil_append] at hk ⊢
    rw [parseMTailG]
    simp [hk, ih1, ih2]
end


mutual
theorem fuelOf_le (E : Str → Str) (v : JV) (h : hasNonInt v = false) : fuelOf v ≤ (writeG E v).length := by
  match v, h with
  | .null, _ => simp [fuelOf, writeG]
  | .bool true, _ => simp [fuelOf, writeG]
  | .bool false, _ => simp [fuelOf, writeG]
  | .num .nonInt, h => simp [hasNonInt] at h
  | .num (.int i), _ =>
    obtain ⟨c, r, e, _⟩ := intDec_head i
    simp [fuelOf, writeG, e]
  | .str s, _ => simp [fuelOf, writeG, quoteG]
  | .arr [], _ => simp [fuelOf, writeG]
  | .arr (x :: xs), h =>
    simp only [hasNonInt, hasNonIntList, Bool.or_eq_false_iff] at h
    have := fuelOf_le E x h.1
    have := fuelTail_le E xs h.2
    simp only [fuelOf, writeG, List.length_cons, List.length_append]
    omega
  | .obj [], _ => simp [fuelOf, writeG]
  | .obj ((k, v) :: r), h =>
    simp only [hasNonInt, hasNonIntKvs, Bool.or_eq_false_iff] at h
    have := fuelOf_le E v h.1
    have := fuelMTail_le E r h.2
    simp only [fuelOf, writeG, quoteG, List.length_cons, List.length_append]
    omega
theorem fuelTail_le (E : Str → Str) (xs : List JV) (h : hasNonIntList xs = false) : fuelTail xs ≤ (writeTailG E xs).length := by
  match xs, h with
  | [], _ => simp [fuelTail, writeTailG]
  | x :: xs, h =>
    simp only [hasNonIntList, Bool.or_eq_false_iff] at h
    have := fuelOf_le E x h.1
    have := fuelTail_le E xs h.2
    simp only [fuelTail, writeTailG, List.length_cons, List.length_append]
    omega
theorem fuelMTail_le (E : Str → Str) (r : List (Str × JV)) (h : hasNonIntKvs r = false) : fuelMTail r ≤ (writeKvsTailG E r).length := by
  match r, h with
  | [], _ => simp [fuelMTail, writeKvsTailG]
  | (k, v) :: r, h =>
    simp only [hasNonIntKvs, Bool.or_eq_false_iff] at h
    have := fuelOf_le E v h.1
    have := fuelMTail_le E r h.2
    simp only [fuelMTail, writeKvsTailG, quoteG, List.length_cons, List.length_append]
    omega
end

/-- A reader inverts its writer on every value without non-integers. -/
theorem parseJG_writeG {E : Str → Str} {P : Str → Str → Option (Str × Str)} (hP : StrRT E P)
    (v : JV) (h : hasNonInt v = false) : parseJG P (writeG E v) = some v := by
  unfold parseJG
  have := parse_write hP v h ((writeG E v).length + 1) [] (by have := fuelOf_le E v h; omega) ndh_nil
  simp at this
  simp [this]

theorem strRT_serde : StrRT escBody parseStrBody := parseStrBody_escBody

/-- The strict JSON reader inverts `Value::write`. -/
theorem parseJ_write (v : JV) (h : hasNonInt v = false) : parseJ (write v) = some v :=
  parseJG_writeG strRT_serde v h

theorem refParseStrBody_plain (c : Char) (r acc : Str) (h1 : c ≠ '"') (h2 : c ≠ '\\') :
    refParseStrBody (c :: r) acc = refParseStrBody r (c :: acc) := by
  rw [refParseStrBody.eq_def]
  split <;> simp_all

theorem strRT_ref : StrRT refEscBody refParseStrBody := by
  intro s rest acc
  induction s generalizing acc with
  | nil => simp [refEscBody, refParseStrBody]
  | cons c cs ih =>
    simp only [refEscBody, refEscChar]
    split
    · rename_i h; subst h
      simp only [List.cons_append, List.nil_append]
      rw [refParseStrBody, ih]; simp
    · split
      · rename_i h; subst h
        simp only [List.cons_append, List.nil_append]
        rw [refParseStrBody, ih]; simp
      · rename_i h1 h2
        simp only [List.cons_append, List.nil_append]
        rw [refParseStrBody_plain c _ acc h1 h2, ih]; simp

/-- The reference reader inverts the reference writer. -/
theorem parseRef_refWrite (v : JV) (h : hasNonInt v = false) : parseRef (refWrite v) = some v :=
  parseJG_writeG strRT_ref v h

end InToto.Json
