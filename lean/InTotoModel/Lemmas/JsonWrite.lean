import InTotoModel.Model.JsonWrite
import InTotoModel.Lemmas.JsonText
/-
  What serde_json's writers emit is a *spelling* of the value in the sense of `Lemmas/JsonText.lean`;
  therefore the reader gives the value back.

  * `charSp_escChar`, `bodySp_escBody` — the escaper spells every character / string;
  * `valSp_write`     — the compact text spells the value (integers within `i64`/`u64` only);
  * `valSp_writeP`    — so does the pretty-printed text, at every indentation level;
  * `readText_write`, `readText_writePretty` — text round trips.
-/
namespace InToto.JsonWrite
open InToto InToto.Json InToto.JsonText

/-! ### the escaper -/

theorem ctrl_u4 : ∀ n : Fin 32,
    hex4 '0' '0' (hexLower (n.val / 16)) (hexLower (n.val % 16)) = some n.val := by decide

theorem charSp_escChar (c : Char) : CharSp c (escChar c) := by
  unfold escChar
  by_cases h1 : c = '"'
  · rw [if_pos h1]; subst h1; exact CharSp.short '"' '"' (by decide)
  rw [if_neg h1]
  by_cases h2 : c = '\\'
  · rw [if_pos h2]; subst h2; exact CharSp.short '\\' '\\' (by decide)
  rw [if_neg h2]
  by_cases h3 : c.toNat < 32
  · rw [if_pos h3]
    have hc : c = Char.ofNat c.toNat := (Char.ofNat_toNat c).symm
    by_cases h8 : c.toNat = 8
    · rw [if_pos h8]; rw [hc, h8]; exact CharSp.short 'b' _ (by decide)
    rw [if_neg h8]
    by_cases h9 : c.toNat = 9
    · rw [if_pos h9]; rw [hc, h9]; exact CharSp.short 't' _ (by decide)
    rw [if_neg h9]
    by_cases h10 : c.toNat = 10
    · rw [if_pos h10]; rw [hc, h10]; exact CharSp.short 'n' _ (by decide)
    rw [if_neg h10]
    by_cases h12 : c.toNat = 12
    · rw [if_pos h12]; rw [hc, h12]; exact CharSp.short 'f' _ (by decide)
    rw [if_neg h12]
    by_cases h13 : c.toNat = 13
    · rw [if_pos h13]; rw [hc, h13]; exact CharSp.short 'r' _ (by decide)
    rw [if_neg h13]
    exact CharSp.u4 c '0' '0' _ _ (ctrl_u4 ⟨c.toNat, h3⟩) (Or.inl (by omega))
  · rw [if_neg h3]; exact CharSp.raw c h1 h2 h3

theorem bodySp_escBody (s : Str) : BodySp s (escBody s) := by
  induction s with
  | nil => exact BodySp.nil
  | cons c cs ih => exact BodySp.cons (charSp_escChar c) ih

/-! ### white space of the pretty printer -/

theorem ws_nil : Ws [] := by intro c h; cases h

theorem ws_nl (n : Nat) : Ws (nl n) := by
  intro c h
  simp only [nl, List.mem_cons, List.mem_replicate] at h
  rcases h with h | ⟨_, h⟩ <;> subst h <;> rfl

theorem ws_space : Ws [' '] := by
  intro c h
  simp only [List.mem_singleton] at h
  subst h; rfl

/-! ### the compact writer -/

mutual
theorem valSp_write (v : JV) (h : hasNonInt v = false) : ValSp v (write v) := by
  cases v with
  | null => simp [ValSp, writeG]
  | bool b => cases b <;> simp [ValSp, writeG]
  | num n =>
    cases n with
    | int i =>
      simp only [hasNonInt, Bool.not_eq_false', Bool.and_eq_true, decide_eq_true_eq] at h
      simp only [ValSp, writeG]
      exact ⟨h, trivial⟩
    | nonInt => simp [hasNonInt] at h
  | str s =>
    simp only [ValSp, writeG, quoteG]
    exact ⟨_, bodySp_escBody s, rfl⟩
  | arr xs =>
    cases xs with
    | nil => simp only [ValSp, writeG]; exact ⟨[], ws_nil, rfl⟩
    | cons x xs =>
      simp only [hasNonInt, hasNonIntList, Bool.or_eq_false_iff] at h
      simp only [ValSp, writeG]
      exact ⟨[], _, [], _, ws_nil, valSp_write x h.1, ws_nil, tailSp_write xs h.2, by simp⟩
  | obj kvs =>
    cases kvs with
    | nil => simp only [ValSp, writeG]; exact ⟨[], ws_nil, rfl⟩
    | cons p r =>
      obtain ⟨k, v⟩ := p
      simp only [hasNonInt, hasNonIntKvs, Bool.or_eq_false_iff] at h
      simp only [ValSp, writeG, quoteG]
      exact ⟨[], _, [], [], _, [], _, ws_nil, bodySp_escBody k, ws_nil, ws_nil, valSp_write v h.1, ws_nil,
        mtailSp_write r h.2, by simp⟩
theorem tailSp_write (xs : List JV) (h : hasNonIntList xs = false) : TailSp xs (writeTailG escBody xs) := by
  cases xs with
  | nil => simp [TailSp, writeTailG]
  | cons x xs =>
    simp only [hasNonIntList, Bool.or_eq_false_iff] at h
    simp only [TailSp, writeTailG]
    exact ⟨[], _, [], _, ws_nil, valSp_write x h.1, ws_nil, tailSp_write xs h.2, by simp⟩
theorem mtailSp_write (r : List (Str × JV)) (h : hasNonIntKvs r = false) : MTailSp r (writeKvsTailG escBody r) := by
  cases r with
  | nil => simp [MTailSp, writeKvsTailG]
  | cons p r =>
    obtain ⟨k, v⟩ := p
    simp only [hasNonIntKvs, Bool.or_eq_false_iff] at h
    simp only [MTailSp, writeKvsTailG, quoteG]
    exact ⟨[], _, [], [], _, [], _, ws_nil, bodySp_escBody k, ws_nil, ws_nil, valSp_write v h.1, ws_nil,
      mtailSp_write r h.2, by simp⟩
end

/-! ### the pretty printer -/

mutual
theorem valSp_writeP (n : Nat) (v : JV) (h : hasNonInt v = false) : ValSp v (writeP n v) := by
  cases v with
  | null => simp [ValSp, writeP]
  | bool b => cases b <;> simp [ValSp, writeP]
  | num m =>
    cases m with
    | int i =>
      simp only [hasNonInt, Bool.not_eq_false', Bool.and_eq_true, decide_eq_true_eq] at h
      simp only [ValSp, writeP]
      exact ⟨h, trivial⟩
    | nonInt => simp [hasNonInt] at h
  | str s =>
    simp only [ValSp, writeP, quoteG]
    exact ⟨_, bodySp_escBody s, rfl⟩
  | arr xs =>
    cases xs with
    | nil => simp only [ValSp, writeP]; exact ⟨[], ws_nil, rfl⟩
    | cons x xs =>
      simp only [hasNonInt, hasNonIntList, Bool.or_eq_false_iff] at h
      obtain ⟨w, tl, hw, htl, he⟩ := tailSp_tailP n xs h.2
      simp only [ValSp, writeP]
      exact ⟨nl (n + 1), _, w, tl, ws_nl _, valSp_writeP (n + 1) x h.1, hw, htl, by rw [he]⟩
  | obj kvs =>
    cases kvs with
    | nil => simp only [ValSp, writeP]; exact ⟨[], ws_nil, rfl⟩
    | cons p r =>
      obtain ⟨k, v⟩ := p
      simp only [hasNonInt, hasNonIntKvs, Bool.or_eq_false_iff] at h
      obtain ⟨w, tl, hw, htl, he⟩ := mtailSp_mtailP n r h.2
      simp only [ValSp, writeP, quoteG]
      exact ⟨nl (n + 1), _, [], [' '], _, w, tl, ws_nl _, bodySp_escBody k, ws_nil, ws_space,
        valSp_writeP (n + 1) v h.1, hw, htl, by rw [he]; simp⟩
theorem tailSp_tailP (n : Nat) (xs : List JV) (h : hasNonIntList xs = false) :
    ∃ w tl, Ws w ∧ TailSp xs tl ∧ tailP n xs = w ++ tl := by
  cases xs with
  | nil => exact ⟨nl n, [']'], ws_nl n, by simp [TailSp], by simp [tailP]⟩
  | cons x xs =>
    simp only [hasNonIntList, Bool.or_eq_false_iff] at h
    obtain ⟨w, tl, hw, htl, he⟩ := tailSp_tailP n xs h.2
    refine ⟨[], tailP n (x :: xs), ws_nil, ?_, rfl⟩
    simp only [TailSp, tailP]
    exact ⟨nl (n + 1), _, w, tl, ws_nl _, valSp_writeP (n + 1) x h.1, hw, htl, by rw [he]⟩
theorem mtailSp_mtailP (n : Nat) (r : List (Str × JV)) (h : hasNonIntKvs r = false) :
    ∃ w tl, Ws w ∧ MTailSp r tl ∧ mtailP n r = w ++ tl := by
  cases r with
  | nil => exact ⟨nl n, ['}'], ws_nl n, by simp [MTailSp], by simp [mtailP]⟩
  | cons p r =>
    obtain ⟨k, v⟩ := p
    simp only [hasNonIntKvs, Bool.or_eq_false_iff] at h
    obtain ⟨w, tl, hw, htl, he⟩ := mtailSp_mtailP n r h.2
    refine ⟨[], mtailP n ((k, v) :: r), ws_nil, ?_, rfl⟩
    simp only [MTailSp, mtailP, quoteG]
    exact ⟨nl (n + 1), _, [], [' '], _, w, tl, ws_nl _, bodySp_escBody k, ws_nil, ws_space,
      valSp_writeP (n + 1) v h.1, hw, htl, by rw [he]; simp⟩
end

/-! ### text round trips -/

theorem textSp_of_valSp {v : JV} {t : Str} (h : ValSp v t) : TextSp v t :=
  ⟨[], t, [], ws_nil, h, ws_nil, by simp⟩

/-- The compact text of a value (`serde_json::to_string`) is read back as that value. -/
theorem readText_write (v : JV) (hi : hasNonInt v = false) (hd : depth v ≤ 127) : readText (write v) = some v :=
  readText_spelled (textSp_of_valSp (valSp_write v hi)) hd

/-- The pretty-printed text of a value (`serde_json::to_string_pretty`) is read back as that value. -/
theorem readText_writePretty (v : JV) (hi : hasNonInt v = false) (hd : depth v ≤ 127) :
    readText (writePretty v) = some v :=
  readText_spelled (textSp_of_valSp (valSp_writeP 0 v hi)) hd

end InToto.JsonWrite
