import InTotoModel.Lemmas.OtherFiles
/-
  Evidence filed under a key id that the step does not list can neither help nor hurt: a readable file
  named like evidence of a step, filed (through its first signature with the file name's prefix) under an
  id outside the step's `pubkeys` - or filed under nothing at all - may be inserted anywhere into the
  directory listing without changing verdict or summary.  (C02: "evidence signed by any other key never
  counts" - here as an invariance, which also says that such evidence cannot make a verification fail.)
-/
namespace InToto.VerifySpec
open InToto InToto.Verify InToto.Rules InToto.Threshold

variable {K : Type}

theorem any_filter_key {α : Type} (q : Str → Bool) (k : Str) (hq : q k = true) (r : List (Str × α)) :
    (r.filter fun p => q p.1).any (fun p => p.1 == k) = r.any (fun p => p.1 == k) := by
  induction r with
  | nil => rfl
  | cons p rest ih =>
    simp only [List.filter_cons, List.any_cons]
    by_cases hp : q p.1 = true
    · simp only [hp, if_true, List.any_cons, ih]
    · simp only [hp, Bool.false_eq_true, if_false, ih]
      have : (p.1 == k) = false := by
        cases h : (p.1 == k)
        · rfl
        · have := eq_of_beq h
          rw [this] at hp
          exact absurd hq hp
      simp [this]

theorem dedupLast_filter_key {α : Type} (q : Str → Bool) (l : List (Str × α)) :
    (dedupLast l).filter (fun p => q p.1) = dedupLast (l.filter fun p => q p.1) := by
  induction l with
  | nil => rfl
  | cons p r ih =>
    obtain ⟨k, v⟩ := p
    simp only [dedupLast, List.filter_cons]
    by_cases hq : q k = true
    · simp only [hq, if_true, dedupLast, any_filter_key q k hq r]
      split
      · exact ih
      · simp only [List.filter_cons, hq, if_true, ih]
    · simp only [hq, Bool.false_eq_true, if_false]
      split
      · exact ih
      · simp only [List.filter_cons, hq, Bool.false_eq_true, if_false, ih]

/-- the counted evidence of a step, with the membership test applied first -/
theorem counted_evidence_eq (env : Env K) (L : Layout K) (st : Step) (l : List (Str × Block K)) :
    (dedupLast l).filter (counts env L st) =
      (dedupLast (l.filter fun p => decide (p.1 ∈ st.pubkeys))).filter (counts env L st) := by
  rw [← dedupLast_filter_key (fun k => decide (k ∈ st.pubkeys)) l, List.filter_filter]
  apply List.filter_congr
  intro e _
  unfold counts
  cases decide (e.1 ∈ st.pubkeys) <;> simp

/-- a file filed under nothing, or under an id the step does not list, does not change the step's counted
    evidence -/
theorem counted_evidence_insert_unlisted (env : Env K) (L : Layout K) (st : Step)
    (pre post : List (Str × FileC K)) (subs subs' : List (Str × Dir K)) (f : Str × FileC K)
    (hf : ∀ e, filedUnder st.name f = some e → e.1 ∉ st.pubkeys) :
    (evidence (Dir.mk (pre ++ f :: post) subs) st.name).filter (counts env L st) =
      (evidence (Dir.mk (pre ++ post) subs') st.name).filter (counts env L st) := by
  unfold evidence
  rw [counted_evidence_eq, counted_evidence_eq env L st (List.filterMap _ (Dir.mk (pre ++ post) subs').files)]
  congr 2
  simp only [Dir.files, List.filterMap_append, List.filterMap_cons, List.filter_append]
  cases he : filedUnder st.name f with
  | none => rfl
  | some e =>
    simp only [List.filter_cons]
    have := hf e he
    simp [this]

/-- acceptance carries over between two directories with the same sub-directories whose *counted* evidence
    and readability agree for every step of the layout -/
theorem accepted_of_same_counted_evidence (sub : List Str → Block K → List K → Dir K → Str → Option Link) (env : Env K)
    (path : List Str) (b : Block K) (keys : List K) (dir dir' : Dir K) (name : Str) (out : Link)
    (hsubs : dir'.subs = dir.subs)
    (hev : ∀ L, b.signed = .layout L → ∀ st ∈ L.steps,
      (evidence dir' st.name).filter (counts env L st) = (evidence dir st.name).filter (counts env L st) ∧
        readable dir' st.name = readable dir st.name)
    (h : Accepted sub env path b keys dir name out) : Accepted sub env path b keys dir' name out := by
  obtain ⟨L, links, reps, insp, h1, h2, h3, h4, h5, h6, h7, h8, h9, h10, h11, h12⟩ := h
  refine ⟨⟨L, links, reps, insp, h1, h2, h3, h4, ?_, ?_, h7, h8, h9, h10, h11, h12⟩⟩
  · intro st hst
    obtain ⟨a, b', c⟩ := h5 st hst
    exact ⟨a, b', by rw [(hev L h1 st hst).2]; exact c⟩
  · rw [← h6]
    apply allSome_congr
    intro st hst
    unfold stepLinks
    simp only
    rw [(hev L h1 st hst).1]
    have hst' : ∀ e, standsFor sub path L dir' st.name e = standsFor sub path L dir st.name e := by
      intro e
      unfold standsFor subDirOf
      rw [hsubs]
    rw [show standsFor sub path L dir' st.name = standsFor sub path L dir st.name from funext hst']

theorem readable_insert_block (pre post : List (Str × FileC K)) (subs subs' : List (Str × Dir K)) (n : Str) (blk : Block K)
    (stepName : Str) :
    readable (Dir.mk (pre ++ (n, FileC.block blk) :: post) subs) stepName = readable (Dir.mk (pre ++ post) subs') stepName := by
  unfold readable
  simp only [Dir.files, List.all_append, List.all_cons, Bool.or_true, Bool.true_and]

/-- **Evidence of keys the step does not list neither helps nor hurts.** -/
theorem acceptsStep_insert_unlisted (sub : List Str → Block K → List K → Dir K → Str → Option Link) (env : Env K)
    (path : List Str) (b : Block K) (keys : List K) (pre post : List (Str × FileC K)) (subs : List (Str × Dir K))
    (n : Str) (blk : Block K) (name : Str)
    (hf : ∀ L, b.signed = .layout L → ∀ st ∈ L.steps, ∀ e, filedUnder st.name (n, FileC.block blk) = some e → e.1 ∉ st.pubkeys) :
    acceptsStep sub env path b keys (Dir.mk (pre ++ (n, FileC.block blk) :: post) subs) name =
      acceptsStep sub env path b keys (Dir.mk (pre ++ post) subs) name := by
  have key : ∀ out, acceptsStep sub env path b keys (Dir.mk (pre ++ (n, FileC.block blk) :: post) subs) name = some out ↔
      acceptsStep sub env path b keys (Dir.mk (pre ++ post) subs) name = some out := by
    intro out
    rw [acceptsStep_iff, acceptsStep_iff]
    constructor
    · exact accepted_of_same_counted_evidence sub env path b keys _ _ name out rfl
        (fun L hL st hst => ⟨(counted_evidence_insert_unlisted env L st pre post subs subs _ (hf L hL st hst)).symm,
          (readable_insert_block pre post subs subs n blk st.name).symm⟩)
    · exact accepted_of_same_counted_evidence sub env path b keys _ _ name out rfl
        (fun L hL st hst => ⟨counted_evidence_insert_unlisted env L st pre post subs subs _ (hf L hL st hst),
          readable_insert_block pre post subs subs n blk st.name⟩)
  cases h1 : acceptsStep sub env path b keys (Dir.mk (pre ++ (n, FileC.block blk) :: post) subs) name with
  | some out => exact ((key out).mp h1).symm
  | none =>
    cases h2 : acceptsStep sub env path b keys (Dir.mk (pre ++ post) subs) name with
    | none => rfl
    | some out => rw [(key out).mpr h2] at h1; cases h1

end InToto.VerifySpec
