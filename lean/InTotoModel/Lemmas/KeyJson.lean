import InTotoModel.Model.KeyJson
import InTotoModel.Props.C12Pem
import InTotoModel.Lemmas.Codec
import InTotoModel.Lemmas.CodecInj
/-
  A key description survives its JSON form: `keyOfJson (keyToJson d) = some d` for every well-formed
  key, through hex (ed25519, ecdsa) or PEM + DER (rsa).
-/
namespace InToto.KeyJson
open InToto InToto.KeyId InToto.Wire

/-- what `PublicKey::new` and the constructors guarantee of a key the library can hold -/
def KeyWF (d : KeyDesc) : Prop :=
  match d.typ with
  | .ed25519 => d.scheme = sEd ∧ d.material.length = 32
  | .ecdsa => d.scheme = sEc
  | .rsa => (d.scheme = sEd ∨ d.scheme = sEc ∨ d.scheme = sPss256 ∨ d.scheme = sPss512) ∧ d.material.length < 60000

section fields
variable (a b c d e : JV)
theorem k1 : getField "keytype".toList [("keytype".toList, a), ("scheme".toList, b), ("keyval".toList, d), ("keyid".toList, e)] = some a := rfl
theorem k2 : getField "scheme".toList [("keytype".toList, a), ("scheme".toList, b), ("keyval".toList, d), ("keyid".toList, e)] = some b := rfl
theorem k3 : getField "keyid_hash_algorithms".toList [("keytype".toList, a), ("scheme".toList, b), ("keyval".toList, d), ("keyid".toList, e)] = none := rfl
theorem k4 : getField "keyval".toList [("keytype".toList, a), ("scheme".toList, b), ("keyval".toList, d), ("keyid".toList, e)] = some d := rfl
theorem k5 : getField "keyid".toList [("keytype".toList, a), ("scheme".toList, b), ("keyval".toList, d), ("keyid".toList, e)] = some e := rfl
theorem a1 : getField "keytype".toList [("keytype".toList, a), ("scheme".toList, b), ("keyid_hash_algorithms".toList, c), ("keyval".toList, d), ("keyid".toList, e)] = some a := rfl
theorem a2 : getField "scheme".toList [("keytype".toList, a), ("scheme".toList, b), ("keyid_hash_algorithms".toList, c), ("keyval".toList, d), ("keyid".toList, e)] = some b := rfl
theorem a3 : getField "keyid_hash_algorithms".toList [("keytype".toList, a), ("scheme".toList, b), ("keyid_hash_algorithms".toList, c), ("keyval".toList, d), ("keyid".toList, e)] = some c := rfl
theorem a4 : getField "keyval".toList [("keytype".toList, a), ("scheme".toList, b), ("keyid_hash_algorithms".toList, c), ("keyval".toList, d), ("keyid".toList, e)] = some d := rfl
theorem a5 : getField "keyid".toList [("keytype".toList, a), ("scheme".toList, b), ("keyid_hash_algorithms".toList, c), ("keyval".toList, d), ("keyid".toList, e)] = some e := rfl
theorem p1 : getField "public".toList [("public".toList, a), ("private".toList, b)] = some a := rfl
theorem p2 : getField "private".toList [("public".toList, a), ("private".toList, b)] = some b := rfl
end fields

theorem typeOfName_typeName (t : KeyType) : typeOfName (typeName t) = some t := by
  cases t <;> decide

theorem schemeOfJson_ok {s : Str} (h : s = sEd ∨ s = sEc ∨ s = sPss256 ∨ s = sPss512) : schemeOfJson (.str s) = some s := by
  simp [schemeOfJson, h]

theorem publicOfJson_keyval (pub : Str) :
    publicOfJson (.obj [("public".toList, .str pub), ("private".toList, .str [])]) = some pub := by
  simp only [publicOfJson, optStrOk, p2, req, p1, Option.bind_some, decStr]
  rfl

theorem spkiEncode_ne_nil (t : KeyType) (m : Bytes) : spkiEncode t m ≠ [] := by
  simp [spkiEncode, tlv]

/-- the type-specific part of the reader on what the writer puts into `public` -/
theorem material_round_trip (d : KeyDesc) (hwf : KeyWF d) :
    descOfPublic d.typ d.scheme d.hashAlgs (publicText d) = some d := by
  obtain ⟨t, s, al, m⟩ := d
  cases t with
  | ed25519 =>
    obtain ⟨hs, hl⟩ := hwf
    simp only at hs hl
    simp only [descOfPublic, publicText, c12_hex_round_trip, Option.bind_some, hs, ne_eq, not_true_eq_false, if_false, hl,
      if_true]
  | ecdsa =>
    have hs : s = sEc := hwf
    simp only [descOfPublic, publicText, c12_hex_round_trip, Option.map_some, hs, ne_eq, not_true_eq_false, if_false]
  | rsa =>
    obtain ⟨_, hl⟩ := hwf
    simp only at hl
    simp only [descOfPublic, publicText, Pem.parse_pemPublicKey _ (spkiEncode_ne_nil _ _), Option.bind_some,
      c12_spki_round_trip .rsa m hl]

/-- A key description survives its JSON form. -/
theorem key_round_trip (d : KeyDesc) (hwf : KeyWF d) : keyOfJson (keyToJson d) = some d := by
  have hscheme : d.scheme = sEd ∨ d.scheme = sEc ∨ d.scheme = sPss256 ∨ d.scheme = sPss512 := by
    unfold KeyWF at hwf
    cases ht : d.typ <;> rw [ht] at hwf
    · exact Or.inl hwf.1
    · exact hwf.1
    · exact Or.inr (Or.inl hwf)
  have hmat := material_round_trip d hwf
  unfold keyToJson keyJson
  cases hal : d.hashAlgs with
  | none =>
    rw [hal] at hmat
    simp only [List.cons_append, List.nil_append, List.append_nil, keyOfJson, req, k1, k2, k4, Option.bind_some, decStr,
      schemeOfJson_ok hscheme, algsOfJson, k3, publicOfJson_keyval, optStrOk, k5, Bool.not_true, Bool.false_eq_true,
      if_false, typeOfName_typeName, hmat]
  | some l =>
    have hl : allOpt decStr (l.map JV.str) = some l := allOpt_map_of_inv (fun a _ => rfl)
    rw [hal] at hmat
    simp only [List.cons_append, List.nil_append, keyOfJson, req, a1, a2, a4, Option.bind_some, decStr,
      schemeOfJson_ok hscheme, algsOfJson, a3, hl, Option.map_some, publicOfJson_keyval, optStrOk, a5, Bool.not_true,
      Bool.false_eq_true, if_false, typeOfName_typeName, hmat]

/-! ### different keys have different JSON descriptions (up to JSON normal form) -/

open InToto.Json

section members
variable (a b c d e : JV)
theorem l1 : lastFind "keytype".toList [("keytype".toList, a), ("scheme".toList, b), ("keyval".toList, d), ("keyid".toList, e)] = some a := rfl
theorem l2 : lastFind "scheme".toList [("keytype".toList, a), ("scheme".toList, b), ("keyval".toList, d), ("keyid".toList, e)] = some b := rfl
theorem l3 : lastFind "keyid_hash_algorithms".toList [("keytype".toList, a), ("scheme".toList, b), ("keyval".toList, d), ("keyid".toList, e)] = none := rfl
theorem l4 : lastFind "keyval".toList [("keytype".toList, a), ("scheme".toList, b), ("keyval".toList, d), ("keyid".toList, e)] = some d := rfl
theorem m1 : lastFind "keytype".toList [("keytype".toList, a), ("scheme".toList, b), ("keyid_hash_algorithms".toList, c), ("keyval".toList, d), ("keyid".toList, e)] = some a := rfl
theorem m2 : lastFind "scheme".toList [("keytype".toList, a), ("scheme".toList, b), ("keyid_hash_algorithms".toList, c), ("keyval".toList, d), ("keyid".toList, e)] = some b := rfl
theorem m3 : lastFind "keyid_hash_algorithms".toList [("keytype".toList, a), ("scheme".toList, b), ("keyid_hash_algorithms".toList, c), ("keyval".toList, d), ("keyid".toList, e)] = some c := rfl
theorem m4 : lastFind "keyval".toList [("keytype".toList, a), ("scheme".toList, b), ("keyid_hash_algorithms".toList, c), ("keyval".toList, d), ("keyid".toList, e)] = some d := rfl
theorem q1 : lastFind "public".toList [("public".toList, a), ("private".toList, b)] = some a := rfl
end members

/-- the members of a key description, whatever its hash-algorithm list -/
theorem keyJson_members (d : KeyDesc) (kid : Str) :
    ∃ kvs, keyJson d kid = .obj kvs ∧
      lastFind "keytype".toList kvs = some (.str (typeName d.typ)) ∧
      lastFind "scheme".toList kvs = some (.str d.scheme) ∧
      lastFind "keyid_hash_algorithms".toList kvs = d.hashAlgs.map (fun l => JV.arr (l.map .str)) ∧
      lastFind "keyval".toList kvs = some (.obj [("public".toList, .str (publicText d)), ("private".toList, .str [])]) := by
  unfold keyJson
  cases h : d.hashAlgs with
  | none => exact ⟨_, rfl, l1 .., l2 .., l3 .., l4 ..⟩
  | some l => exact ⟨_, rfl, m1 .., m2 .., m3 .., m4 ..⟩

theorem normList_strs (l : List Str) : normList (l.map JV.str) = l.map JV.str := by
  induction l with
  | nil => rfl
  | cons x xs ih => simp [normList, norm, ih]

/-- Two keys with the same description up to JSON normal form are the same key. -/
theorem keyToJson_norm_injective {k k' : KeyDesc} (hk : k.material.length < 60000) (hk' : k'.material.length < 60000)
    (h : norm (keyToJson k) = norm (keyToJson k')) : k = k' := by
  obtain ⟨kvs, e, f1, f2, f3, f4⟩ := keyJson_members k (kidOf k)
  obtain ⟨kvs', e', g1, g2, g3, g4⟩ := keyJson_members k' (kidOf k')
  unfold keyToJson at h
  rw [e, e'] at h
  simp only [norm] at h
  replace h := JV.obj.inj h
  have look := fun key => congrArg (lookupS key) h
  simp only [lookupS_normKvs_nil] at look
  have t1 := look "keytype".toList; rw [f1, g1] at t1
  have t2 := look "scheme".toList; rw [f2, g2] at t2
  have t3 := look "keyid_hash_algorithms".toList; rw [f3, g3] at t3
  have t4 := look "keyval".toList; rw [f4, g4] at t4
  simp only [Option.map_some, Option.some.injEq, norm, JV.str.injEq] at t1 t2
  have htyp : k.typ = k'.typ := typeName_injective t1
  have halg : k.hashAlgs = k'.hashAlgs := by
    cases ha : k.hashAlgs <;> cases ha' : k'.hashAlgs <;> simp only [ha, ha', Option.map_none, Option.map_some] at t3
    · rfl
    · cases t3
    · cases t3
    · simp only [Option.some.injEq, norm, JV.arr.injEq, normList_strs] at t3
      rw [map_str_injective t3]
  have hpub : publicText k = publicText k' := by
    simp only [Option.map_some, Option.some.injEq, norm, JV.obj.injEq] at t4
    have lk := congrArg (lookupS "public".toList) t4
    simp only [lookupS_normKvs_nil, q1, Option.map_some, Option.some.injEq, norm, JV.str.injEq] at lk
    exact lk
  obtain ⟨t, s, al, m⟩ := k
  obtain ⟨t', s', al', m'⟩ := k'
  simp only at htyp t2 halg hk hk'
  subst htyp t2 halg
  have : m = m' := by
    unfold publicText at hpub
    cases t <;> simp only at hpub
    · exact hexEncode_injective hpub
    · exact c12_spki_injective .rsa m m' hk hk' (Pem.pemPublicKey_injective_all _ _ hpub)
    · exact hexEncode_injective hpub
  rw [this]

end InToto.KeyJson
