import InTotoModel.Lemmas.VerifySpec
/-
  Clause 1 of the specification looks at the caller's keys as a set and at the layout's signature list
  only under the ids of those keys:
   * the order in which the trusted keys are supplied does not matter;
   * a signature entry listed under the id of a key that was not supplied - whoever made it, valid or
     not, wherever it stands in the list - neither helps nor hurts.
-/
namespace InToto.VerifySpec
open InToto InToto.Verify InToto.Rules InToto.Threshold

variable {K : Type}

theorem ownersSigned_perm (env : Env K) (b : Block K) {keys keys' : List K} (hp : keys.Perm keys') :
    ownersSigned env b keys = ownersSigned env b keys' := by
  unfold ownersSigned
  have h1 : keys.isEmpty = keys'.isEmpty := by
    cases keys <;> cases keys' <;> simp_all
  have h2 : distinct (keys.map env.kidOf) = distinct (keys'.map env.kidOf) := by
    have hp' := hp.map env.kidOf
    cases ha : distinct (keys.map env.kidOf) <;> cases hb : distinct (keys'.map env.kidOf) <;> try rfl
    · have := (distinct_iff _).mp hb
      have := (distinct_iff _).mpr (hp'.nodup_iff.mpr this)
      rw [ha] at this; cases this
    · have := (distinct_iff _).mp ha
      have := (distinct_iff _).mpr (hp'.nodup_iff.mp this)
      rw [hb] at this; cases this
  rw [h1, h2, hp.all_eq]

/-- acceptance depends on the block through its content and clause 1 only -/
theorem acceptsStep_congr_owners (sub : List Str → Block K → List K → Dir K → Str → Option Link) (env : Env K)
    (path : List Str) (b b' : Block K) (keys keys' : List K) (dir : Dir K) (name : Str)
    (hs : b'.signed = b.signed) (ho : ownersSigned env b' keys' = ownersSigned env b keys) :
    acceptsStep sub env path b' keys' dir name = acceptsStep sub env path b keys dir name := by
  unfold acceptsStep
  rw [hs, ho]

theorem lastFind_insert_other {α : Type} (k : Str) (pre post : List (Str × α)) (e : Str × α) (hne : e.1 ≠ k) :
    lastFind k (pre ++ e :: post) = lastFind k (pre ++ post) := by
  induction pre with
  | nil =>
    obtain ⟨k', v⟩ := e
    simp only [List.nil_append, lastFind]
    cases lastFind k post with
    | some w => rfl
    | none => simp only; rw [if_neg (fun h => hne h.symm)]
  | cons p rest ih =>
    obtain ⟨k', v⟩ := p
    simp only [List.cons_append, lastFind, ih]

theorem all_congr_mem {α : Type} {f g : α → Bool} : ∀ {l : List α}, (∀ a ∈ l, f a = g a) → l.all f = l.all g
  | [], _ => rfl
  | a :: r, h => by
    simp only [List.all_cons]
    rw [h a (by simp), all_congr_mem (fun x hx => h x (List.mem_cons_of_mem _ hx))]

theorem ownersSigned_insert_foreign (env : Env K) (content : Meta K) (pre post : List (Sig)) (s : Sig) (keys : List K)
    (hs : ∀ k ∈ keys, env.kidOf k ≠ s.kid) :
    ownersSigned env { sigs := pre ++ s :: post, signed := content } keys =
      ownersSigned env { sigs := pre ++ post, signed := content } keys := by
  unfold ownersSigned
  congr 1
  apply all_congr_mem
  intro k hk
  unfold signedBy sigFor
  simp only [List.map_append, List.map_cons]
  rw [lastFind_insert_other (env.kidOf k) _ _ (s.kid, s.val) (fun h => hs k hk h.symm)]

end InToto.VerifySpec
