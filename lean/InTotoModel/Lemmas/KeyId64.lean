import InTotoModel.Lemmas.JsonShape
/-
  A key id is 64 lower-case hex digits - the hex form of a 32-byte SHA-256 digest - for every key
  description: the canonical description always exists (it holds strings only) and the digest has
  32 bytes (`Sha256.hash_length`).  So `keyIdOk (kidOf d)` needs no hypothesis.
-/
namespace InToto.KeyJson
open InToto InToto.Json InToto.KeyId InToto.Wire InToto.JsonShape

theorem nibble_ascii : ∀ n : Fin 16, (Utf8.encodeChar (hexNibble n.val)).length = 1 := by decide

theorem utf8_hexEncode_length (b : Bytes) : (Utf8.encode (hexEncode b)).length = 2 * b.length := by
  induction b with
  | nil => rfl
  | cons x r ih =>
    have h1 := nibble_ascii ⟨x.toNat / 16, by have := x.toNat_lt; omega⟩
    have h2 := nibble_ascii ⟨x.toNat % 16, by omega⟩
    simp only [Utf8.encode, hexEncode, List.flatMap_cons, List.length_append, List.length_cons] at ih ⊢
    simp only at h1 h2
    omega

theorem fits_shim (d : KeyDesc) : fits 2 (shimJson d) = true := by
  unfold shimJson
  simp only [fits, fitsKvs_append, fitsKvs, Bool.and_true, Bool.true_and]
  cases d.hashAlgs with
  | none => rfl
  | some l => simp only [fitsKvs, Bool.and_true]; exact fits_strs l

/-- the canonical description of a key always exists -/
theorem signedText_shim_ok (d : KeyDesc) : ∃ t, signedText (shimJson d) = .ok t := by
  unfold signedText canon
  rw [(fits_sound 2 _ (fits_shim d)).1]
  exact ⟨_, rfl⟩

/-- **Every key id is 64 hex digits.** -/
theorem keyIdOk_kidOf (d : KeyDesc) : keyIdOk (kidOf d) = true := by
  obtain ⟨t, ht⟩ := signedText_shim_ok d
  unfold kidOf keyIdWith
  rw [ht]
  simp only [Option.getD_some, keyIdOk, utf8_hexEncode_length, Sha256.hash_length]
  rfl

end InToto.KeyJson
