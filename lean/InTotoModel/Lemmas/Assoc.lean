import InTotoModel.Model.Verify
namespace InToto.Verify

variable {α : Type}

theorem lookup_upsert_self (k : Str) (v : α) (l : List (Str × α)) : lookup k (upsert k v l) = some v := by
  induction l with
  | nil => simp [upsert, lookup]
  | cons p r ih =>
    obtain ⟨k', v'⟩ := p
    simp only [upsert]
    split
    · simp [lookup]
    · rename_i h; simp [lookup, h, ih]

theorem lookup_upsert_ne {k k' : Str} (h : k' ≠ k) (v : α) (l : List (Str × α)) :
    lookup k' (upsert k v l) = lookup k' l := by
  induction l with
  | nil => simp [upsert, lookup, h.symm]
  | cons p r ih =>
    obtain ⟨k2, v2⟩ := p
    simp only [upsert]
    split
    · rename_i e; subst e; simp [lookup, h.symm]
    · simp only [lookup, ih]

theorem mem_upsert {k : Str} {v : α} {l : List (Str × α)} {p : Str × α} (h : p ∈ upsert k v l) :
    p = (k, v) ∨ p ∈ l := by
  induction l with
  | nil => simp [upsert] at h; exact Or.inl h
  | cons q r ih =>
    obtain ⟨k2, v2⟩ := q
    simp only [upsert] at h
    split at h
    · simp only [List.mem_cons] at h ⊢
      rcases h with h | h
      · exact Or.inl h
      · exact Or.inr (Or.inr h)
    · simp only [List.mem_cons] at h ⊢
      rcases h with h | h
      · exact Or.inr (Or.inl h)
      · rcases ih h with h | h
        · exact Or.inl h
        · exact Or.inr (Or.inr h)

theorem keys_upsert_subset (k : Str) (v : α) (l : List (Str × α)) :
    ∀ x ∈ (upsert k v l).map Prod.fst, x = k ∨ x ∈ l.map Prod.fst := by
  intro x hx
  obtain ⟨p, hp, rfl⟩ := List.mem_map.mp hx
  rcases mem_upsert hp with h | h
  · subst h; exact Or.inl rfl
  · exact Or.inr (List.mem_map.mpr ⟨p, h, rfl⟩)

theorem nodup_upsert (k : Str) (v : α) {l : List (Str × α)} (h : (l.map Prod.fst).Nodup) :
    ((upsert k v l).map Prod.fst).Nodup := by
  induction l with
  | nil => simp [upsert]
  | cons q r ih =>
    obtain ⟨k2, v2⟩ := q
    simp only [List.map_cons, List.nodup_cons] at h
    simp only [upsert]
    split
    · rename_i e; subst e
      simpa [List.nodup_cons] using h
    · rename_i hne
      simp only [List.map_cons, List.nodup_cons]
      refine ⟨?_, ih h.2⟩
      intro hm
      rcases keys_upsert_subset k v r k2 hm with e | e
      · exact hne e
      · exact h.1 e

theorem mem_of_lookup {k : Str} {v : α} {l : List (Str × α)} (h : lookup k l = some v) : (k, v) ∈ l := by
  induction l with
  | nil => simp [lookup] at h
  | cons q r ih =>
    obtain ⟨k2, v2⟩ := q
    simp only [lookup] at h
    split at h
    · rename_i e; subst e; cases h; simp
    · exact List.mem_cons_of_mem _ (ih h)

theorem lookup_of_mem {k : Str} {v : α} {l : List (Str × α)} (hnd : (l.map Prod.fst).Nodup) (h : (k, v) ∈ l) :
    lookup k l = some v := by
  induction l with
  | nil => simp at h
  | cons q r ih =>
    obtain ⟨k2, v2⟩ := q
    simp only [List.map_cons, List.nodup_cons] at hnd
    simp only [List.mem_cons, Prod.mk.injEq] at h
    simp only [lookup]
    rcases h with ⟨rfl, rfl⟩ | h
    · simp
    · have : k2 ≠ k := by
        intro e; subst e
        exact hnd.1 (List.mem_map.mpr ⟨(k2, v), h, rfl⟩)
      simp [this, ih hnd.2 h]

theorem upsert_ne_nil (k : Str) (v : α) (l : List (Str × α)) : upsert k v l ≠ [] := by
  cases l with
  | nil => simp [upsert]
  | cons q r => obtain ⟨k2, v2⟩ := q; simp only [upsert]; split <;> simp

theorem mem_upsert_self (k : Str) (v : α) (l : List (Str × α)) : (k, v) ∈ upsert k v l :=
  mem_of_lookup (lookup_upsert_self k v l)

theorem mem_upsert_of_mem {k : Str} {v : α} {l : List (Str × α)} {p : Str × α} (h : p ∈ l) (hne : p.1 ≠ k) :
    p ∈ upsert k v l := by
  induction l with
  | nil => simp at h
  | cons q r ih =>
    obtain ⟨k2, v2⟩ := q
    simp only [upsert]
    simp only [List.mem_cons] at h
    split
    · rename_i e
      rcases h with h | h
      · subst h; exact absurd e hne
      · exact List.mem_cons_of_mem _ h
    · rcases h with h | h
      · subst h; simp
      · exact List.mem_cons_of_mem _ (ih h)

/-- a duplicate-free list of ids that all lie in the image of `l` and is at least as long as `l`
    forces the image to be duplicate-free and covered -/
theorem nodup_of_covering {β : Type} (f : β → Str) (l : List β) (ids : List Str) (hnd : ids.Nodup)
    (hsub : ∀ id ∈ ids, id ∈ l.map f) (hlen : l.length ≤ ids.length) :
    (l.map f).Nodup ∧ ∀ x ∈ l, f x ∈ ids := by
  induction l generalizing ids with
  | nil => simp
  | cons a r ih =>
    have hy_in : f a ∈ ids := by
      apply Classical.byContradiction
      intro hn
      have hs : ids ⊆ r.map f := by
        intro id hid
        have := hsub id hid
        simp only [List.map_cons, List.mem_cons] at this
        rcases this with e | e
        · subst e; exact absurd hid hn
        · exact e
      have := List.Nodup.length_le_of_subset hnd hs
      simp at this hlen
      omega
    have hy_notin : f a ∉ r.map f := by
      intro hm
      have hs : ids ⊆ r.map f := by
        intro id hid
        have := hsub id hid
        simp only [List.map_cons, List.mem_cons] at this
        rcases this with e | e
        · subst e; exact hm
        · exact e
      have := List.Nodup.length_le_of_subset hnd hs
      simp at this hlen
      omega
    have hnd' : (ids.erase (f a)).Nodup := hnd.erase _
    have hsub' : ∀ id ∈ ids.erase (f a), id ∈ r.map f := by
      intro id hid
      have hne : id ≠ f a := fun e => by
        subst e
        exact (List.Nodup.not_mem_erase hnd) hid
      have := hsub id (List.mem_of_mem_erase hid)
      simp only [List.map_cons, List.mem_cons] at this
      rcases this with e | e
      · exact absurd e hne
      · exact e
    have hlen' : r.length ≤ (ids.erase (f a)).length := by
      rw [List.length_erase_of_mem hy_in]
      simp at hlen
      omega
    obtain ⟨h1, h2⟩ := ih (ids.erase (f a)) hnd' hsub' hlen'
    refine ⟨?_, ?_⟩
    · simp only [List.map_cons, List.nodup_cons]
      exact ⟨hy_notin, h1⟩
    · intro x hx
      simp only [List.mem_cons] at hx
      rcases hx with rfl | hx
      · exact hy_in
      · exact List.mem_of_mem_erase (h2 x hx)

end InToto.Verify
