import InTotoModel.Lemmas.Sequential
/-
  The fuel of the pipeline model is not a limit of the code.

  `verify` takes a fuel argument because Lean wants the recursion into sub-layouts to end; the Rust code
  simply recurses, one directory level per delegation.  `verify_fuel_enough`: once the fuel exceeds the
  depth of the link directory by one, more fuel changes nothing - the result (verdict, error stage,
  summary, sequence of inspection commands) is the same for every larger amount.  The answer
  "out of fuel" (`err 5` from `verify … 0`) is therefore never the answer for the fuel the driver uses
  (64) on a directory tree less than 63 levels deep; deeper genuine chains are exercised on the
  implementation only (C14: delegation shapes).
-/
namespace InToto.Verify
open InToto InToto.Threshold

variable {K : Type}

mutual
/-- levels of a link directory: a directory without files or sub-directories has none -/
def Dir.depth : Dir K → Nat
  | .mk files subs => if files.isEmpty then 0 else 1 + depthSubs subs
def depthSubs : List (Str × Dir K) → Nat
  | [] => 0
  | (_, d) :: r => max d.depth (depthSubs r)
end

theorem depth_of_lookup {subs : List (Str × Dir K)} {n : Str} {d : Dir K} (h : lookup n subs = some d) :
    d.depth ≤ depthSubs subs := by
  induction subs with
  | nil => simp [lookup] at h
  | cons p r ih =>
    obtain ⟨k, d'⟩ := p
    simp only [lookup] at h
    simp only [depthSubs]
    split at h
    · cases h; omega
    · have := ih h; omega

theorem depth_empty : (Dir.empty : Dir K).depth = 0 := by
  simp [Dir.empty, Dir.depth]

/-- a sub-directory lies at least one level below a directory that has files -/
theorem depth_subDirOf (dir : Dir K) (n : Str) (hf : dir.files ≠ []) : (subDirOf dir n).depth + 1 ≤ dir.depth := by
  obtain ⟨files, subs⟩ := dir
  simp only [Dir.files] at hf
  have hne : files.isEmpty = false := by cases files with | nil => exact absurd rfl hf | cons _ _ => rfl
  unfold subDirOf
  simp only [Dir.subs, Dir.depth, hne, Bool.false_eq_true, if_false]
  cases hl : lookup n subs with
  | none => simp only [Option.getD_none, depth_empty]; omega
  | some d => simp only [Option.getD_some]; have := depth_of_lookup hl; omega

/-! ### without files there is no evidence, hence no delegation -/

theorem loadStepFiles_nil (stepName : Str) (acc : List (Str × Block K)) :
    loadStepFiles stepName ([] : List (Str × FileC K)) acc = .ok acc := rfl

/-- stage 5 makes no use of the fuel when no step has evidence -/
theorem subLayoutsStep_nil (env : Env K) (ord : Ord) (f : Nat) (path : List Str) (L : Layout K) (dir : Dir K)
    (stepName : Str) (acc : List (Str × Link)) (ev : List Event) :
    subLayoutsStep env ord f path L dir stepName [] acc ev = (.ok acc, ev) := by
  rw [subLayoutsStep]

/-- stage 5 depends on the fuel only through the verifications of the evidence it meets -/
theorem subLayoutsStep_fuel (env : Env K) (ord : Ord) (f f' : Nat) (path : List Str) (L : Layout K) (dir : Dir K)
    (stepName : Str) (per : List (Str × Block K))
    (hv : ∀ e ∈ per, ∀ k, verify env ord f (path ++ [stepName ++ '.' :: prefix8 e.1]) e.2 [k]
        (subDirOf dir (stepName ++ '.' :: prefix8 e.1)) stepName =
      verify env ord f' (path ++ [stepName ++ '.' :: prefix8 e.1]) e.2 [k]
        (subDirOf dir (stepName ++ '.' :: prefix8 e.1)) stepName) :
    ∀ (acc : List (Str × Link)) (ev : List Event),
      subLayoutsStep env ord f path L dir stepName per acc ev = subLayoutsStep env ord f' path L dir stepName per acc ev := by
  induction per with
  | nil => intro acc ev; rw [subLayoutsStep_nil, subLayoutsStep_nil]
  | cons x rest ih =>
    intro acc ev
    obtain ⟨kid, b⟩ := x
    have ih' := ih (fun e he k => hv e (List.mem_cons_of_mem _ he) k)
    conv => lhs; rw [subLayoutsStep]
    conv => rhs; rw [subLayoutsStep]
    cases hb : b.signed with
    | link l => simp only; exact ih' _ _
    | layout L' =>
      simp only
      cases hk : lookup kid L.keys with
      | none => rfl
      | some k =>
        simp only
        rw [hv (kid, b) (by simp) k]
        cases hr : verify env ord f' (path ++ [stepName ++ '.' :: prefix8 kid]) b [k]
            (subDirOf dir (stepName ++ '.' :: prefix8 kid)) stepName with
        | mk res ev' =>
          cases res with
          | ok l => simp only; exact ih' _ _
          | err c => rfl
          | panic c => rfl

theorem subLayouts_fuel (env : Env K) (ord : Ord) (f f' : Nat) (path : List Str) (L : Layout K) (dir : Dir K)
    (vs : List (Str × List (Str × Block K)))
    (hv : ∀ v ∈ vs, ∀ e ∈ ord.perm 3 v.2, ∀ k, verify env ord f (path ++ [v.1 ++ '.' :: prefix8 e.1]) e.2 [k]
        (subDirOf dir (v.1 ++ '.' :: prefix8 e.1)) v.1 =
      verify env ord f' (path ++ [v.1 ++ '.' :: prefix8 e.1]) e.2 [k]
        (subDirOf dir (v.1 ++ '.' :: prefix8 e.1)) v.1) :
    ∀ (acc : List (Str × List (Str × Link))) (ev : List Event),
      subLayouts env ord f path L dir vs acc ev = subLayouts env ord f' path L dir vs acc ev := by
  induction vs with
  | nil => intro acc ev; conv => lhs; rw [subLayouts]
           conv => rhs; rw [subLayouts]
  | cons v rest ih =>
    intro acc ev
    obtain ⟨stepName, per⟩ := v
    have ih' := ih (fun v hv' e he k => hv v (List.mem_cons_of_mem _ hv') e he k)
    conv => lhs; rw [subLayouts]
    conv => rhs; rw [subLayouts]
    rw [subLayoutsStep_fuel env ord f f' path L dir stepName (ord.perm 3 per)
      (fun e he k => hv (stepName, per) (by simp) e he k) [] ev]
    cases hs : subLayoutsStep env ord f' path L dir stepName (ord.perm 3 per) [] ev with
    | mk res ev' =>
      cases res with
      | ok pl => simp only; exact ih' _ _
      | err c => rfl
      | panic c => rfl

/-- one more unit of fuel changes nothing, provided it changes nothing for the evidence met in stage 5 -/
theorem verify_fuel_step (env : Env K) (ord : Ord) (f : Nat) (path : List Str) (b : Block K) (keys : List K)
    (dir : Dir K) (name : Str)
    (hv : ∀ (L : Layout K) (verified : List (Str × List (Str × Block K))),
      verifyBlockK env ord b keys.length keys = .ok (.layout L) →
      (∃ loaded, loadLinks dir L.steps [] = .ok loaded ∧ verifyThresholds env ord L loaded L.steps [] = .ok verified) →
      ∀ v ∈ ord.perm 2 verified, ∀ e ∈ ord.perm 3 v.2, ∀ k,
        verify env ord (f + 1) (path ++ [v.1 ++ '.' :: prefix8 e.1]) e.2 [k] (subDirOf dir (v.1 ++ '.' :: prefix8 e.1)) v.1 =
        verify env ord f (path ++ [v.1 ++ '.' :: prefix8 e.1]) e.2 [k] (subDirOf dir (v.1 ++ '.' :: prefix8 e.1)) v.1) :
    verify env ord (f + 2) path b keys dir name = verify env ord (f + 1) path b keys dir name := by
  conv => lhs; rw [verify]
  conv => rhs; rw [verify]
  cases h1 : verifyBlockK env ord b keys.length keys with
  | err c => rfl
  | panic c => rfl
  | ok m =>
    cases m with
    | link l => rfl
    | layout L =>
      simp only
      by_cases hexp : L.expires < env.now path
      · simp only [hexp, if_true]
      · simp only [hexp, if_false]
        cases h3 : loadLinks dir L.steps [] with
        | err c => rfl
        | panic c => rfl
        | ok loaded =>
          simp only
          cases h4 : verifyThresholds env ord L loaded L.steps [] with
          | err c => rfl
          | panic c => rfl
          | ok verified =>
            simp only
            rw [subLayouts_fuel env ord (f + 1) f path L dir (ord.perm 2 verified)
              (hv L verified h1 ⟨loaded, h3, h4⟩) [] []]

end InToto.Verify

namespace InToto.Verify
open InToto InToto.Threshold

variable {K : Type}

theorem perm_nil_eq {α : Type} (ord : Ord) (hord : ord.Valid) (site : Nat) : ord.perm site ([] : List (Str × α)) = [] :=
  (hord site α []).eq_nil

/-- in a directory without files no step has any evidence after stage 4 -/
theorem no_files_no_evidence (env : Env K) (ord : Ord) (hord : ord.Valid) (L : Layout K) (dir : Dir K)
    (hf : dir.files = []) {loaded verified : List (Str × List (Str × Block K))}
    (h3 : loadLinks dir L.steps [] = .ok loaded) (h4 : verifyThresholds env ord L loaded L.steps [] = .ok verified) :
    ∀ v ∈ verified, v.2 = [] := by
  have hloaded : ∀ n per, lookup n loaded = some per → per = [] := by
    intro n per hl
    rcases loadLinks_spec dir L.steps [] h3 (n, per) (mem_of_lookup hl) with h0 | ⟨h0, _⟩
    · simp at h0
    · cases per with
      | nil => rfl
      | cons e r =>
        obtain ⟨fname, hmem, _⟩ := h0 e (by simp)
        rw [hf] at hmem
        simp at hmem
  intro v hv
  rcases (verifyThresholds_spec env ord L loaded L.steps [] h4).1 v hv with h0 | ⟨st, _, _, h2⟩
  · simp at h0
  · rw [h2]
    unfold goodOf
    have : (lookup st.name loaded).getD [] = [] := by
      cases hl : lookup st.name loaded with
      | none => rfl
      | some per => simp [hloaded _ _ hl]
    rw [this, perm_nil_eq ord hord]
    rfl

theorem files_nil_of_depth_zero {dir : Dir K} (h : dir.depth = 0) : dir.files = [] := by
  obtain ⟨files, subs⟩ := dir
  simp only [Dir.depth] at h
  simp only [Dir.files]
  cases files with
  | nil => rfl
  | cons _ _ => simp at h

/-- **Enough fuel is as good as any amount.**  With fuel beyond the depth of the link directory plus
    one, the complete result of `verify` no longer depends on the fuel. -/
theorem verify_fuel_succ (env : Env K) (ord : Ord) (hord : ord.Valid) :
    ∀ (f : Nat) (path : List Str) (b : Block K) (keys : List K) (dir : Dir K) (name : Str), dir.depth ≤ f →
      verify env ord (f + 2) path b keys dir name = verify env ord (f + 1) path b keys dir name := by
  intro f
  induction f with
  | zero =>
    intro path b keys dir name hd
    have hf := files_nil_of_depth_zero (Nat.le_zero.mp hd)
    apply verify_fuel_step
    intro L verified _ ⟨loaded, h3, h4⟩ v hv e he
    have hv' : v ∈ verified := (hord 2 _ verified).mem_iff.mp hv
    rw [no_files_no_evidence env ord hord L dir hf h3 h4 v hv', perm_nil_eq ord hord] at he
    simp at he
  | succ f ih =>
    intro path b keys dir name hd
    apply verify_fuel_step
    intro L verified _ ⟨loaded, h3, h4⟩ v hv e he k
    by_cases hf : dir.files = []
    · have hv' : v ∈ verified := (hord 2 _ verified).mem_iff.mp hv
      rw [no_files_no_evidence env ord hord L dir hf h3 h4 v hv', perm_nil_eq ord hord] at he
      simp at he
    · apply ih
      have := depth_subDirOf dir (v.1 ++ '.' :: prefix8 e.1) hf
      omega

theorem verify_fuel_enough (env : Env K) (ord : Ord) (hord : ord.Valid) (path : List Str) (b : Block K) (keys : List K)
    (dir : Dir K) (name : Str) (f : Nat) (hf : dir.depth + 1 ≤ f) (extra : Nat) :
    verify env ord (f + extra) path b keys dir name = verify env ord f path b keys dir name := by
  induction extra with
  | zero => rfl
  | succ n ih =>
    obtain ⟨g, rfl⟩ : ∃ g, f = g + 1 := ⟨f - 1, by omega⟩
    have : g + 1 + (n + 1) = (g + n) + 2 := by omega
    rw [this, verify_fuel_succ env ord hord (g + n) path b keys dir name (by omega)]
    have : g + n + 1 = g + 1 + n := by omega
    rw [this]
    exact ih

end InToto.Verify
