import InTotoModel.Spec.Rules
namespace InToto.RulesSpec
open InToto.Rules

/-! ### hypotheses, as propositions -/

def noDoubleSlash : Str → Bool
  | '/' :: '/' :: _ => false
  | _ :: r => noDoubleSlash r
  | [] => true

/-- a normalized relative artifact path -/
def NormPathP (p : Str) : Prop := canonPath p = p ∧ p.head? ≠ some '/' ∧ noDoubleSlash p = true

def NormArtsP (a : Artifacts) : Prop := (∀ e ∈ a, NormPathP e.1) ∧ (a.map Prod.fst).Nodup

def NormTableP (reduced : List (Str × LinkArts)) : Prop :=
  ∀ e ∈ reduced, NormArtsP e.2.materials ∧ NormArtsP e.2.products

/-- a portable prefix: a non-empty relative directory name -/
def PortablePrefixP : Option Str → Prop
  | none => True
  | some d => d ≠ [] ∧ d.head? ≠ some '/'

def PortableRuleP : Rule → Prop
  | .matchR _ s _ d _ => PortablePrefixP s ∧ PortablePrefixP d
  | _ => True

/-! ### list facts -/

theorem dedup_of_nodup {l : List Str} (h : l.Nodup) : dedup l = l := by
  induction l with
  | nil => rfl
  | cons x r ih =>
    simp only [List.nodup_cons] at h
    simp [dedup, h.1, ih h.2]

theorem lookupLast_eq_find {a : Artifacts} (h : (a.map Prod.fst).Nodup) (p : Str) : lookupLast p a = find p a := by
  induction a with
  | nil => rfl
  | cons e r ih =>
    obtain ⟨k, v⟩ := e
    simp only [List.map_cons, List.nodup_cons] at h
    simp only [lookupLast, find]
    rw [ih h.2]
    by_cases e : k = p
    · subst e
      have : find k r = none := by
        clear ih
        induction r with
        | nil => rfl
        | cons q r' ih' =>
          obtain ⟨k', v'⟩ := q
          simp only [List.map_cons, List.mem_cons, not_or] at h
          simp only [find]
          have hne : k' ≠ k := fun e => h.1.1 e.symm
          simp only [hne, if_false]
          exact ih' ⟨h.1.2, (List.nodup_cons.mp h.2).2⟩
      simp [this]
    · have e' : ¬ p = k := fun x => e x.symm
      simp only [e, e', if_false]
      cases find p r <;> rfl

theorem has_iff_mem (p : Str) (a : Artifacts) : has p a = true ↔ p ∈ a.map Prod.fst := by
  induction a with
  | nil => simp [has, find]
  | cons e r ih =>
    obtain ⟨k, v⟩ := e
    simp only [has, find, List.map_cons, List.mem_cons]
    by_cases e : k = p
    · simp [e]
    · have e' : ¬ p = k := fun x => e x.symm
      simp only [e, if_false, e', false_or]
      exact ih

theorem filter_not_mem_filter (q : List Str) (f : Str → Bool) :
    q.filter (fun a => decide (a ∉ q.filter f)) = q.filter (fun a => !f a) := by
  apply List.filter_congr
  intro a ha
  cases hf : f a <;> simp [List.mem_filter, ha, hf]

theorem canon_keys {a : Artifacts} (h : NormArtsP a) : a.map (fun e => canonPath e.1) = a.map Prod.fst := by
  apply List.map_congr_left
  intro e he
  exact (h.1 e he).1

theorem canonMap_id {a : Artifacts} (h : NormArtsP a) : canonMap a = a := by
  unfold canonMap
  have : ∀ e ∈ a, (fun (x : Str × Digest) => (canonPath x.1, x.2)) e = e := by
    intro e he
    obtain ⟨p, d⟩ := e
    simp [(h.1 (p, d) he).1]
  calc a.map (fun x => match x with | (p, d) => (canonPath p, d)) = a.map id := by
        apply List.map_congr_left
        intro e he
        obtain ⟨p, d⟩ := e
        simp [(h.1 (p, d) he).1]
    _ = a := List.map_id a

/-! ### prefixes and joins -/

theorem prefixOf_eq {s : Option Str} (h : PortablePrefixP s) : prefixOf s = withSlash s := by
  cases s with
  | none => rfl
  | some d =>
    obtain ⟨hne, hrel⟩ := h
    simp only [prefixOf, withSlash, pathPush, hrel, if_false]
    simp [List.isEmpty_nil]

theorem noDoubleSlash_cons_false (x : Char) {r : Str} (h : noDoubleSlash r = false) : noDoubleSlash (x :: r) = false := by
  rw [noDoubleSlash.eq_def]
  split
  · rfl
  · rename_i heq
    have := (List.cons.inj heq).2
    rw [← this]; exact h
  · rename_i heq; cases heq

theorem noDoubleSlash_append_slash_slash (xs ys : Str) : noDoubleSlash (xs ++ '/' :: '/' :: ys) = false := by
  induction xs with
  | nil => rfl
  | cons x r ih => exact noDoubleSlash_cons_false x ih

theorem stripPrefix_append {pre s b : Str} (h : stripPrefix pre s = some b) : s = pre ++ b := by
  induction pre generalizing s with
  | nil => simp [stripPrefix] at h; simp [h]
  | cons x r ih =>
    cases s with
    | nil => simp [stripPrefix] at h
    | cons y ys =>
      simp only [stripPrefix] at h
      split at h
      · rename_i e; subst e; simp [ih h]
      · cases h

/-- the destination path is the destination prefix followed by the stripped source path -/
theorem dstPath_eq {d : Option Str} (hd : PortablePrefixP d) {s : Option Str} {a base : Str}
    (hs : PortablePrefixP s) (ha : NormPathP a) (hb : stripPrefix (withSlash s) a = some base) :
    pathPush (pathPush [] (prefixOf d)) base = withSlash d ++ base := by
  have hbase : base.head? ≠ some '/' := by
    cases s with
    | none =>
      simp [withSlash, stripPrefix] at hb
      subst hb
      exact ha.2.1
    | some sd =>
      intro hh
      have e := stripPrefix_append hb
      cases base with
      | nil => simp at hh
      | cons c r =>
        simp at hh
        subst hh
        have : noDoubleSlash a = false := by
          rw [e]
          simp only [withSlash, List.append_assoc, List.cons_append, List.nil_append]
          exact noDoubleSlash_append_slash_slash sd r
        rw [ha.2.2] at this
        cases this
  rw [prefixOf_eq hd]
  cases d with
  | none =>
    simp only [withSlash, List.nil_append]
    simp only [pathPush]
    cases base with
    | nil => simp
    | cons c r =>
      have : c ≠ '/' := fun e => hbase (by simp [e])
      simp [this]
  | some dd =>
    obtain ⟨hne, hrel⟩ := hd
    have h1 : pathPush [] (withSlash (some dd)) = dd ++ ['/'] := by
      simp only [withSlash, pathPush]
      have : (dd ++ ['/']).head? ≠ some '/' := by
        cases dd with
        | nil => exact absurd rfl hne
        | cons c r => simpa using hrel
      simp [this]
    rw [h1]
    simp only [withSlash, pathPush]
    have hb' : ¬ base.head? = some '/' := hbase
    simp [hb']

end InToto.RulesSpec

namespace InToto.RulesSpec
open InToto.Rules

theorem findLink_mem {name : Str} {reduced : List (Str × LinkArts)} {l : LinkArts}
    (h : findLink name reduced = some l) : (name, l) ∈ reduced := by
  induction reduced with
  | nil => simp [findLink] at h
  | cons e r ih =>
    obtain ⟨n, x⟩ := e
    simp only [findLink] at h
    split at h
    · rename_i e; subst e; cases h; simp
    · exact List.mem_cons_of_mem _ (ih h)

/-- the sets the code precomputes, on a normalized link -/
def createdOf (src : LinkArts) : List Str :=
  (src.products.map Prod.fst).filter (· ∉ src.materials.map Prod.fst)
def deletedOf (src : LinkArts) : List Str :=
  (src.materials.map Prod.fst).filter (· ∉ src.products.map Prod.fst)
def modifiedOf (src : LinkArts) : List Str :=
  (src.materials.map Prod.fst).filter fun p =>
    p ∈ src.products.map Prod.fst && lookupLast p src.materials != lookupLast p src.products

theorem mem_createdOf {src : LinkArts} (a : Str) :
    decide (a ∈ createdOf src) = (has a src.products && !has a src.materials) := by
  have h1 := has_iff_mem a src.products
  have h2 := has_iff_mem a src.materials
  simp only [createdOf, List.mem_filter, decide_eq_true_eq]
  cases hp : has a src.products <;> cases hm : has a src.materials <;> simp_all

theorem mem_deletedOf {src : LinkArts} (a : Str) :
    decide (a ∈ deletedOf src) = (has a src.materials && !has a src.products) := by
  have h1 := has_iff_mem a src.products
  have h2 := has_iff_mem a src.materials
  simp only [deletedOf, List.mem_filter, decide_eq_true_eq]
  cases hp : has a src.products <;> cases hm : has a src.materials <;> simp_all

theorem mem_modifiedOf {src : LinkArts} (hm : NormArtsP src.materials) (hp : NormArtsP src.products) (a : Str) :
    decide (a ∈ modifiedOf src) =
      (has a src.materials && has a src.products && (find a src.materials != find a src.products)) := by
  have h1 := has_iff_mem a src.products
  have h2 := has_iff_mem a src.materials
  simp only [modifiedOf, List.mem_filter, Bool.and_eq_true, decide_eq_true_eq,
    lookupLast_eq_find hm.2, lookupLast_eq_find hp.2]
  cases hpp : has a src.products <;> cases hmm : has a src.materials <;>
    cases hd : (find a src.materials != find a src.products) <;> simp_all

/-- one rule: the code's step and the specification's step agree -/
theorem applyRule_refines (c : Ctx) (hm : NormArtsP c.src.materials) (hp : NormArtsP c.src.products)
    (ht : NormTableP c.reduced) (rule : Rule) (hr : PortableRuleP rule) (queue : List Str)
    (hq : ∀ a ∈ queue, NormPathP a) :
    match applyRule rule c.arts (createdOf c.src) (deletedOf c.src) (modifiedOf c.src) queue c.reduced,
          step c rule queue with
    | .ok consumed, some q' => queue.filter (fun a => decide (a ∉ consumed)) = q'
    | .err _, none => True
    | _, _ => False := by
  have hfilt : ∀ (f g : Str → Bool), (∀ a ∈ queue, f a = g a) →
      queue.filter (fun a => decide (a ∉ queue.filter f)) = queue.filter (fun a => !g a) := by
    intro f g hfg
    rw [filter_not_mem_filter]
    apply List.filter_congr
    intro a ha
    rw [hfg a ha]
  cases rule with
  | allow p =>
    simp only [applyRule, step, Rule.pattern]
    exact hfilt _ _ (fun a _ => by simp [consumes, matchesP, pathMatches])
  | create p =>
    simp only [applyRule, step, Rule.pattern, List.filter_filter]
    apply hfilt
    intro a _
    simp only [consumes, matchesP, pathMatches, mem_createdOf]
    cases (Glob.globMatch p a == some true) <;> simp
  | delete p =>
    simp only [applyRule, step, Rule.pattern, List.filter_filter]
    apply hfilt
    intro a _
    simp only [consumes, matchesP, pathMatches, mem_deletedOf]
    cases (Glob.globMatch p a == some true) <;> simp
  | modify p =>
    simp only [applyRule, step, Rule.pattern, List.filter_filter]
    apply hfilt
    intro a _
    simp only [consumes, matchesP, pathMatches, mem_modifiedOf hm hp]
    cases (Glob.globMatch p a == some true) <;> simp [Bool.and_assoc]
  | require p =>
    by_cases h : p ∈ queue <;> simp [applyRule, step, h]
  | disallow p =>
    by_cases hpn : (Glob.parse p).isNone = true
    · simp [applyRule, step, hpn]
    · have hiff : (queue.filter fun q => pathMatches p q == some true).isEmpty = !queue.any (matchesP p) := by
        cases ha : queue.any (matchesP p) with
        | false =>
          simp only [Bool.not_false, List.isEmpty_iff]
          apply List.filter_eq_nil_iff.mpr
          intro a hmem
          have := List.any_eq_false.mp ha a hmem
          simpa [matchesP, pathMatches] using this
        | true =>
          simp only [Bool.not_true]
          obtain ⟨a, hmem, hma⟩ := List.any_eq_true.mp ha
          cases hl : queue.filter fun q => pathMatches p q == some true with
          | nil =>
            have : a ∈ queue.filter fun q => pathMatches p q == some true :=
              List.mem_filter.mpr ⟨hmem, by simpa [matchesP, pathMatches] using hma⟩
            rw [hl] at this; simp at this
          | cons _ _ => rfl
      simp only [applyRule, step, Rule.pattern, hpn, if_false, hiff]
      cases queue.any (matchesP p) <;> simp
  | matchR pattern inSrc with_ inDst from_ =>
    obtain ⟨hps, hpd⟩ := hr
    simp only [applyRule, step]
    unfold verifyMatch
    cases hfl : findLink from_ c.reduced with
    | none =>
      simp only
      have : queue.filter (fun a => !consumes c (.matchR pattern inSrc with_ inDst from_) a) = queue := by
        apply List.filter_eq_self.mpr
        intro a _
        simp only [consumes, hfl]
        split <;> simp
      rw [this]
      simp
    | some dst =>
      simp only
      apply hfilt
      intro a ha
      have hna := hq a ha
      have hdstN := ht (from_, dst) (findLink_mem hfl)
      simp only [consumes, hfl, prefixOf_eq hps]
      cases hsp : stripPrefix (withSlash inSrc) a with
      | none => rfl
      | some base =>
        simp only
        have hdp := dstPath_eq hpd hps hna hsp
        rw [hdp]
        have hsrcN : NormArtsP c.arts := by
          unfold Ctx.arts; cases c.kind <;> assumption
        cases with_ with
        | materials =>
          simp only
          rw [canonMap_id hsrcN, canonMap_id hdstN.1, lookupLast_eq_find hdstN.1.2, lookupLast_eq_find hsrcN.2]
          simp only [matchesP, pathMatches]
          cases hgm : Glob.globMatch pattern base with
          | none => simp
          | some b =>
            cases b with
            | false => simp
            | true =>
              simp only [beq_self_eq_true, Bool.true_and]
              cases find (withSlash inDst ++ base) dst.materials <;> rfl
        | products =>
          simp only
          rw [canonMap_id hsrcN, canonMap_id hdstN.2, lookupLast_eq_find hdstN.2.2, lookupLast_eq_find hsrcN.2]
          simp only [matchesP, pathMatches]
          cases hgm : Glob.globMatch pattern base with
          | none => simp
          | some b =>
            cases b with
            | false => simp
            | true =>
              simp only [beq_self_eq_true, Bool.true_and]
              cases find (withSlash inDst ++ base) dst.products <;> rfl

end InToto.RulesSpec

namespace InToto.RulesSpec
open InToto.Rules

/-- the rule loop: the code's verdict and the specification's verdict agree on every queue of
    normalized paths -/
theorem applyRules_refines (c : Ctx) (hm : NormArtsP c.src.materials) (hp : NormArtsP c.src.products)
    (ht : NormTableP c.reduced) (rules : List Rule) (hr : ∀ r ∈ rules, PortableRuleP r) (queue : List Str)
    (hq : ∀ a ∈ queue, NormPathP a) :
    (applyRules rules c.arts (createdOf c.src) (deletedOf c.src) (modifiedOf c.src) c.reduced queue).isOk
      = run c rules queue := by
  induction rules generalizing queue with
  | nil => simp [applyRules, run, Out.isOk]
  | cons rule rest ih =>
    have hstep := applyRule_refines c hm hp ht rule (hr rule (by simp)) queue hq
    simp only [applyRules, run]
    cases ha : applyRule rule c.arts (createdOf c.src) (deletedOf c.src) (modifiedOf c.src) queue c.reduced with
    | ok consumed =>
      cases hs : step c rule queue with
      | none => rw [ha, hs] at hstep; exact absurd hstep id
      | some q' =>
        rw [ha, hs] at hstep
        simp only at hstep
        subst hstep
        simp only
        apply ih (fun r hr' => hr r (by simp [hr']))
        intro a ha'
        exact hq a (List.mem_filter.mp ha').1
    | err code =>
      cases hs : step c rule queue with
      | none => simp [Out.isOk]
      | some q' => rw [ha, hs] at hstep; exact absurd hstep id
    | panic s =>
      rw [ha] at hstep
      cases hs : step c rule queue <;> rw [hs] at hstep <;> exact absurd hstep id

/-- The code's accept/reject decision for an item equals the outcome of the specification's
    rule-processing algorithm, on normalized relative paths and portable rules. -/
theorem applyRulesOnLink_refines (item : Item) (reduced : List (Str × LinkArts))
    (ht : NormTableP reduced)
    (hrm : ∀ r ∈ item.expMaterials, PortableRuleP r) (hrp : ∀ r ∈ item.expProducts, PortableRuleP r) :
    (applyRulesOnLink item reduced).isOk = verdict item reduced := by
  unfold applyRulesOnLink verdict
  cases hfl : findLink item.name reduced with
  | none => simp [Out.isOk]
  | some src =>
    have hsrc := ht (item.name, src) (findLink_mem hfl)
    obtain ⟨hm, hp⟩ := hsrc
    simp only at hm hp
    have hM : dedup (src.materials.map fun x => match x with | (p, _) => canonPath p) = src.materials.map Prod.fst := by
      have : (src.materials.map fun x => match x with | (p, _) => canonPath p) = src.materials.map (fun e => canonPath e.1) := by
        apply List.map_congr_left; intro e _; obtain ⟨p, d⟩ := e; rfl
      rw [this, canon_keys hm, dedup_of_nodup hm.2]
    have hP : dedup (src.products.map fun x => match x with | (p, _) => canonPath p) = src.products.map Prod.fst := by
      have : (src.products.map fun x => match x with | (p, _) => canonPath p) = src.products.map (fun e => canonPath e.1) := by
        apply List.map_congr_left; intro e _; obtain ⟨p, d⟩ := e; rfl
      rw [this, canon_keys hp, dedup_of_nodup hp.2]
    simp only [hM, hP, canonMap_id hm, canonMap_id hp]
    have h1 := applyRules_refines ⟨.materials, src, reduced⟩ hm hp ht item.expMaterials hrm
      (src.materials.map Prod.fst) (by
        intro a ha
        obtain ⟨e, he, rfl⟩ := List.mem_map.mp ha
        exact hm.1 e he)
    have h2 := applyRules_refines ⟨.products, src, reduced⟩ hm hp ht item.expProducts hrp
      (src.products.map Prod.fst) (by
        intro a ha
        obtain ⟨e, he, rfl⟩ := List.mem_map.mp ha
        exact hp.1 e he)
    simp only [Ctx.arts, createdOf, deletedOf, modifiedOf] at h1 h2
    rw [← h1, ← h2]
    cases hr1 : applyRules item.expMaterials src.materials
        ((src.products.map Prod.fst).filter (· ∉ src.materials.map Prod.fst))
        ((src.materials.map Prod.fst).filter (· ∉ src.products.map Prod.fst))
        ((src.materials.map Prod.fst).filter fun p =>
          p ∈ src.products.map Prod.fst && lookupLast p src.materials != lookupLast p src.products)
        reduced (src.materials.map Prod.fst) with
    | ok u => cases u; simp [Out.isOk]
    | err c => simp [Out.isOk]
    | panic s => simp [Out.isOk]

end InToto.RulesSpec
