import InTotoModel.Model.Decimal
namespace InToto

theorem digitByte_toNat {d : Nat} (h : d < 10) : (digitByte d).toNat = 48 + d := by
  unfold digitByte
  rw [UInt8.toNat_ofNat']
  omega

theorem isDigitByte_digitByte {d : Nat} (h : d < 10) : isDigitByte (digitByte d) = true := by
  unfold isDigitByte
  rw [digitByte_toNat h]
  simp
  omega

theorem toDec_ne_nil (n : Nat) : toDec n ≠ [] := by
  rw [toDec]
  split <;> simp

theorem toDec_all_digits (n : Nat) : ∀ b ∈ toDec n, isDigitByte b = true := by
  induction n using Nat.strongRecOn with
  | ind n ih =>
    rw [toDec]
    split
    · intro b hb
      simp at hb
      subst hb
      exact isDigitByte_digitByte (by omega)
    · intro b hb
      simp at hb
      rcases hb with hb | hb
      · exact ih (n / 10) (by omega) b hb
      · subst hb
        exact isDigitByte_digitByte (by omega)

theorem isDigitByte_ne_sp {b : UInt8} (h : isDigitByte b = true) : b ≠ 32 := by
  intro hb; subst hb; simp [isDigitByte] at h

theorem isDigitByte_ne_plus {b : UInt8} (h : isDigitByte b = true) : b ≠ 43 := by
  intro hb; subst hb; simp [isDigitByte] at h

theorem foldDigits_append (xs ys : Bytes) (acc : Nat) :
    foldDigits (xs ++ ys) acc = (foldDigits xs acc).bind (foldDigits ys) := by
  induction xs generalizing acc with
  | nil => simp [foldDigits]
  | cons x xs ih =>
    simp only [List.cons_append, foldDigits]
    split
    · exact ih _
    · rfl

theorem foldDigits_toDec (n : Nat) : foldDigits (toDec n) 0 = some n := by
  induction n using Nat.strongRecOn with
  | ind n ih =>
    rw [toDec]
    split
    · rename_i h
      simp [foldDigits, isDigitByte_digitByte h, digitByte_toNat h]
    · rename_i h
      have hd : n % 10 < 10 := by omega
      rw [foldDigits_append, ih (n / 10) (by omega)]
      simp [foldDigits, isDigitByte_digitByte hd, digitByte_toNat hd]
      omega

theorem parseUsize_toDec {n : Nat} (h : n < usizeBound) : parseUsize (toDec n) = some n := by
  unfold parseUsize
  have hne := toDec_ne_nil n
  have hall := toDec_all_digits n
  cases hd : toDec n with
  | nil => exact absurd hd hne
  | cons b bs =>
    have hb : isDigitByte b = true := hall b (by rw [hd]; simp)
    have hb43 : b ≠ 43 := isDigitByte_ne_plus hb
    have hfold := foldDigits_toDec n
    rw [hd] at hfold
    split
    · rename_i r heq
      cases heq
      exact absurd rfl hb43
    · simp [hfold, h]

theorem takeWhile_toDec (n : Nat) (rest : Bytes) :
    (toDec n ++ (32 :: rest)).takeWhile (· != (32 : UInt8)) = toDec n := by
  have hall := toDec_all_digits n
  generalize toDec n = l at hall
  induction l with
  | nil => simp
  | cons x xs ih =>
    have hx : x ≠ 32 := isDigitByte_ne_sp (hall x (by simp))
    simp [hx]
    exact ih (fun b hb => hall b (by simp [hb]))

theorem dropWhile_toDec (n : Nat) (rest : Bytes) :
    (toDec n ++ (32 :: rest)).dropWhile (· != (32 : UInt8)) = 32 :: rest := by
  have hall := toDec_all_digits n
  generalize toDec n = l at hall
  induction l with
  | nil => simp
  | cons x xs ih =>
    have hx : x ≠ 32 := isDigitByte_ne_sp (hall x (by simp))
    simp [hx]
    exact ih (fun b hb => hall b (by simp [hb]))

end InToto
