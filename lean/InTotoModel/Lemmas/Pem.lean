import InTotoModel.Model.Pem
/-
  The PEM text the library writes for a key reads back as that key's DER bytes:
  canonical base64 decodes what `base64` encodes, `read_until` finds the framing, the wrapped body
  carries no blank line and loses only its line breaks.
-/
namespace InToto.Pem
open InToto InToto.KeyId

/-! ### base64 -/

theorem b64Val_b64Char : ∀ n : Fin 64, b64Val (b64Char n.val) = some n.val := by decide

theorem b64Val_b64Char' {n : Nat} (h : n < 64) : b64Val (b64Char n) = some n := b64Val_b64Char ⟨n, h⟩

theorem b64Char_ne_eq : ∀ n : Fin 64, b64Char n.val ≠ '=' := by decide

theorem b64Char_ne_eq' {n : Nat} (h : n < 64) : b64Char n ≠ '=' := b64Char_ne_eq ⟨n, h⟩

theorem u8_ofNat_toNat (a : UInt8) : UInt8.ofNat a.toNat = a := by
  cases a; simp [UInt8.ofNat, UInt8.toNat]

theorem u8_lt (a : UInt8) : a.toNat < 256 := a.toNat_lt

/-- one full group: three bytes ↔ four symbols -/
theorem group3 (a b c : UInt8) :
    let x := a.toNat / 4
    let y := a.toNat % 4 * 16 + b.toNat / 16
    let z := b.toNat % 16 * 4 + c.toNat / 64
    let w := c.toNat % 64
    UInt8.ofNat (x * 4 + y / 16) = a ∧ UInt8.ofNat (y % 16 * 16 + z / 4) = b ∧ UInt8.ofNat (z % 4 * 64 + w) = c := by
  intro x y z w
  have ha := u8_lt a; have hb := u8_lt b; have hc := u8_lt c
  refine ⟨?_, ?_, ?_⟩
  · have : x * 4 + y / 16 = a.toNat := by simp only [x, y]; omega
    rw [this, u8_ofNat_toNat]
  · have : y % 16 * 16 + z / 4 = b.toNat := by simp only [y, z]; omega
    rw [this, u8_ofNat_toNat]
  · have : z % 4 * 64 + w = c.toNat := by simp only [z, w]; omega
    rw [this, u8_ofNat_toNat]

theorem b64Decode_base64 : ∀ (bs : Bytes), b64Decode (base64 bs) = some bs
  | [] => rfl
  | [a] => by
    have ha := u8_lt a
    have v1 := b64Val_b64Char' (show a.toNat / 4 < 64 by omega)
    have v2 := b64Val_b64Char' (show a.toNat % 4 * 16 < 64 by omega)
    have h0 : a.toNat % 4 * 16 % 16 = 0 := by omega
    have h1 : a.toNat / 4 * 4 + a.toNat % 4 * 16 / 16 = a.toNat := by omega
    simp only [base64, b64Decode, and_self, if_true, v1, v2, h0, h1, u8_ofNat_toNat]
  | [a, b] => by
    have ha := u8_lt a; have hb := u8_lt b
    have e3 : b64Char (b.toNat % 16 * 4) ≠ '=' := b64Char_ne_eq' (by omega)
    have v1 := b64Val_b64Char' (show a.toNat / 4 < 64 by omega)
    have v2 := b64Val_b64Char' (show a.toNat % 4 * 16 + b.toNat / 16 < 64 by omega)
    have v3 := b64Val_b64Char' (show b.toNat % 16 * 4 < 64 by omega)
    have h0 : b.toNat % 16 * 4 % 4 = 0 := by omega
    have h1 : a.toNat / 4 * 4 + (a.toNat % 4 * 16 + b.toNat / 16) / 16 = a.toNat := by omega
    have h2 : (a.toNat % 4 * 16 + b.toNat / 16) % 16 * 16 + b.toNat % 16 * 4 / 4 = b.toNat := by omega
    simp only [base64, b64Decode, e3, false_and, and_false, if_false, and_self, if_true, v1, v2, v3, h0, h1, h2,
      u8_ofNat_toNat]
  | a :: b :: c :: r => by
    have ha := u8_lt a; have hb := u8_lt b; have hc := u8_lt c
    have ih := b64Decode_base64 r
    have e4 : b64Char (c.toNat % 64) ≠ '=' := b64Char_ne_eq' (by omega)
    have v1 := b64Val_b64Char' (show a.toNat / 4 < 64 by omega)
    have v2 := b64Val_b64Char' (show a.toNat % 4 * 16 + b.toNat / 16 < 64 by omega)
    have v3 := b64Val_b64Char' (show b.toNat % 16 * 4 + c.toNat / 64 < 64 by omega)
    have v4 := b64Val_b64Char' (show c.toNat % 64 < 64 by omega)
    obtain ⟨g1, g2, g3⟩ := group3 a b c
    simp only [base64, b64Decode, e4, and_false, if_false, v1, v2, v3, v4, ih, g1, g2, g3]

/-! ### `read_until` -/

theorem readUntilGo_match (m pre rest : Str) :
    ∀ (n k : Nat), n = m.length - k → k < m.length →
      readUntilGo m (m.drop k ++ rest) k ((m.take k).reverse ++ pre.reverse) = some (rest, pre) := by
  intro n
  induction n with
  | zero => intro k hn hk; omega
  | succ n ih =>
    intro k hn hk
    have hd : m.drop k = m[k] :: m.drop (k + 1) := List.drop_eq_getElem_cons hk
    have hg : m[k]? = some m[k] := List.getElem?_eq_getElem hk
    rw [hd]
    simp only [List.cons_append, readUntilGo]
    have hlen : ¬ ((m[k] :: (m.drop (k + 1) ++ rest)).length < m.length - k) := by
      simp only [List.length_cons, List.length_append, List.length_drop]; omega
    rw [if_neg hlen]
    simp only [hg, if_true]
    by_cases hend : k + 1 = m.length
    · rw [if_pos hend]
      have hdrop : m.drop (k + 1) = [] := List.drop_eq_nil_of_le (by omega)
      have htake : m.take k ++ [m[k]] = m := by
        have := List.take_append_drop k m
        rw [hd, hdrop] at this
        simpa using this
      simp only [hdrop, List.nil_append, List.reverse_append, List.reverse_reverse, List.length_append,
        List.length_reverse, List.length_take, Option.some.injEq, Prod.mk.injEq, true_and]
      rw [List.append_assoc, htake]
      have : min k m.length + pre.length + 1 - (k + 1) = pre.length := by omega
      rw [this]
      exact List.take_left' rfl
    · rw [if_neg hend]
      have hseen : m[k] :: ((m.take k).reverse ++ pre.reverse) = (m.take (k + 1)).reverse ++ pre.reverse := by
        have hts : m.take (k + 1) = m.take k ++ [m[k]] := by
          rw [List.take_succ, hg]; rfl
        simp only [hts, List.reverse_append, List.reverse_cons, List.reverse_nil, List.nil_append, List.cons_append,
          List.singleton_append]
      rw [hseen]
      exact ih (k + 1) (by omega) (by omega)

theorem readUntilGo_pre (m rest : Str) (hm : m ≠ []) :
    ∀ (p2 p1 : Str), (∀ c ∈ p2, m[0]? ≠ some c) →
      readUntilGo m (p2 ++ (m ++ rest)) 0 p1.reverse = some (rest, p1 ++ p2)
  | [], p1, _ => by
    have hpos : 0 < m.length := List.length_pos_iff.mpr hm
    have := readUntilGo_match m p1 rest m.length 0 (by omega) hpos
    simpa using this
  | c :: p2, p1, h => by
    have hpos : 0 < m.length := List.length_pos_iff.mpr hm
    simp only [List.cons_append, readUntilGo]
    have hlen : ¬ ((c :: (p2 ++ (m ++ rest))).length < m.length - 0) := by
      simp only [List.length_cons, List.length_append]; omega
    rw [if_neg hlen, if_neg (h c (by simp))]
    have h0 : ¬ (0 = m.length) := by omega
    simp only [h0, if_false]
    have := readUntilGo_pre m rest hm p2 (p1 ++ [c]) (fun d hd => h d (by simp [hd]))
    simpa using this

/-- `read_until` finds the first occurrence of the marker when nothing before it begins like it. -/
theorem readUntil_found (m pre rest : Str) (hm : m ≠ []) (hpre : ∀ c ∈ pre, m[0]? ≠ some c) :
    readUntil m (pre ++ (m ++ rest)) = some (rest, pre) := by
  unfold readUntil
  have : m.isEmpty = false := by cases m <;> simp_all
  rw [this]
  simpa using readUntilGo_pre m rest hm pre [] hpre

/-! ### the characters of a base64 body -/

/-- a base64 symbol or the padding character -/
def Sym (c : Char) : Prop := (∃ n, n < 64 ∧ c = b64Char n) ∨ c = '='

theorem sym_facts_fin : ∀ n : Fin 64,
    b64Char n.val ≠ '-' ∧ b64Char n.val ≠ '\n' ∧ b64Char n.val ≠ '\r' ∧ isUniWs (b64Char n.val) = false ∧
      isPemWs (b64Char n.val) = false := by decide

theorem sym_facts {c : Char} (h : Sym c) :
    c ≠ '-' ∧ c ≠ '\n' ∧ c ≠ '\r' ∧ isUniWs c = false ∧ isPemWs c = false := by
  rcases h with ⟨n, hn, rfl⟩ | rfl
  · exact sym_facts_fin ⟨n, hn⟩
  · decide

theorem base64_syms : ∀ (bs : Bytes) (c : Char), c ∈ base64 bs → Sym c
  | [], c, h => by simp [base64] at h
  | [a], c, h => by
    have ha := u8_lt a
    simp only [base64, List.mem_cons, List.not_mem_nil, or_false] at h
    rcases h with rfl | rfl | rfl | rfl
    · exact Or.inl ⟨_, by omega, rfl⟩
    · exact Or.inl ⟨_, by omega, rfl⟩
    · exact Or.inr rfl
    · exact Or.inr rfl
  | [a, b], c, h => by
    have ha := u8_lt a; have hb := u8_lt b
    simp only [base64, List.mem_cons, List.not_mem_nil, or_false] at h
    rcases h with rfl | rfl | rfl | rfl
    · exact Or.inl ⟨_, by omega, rfl⟩
    · exact Or.inl ⟨_, by omega, rfl⟩
    · exact Or.inl ⟨_, by omega, rfl⟩
    · exact Or.inr rfl
  | a :: b :: d :: r, c, h => by
    have ha := u8_lt a; have hb := u8_lt b; have hd := u8_lt d
    simp only [base64, List.mem_cons] at h
    rcases h with rfl | rfl | rfl | rfl | h
    · exact Or.inl ⟨_, by omega, rfl⟩
    · exact Or.inl ⟨_, by omega, rfl⟩
    · exact Or.inl ⟨_, by omega, rfl⟩
    · exact Or.inl ⟨_, by omega, rfl⟩
    · exact base64_syms r c h

theorem base64_ne_nil {bs : Bytes} (h : bs ≠ []) : base64 bs ≠ [] := by
  match bs, h with
  | [a], _ => simp [base64]
  | [a, b], _ => simp [base64]
  | a :: b :: c :: r, _ => simp [base64]

/-! ### the wrapped body -/

/-- no blank line and no carriage return: the payload is all data, no headers -/
def okText : Str → Bool
  | [] => true
  | [_] => true
  | a :: b :: r => if a = '\r' then false else if a = '\n' ∧ b = '\n' then false else okText (b :: r)

theorem okText_sym_cons {c : Char} (hc : Sym c) (t : Str) : okText (c :: t) = okText t ∨ t = [] := by
  cases t with
  | nil => right; rfl
  | cons b r =>
    left
    have f := sym_facts hc
    simp only [okText, if_neg f.2.2.1, f.2.1, false_and, if_false]

theorem okText_syms_append : ∀ (s : Str), (∀ c ∈ s, Sym c) → ∀ t : Str, t ≠ [] → okText (s ++ t) = okText t
  | [], _, _, _ => rfl
  | c :: s, h, t, ht => by
    have hc := h c (by simp)
    rcases okText_sym_cons hc (s ++ t) with e | e
    · rw [List.cons_append, e]; exact okText_syms_append s (fun d hd => h d (by simp [hd])) t ht
    · cases s <;> simp_all

theorem wrap64_head : ∀ (f : Nat) (s : Str) (c : Char) (r : Str), s = c :: r → ∃ r', wrap64 f s = c :: r'
  | 0, _, c, r, h => ⟨r, by simp [wrap64, h]⟩
  | f + 1, s, c, r, h => by
    simp only [wrap64]
    split
    · exact ⟨r, h⟩
    · subst h
      exact ⟨(r.take 63) ++ '\n' :: wrap64 f ((c :: r).drop 64), by simp⟩

theorem wrap64_ok : ∀ (f : Nat) (s : Str), s ≠ [] → (∀ c ∈ s, Sym c) → okText (wrap64 f s ++ ['\n']) = true
  | 0, s, _, h => by
    rw [wrap64, okText_syms_append s h ['\n'] (by simp)]; rfl
  | f + 1, s, hne, h => by
    simp only [wrap64]
    split
    · rw [okText_syms_append s h ['\n'] (by simp)]; rfl
    · rename_i hlen
      have hdrop : s.drop 64 ≠ [] := by
        intro e
        have := congrArg List.length e
        simp only [List.length_drop, List.length_nil] at this
        omega
      obtain ⟨c, r, hcr⟩ := List.exists_cons_of_ne_nil hdrop
      have hsyd : ∀ d ∈ s.drop 64, Sym d := fun d hd => h d (List.mem_of_mem_drop hd)
      obtain ⟨r', hw⟩ := wrap64_head f (s.drop 64) c r hcr
      have ih := wrap64_ok f (s.drop 64) hdrop hsyd
      rw [List.append_assoc, okText_syms_append (s.take 64) (fun d hd => h d (List.mem_of_mem_take hd)) _ (by simp)]
      rw [List.cons_append, hw] at *
      have hc : Sym c := hsyd c (by rw [hcr]; simp)
      have f' := sym_facts hc
      simp only [List.cons_append, okText]
      rw [if_neg (by decide)]
      rw [if_neg (by intro hh; exact f'.2.1 hh.2)]
      simpa using ih

theorem filter_syms : ∀ (s : Str), (∀ c ∈ s, Sym c) → s.filter (fun c => !isUniWs c) = s
  | [], _ => rfl
  | c :: s, h => by
    have f := sym_facts (h c (by simp))
    simp only [List.filter, f.2.2.2.1, Bool.not_false]
    rw [filter_syms s (fun d hd => h d (by simp [hd]))]

theorem wrap64_filter : ∀ (f : Nat) (s : Str), (∀ c ∈ s, Sym c) →
    (wrap64 f s ++ ['\n']).filter (fun c => !isUniWs c) = s
  | 0, s, h => by
    rw [wrap64, List.filter_append, filter_syms s h]
    have : (['\n'] : Str).filter (fun c => !isUniWs c) = [] := by decide
    rw [this, List.append_nil]
  | f + 1, s, h => by
    simp only [wrap64]
    split
    · rw [List.filter_append, filter_syms s h]
      have : (['\n'] : Str).filter (fun c => !isUniWs c) = [] := by decide
      rw [this, List.append_nil]
    · have ih := wrap64_filter f (s.drop 64) (fun d hd => h d (List.mem_of_mem_drop hd))
      rw [List.append_assoc, List.filter_append, filter_syms _ (fun d hd => h d (List.mem_of_mem_take hd))]
      rw [List.cons_append, List.filter_cons]
      have : (!isUniWs '\n') = false := by decide
      rw [this]
      simp only [Bool.false_eq_true, if_false]
      rw [ih, List.take_append_drop]

theorem wrap64_chars : ∀ (f : Nat) (s : Str) (c : Char), c ∈ wrap64 f s → c ∈ s ∨ c = '\n'
  | 0, s, c, h => Or.inl (by simpa [wrap64] using h)
  | f + 1, s, c, h => by
    simp only [wrap64] at h
    split at h
    · exact Or.inl h
    · rcases List.mem_append.mp h with h' | h'
      · exact Or.inl (List.mem_of_mem_take h')
      · rcases List.mem_cons.mp h' with rfl | h''
        · exact Or.inr rfl
        · rcases wrap64_chars f _ c h'' with h3 | h3
          · exact Or.inl (List.mem_of_mem_drop h3)
          · exact Or.inr h3

/-! ### a text without a blank line has no header section -/

theorem splitAt_nn_none : ∀ (t seen : Str), okText t = true → splitAt "\n\n".toList t seen = none
  | [], _, _ => rfl
  | [a], seen, _ => by
    simp only [splitAt]
    have : ("\n\n".toList).isPrefixOf [a] = false := by
      show List.isPrefixOf ['\n', '\n'] [a] = false
      simp [List.isPrefixOf]
    rw [this]; rfl
  | a :: b :: r, seen, h => by
    simp only [okText] at h
    split at h
    · cases h
    · rename_i h1
      split at h
      · cases h
      · rename_i h2
        simp only [splitAt]
        have : ("\n\n".toList).isPrefixOf (a :: b :: r) = false := by
          show List.isPrefixOf ['\n', '\n'] (a :: b :: r) = false
          simp only [List.isPrefixOf, Bool.and_eq_false_imp, beq_iff_eq]
          intro e1
          by_cases e2 : b = '\n'
          · exact absurd ⟨e1.symm, e2⟩ h2
          · simp [Ne.symm e2]
        rw [this]
        exact splitAt_nn_none (b :: r) (a :: seen) h

theorem okText_no_cr : ∀ (t : Str), okText t = true → t.length ≥ 2 → ∀ c ∈ t.dropLast, c ≠ '\r'
  | [], _, _ => by intro c hc; cases hc
  | [a], _, hl => by simp at hl
  | a :: b :: r, h, _ => by
    simp only [okText] at h
    split at h
    · cases h
    · rename_i h1
      split at h
      · cases h
      · intro c hc
        simp only [List.dropLast_cons₂, List.mem_cons] at hc
        rcases hc with rfl | hc
        · exact h1
        · cases r with
          | nil => simp at hc
          | cons d r' => exact okText_no_cr (b :: d :: r') h (by simp) c hc

theorem splitAt_rnrn_none : ∀ (t seen : Str), (∀ c ∈ t, c ≠ '\r') → splitAt "\r\n\r\n".toList t seen = none
  | [], _, _ => rfl
  | a :: r, seen, h => by
    simp only [splitAt]
    have ha : a ≠ '\r' := h a (by simp)
    have : ("\r\n\r\n".toList).isPrefixOf (a :: r) = false := by
      show List.isPrefixOf ['\r', '\n', '\r', '\n'] (a :: r) = false
      simp [List.isPrefixOf, Ne.symm ha]
    rw [this]
    exact splitAt_rnrn_none r (a :: seen) (fun c hc => h c (by simp [hc]))

/-! ### the PEM text of a key reads back -/

theorem skipWs_sym {c : Char} (hc : Sym c) (r : Str) : skipWs ('\n' :: c :: r) = c :: r := by
  have f := sym_facts hc
  have h1 : isPemWs '\n' = true := by decide
  rw [skipWs, if_pos h1, skipWs]
  simp only [f.2.2.2.2, Bool.false_eq_true, if_false]

/-- `pem::parse` on the text the library writes for the DER bytes of a key returns those bytes. -/
theorem parse_pemPublicKey (der : Bytes) (hne : der ≠ []) :
    parse (pemPublicKey der) = some ("PUBLIC KEY".toList, der) := by
  have hsym := base64_syms der
  have hb := base64_ne_nil hne
  obtain ⟨c0, r0, hcr0⟩ := List.exists_cons_of_ne_nil hb
  generalize hW : wrap64 (base64 der).length (base64 der) = W
  obtain ⟨rw0, hw0⟩ := wrap64_head (base64 der).length (base64 der) c0 r0 hcr0
  rw [hW] at hw0
  have hc0 : Sym c0 := hsym c0 (by rw [hcr0]; simp)
  have hWchars : ∀ c ∈ W ++ ['\n'], ("-----END ".toList)[0]? ≠ some c := by
    intro c hc
    have : c ≠ '-' := by
      rcases List.mem_append.mp hc with h | h
      · rw [← hW] at h
        rcases wrap64_chars _ _ c h with h' | h'
        · exact (sym_facts (hsym c h')).1
        · rw [h']; decide
      · simp only [List.mem_singleton] at h; rw [h]; decide
    intro e
    have : some '-' = some c := e
    exact absurd (Option.some.inj this).symm ‹c ≠ '-'›
  -- the text, framed
  have htext : pemPublicKey der =
      [] ++ ("-----BEGIN ".toList ++ ("PUBLIC KEY".toList ++ ("-----".toList ++
        ('\n' :: (W ++ ['\n'] ++ ("-----END ".toList ++ ("PUBLIC KEY".toList ++ ("-----".toList ++ []))))))))  := by
    unfold pemPublicKey
    simp only [hW]
    simp [List.append_assoc]
  unfold parse
  rw [htext, readUntil_found _ [] _ (by decide) (by intro c hc; cases hc)]
  simp only
  rw [readUntil_found "-----".toList "PUBLIC KEY".toList _ (by decide) (by decide)]
  simp only
  have hskip : skipWs ('\n' :: (W ++ ['\n'] ++ ("-----END ".toList ++ ("PUBLIC KEY".toList ++ ("-----".toList ++ []))))) =
      (W ++ ['\n']) ++ ("-----END ".toList ++ ("PUBLIC KEY".toList ++ ("-----".toList ++ []))) := by
    rw [hw0]
    simp only [List.cons_append]
    exact skipWs_sym hc0 _
  rw [hskip, readUntil_found "-----END ".toList (W ++ ['\n']) _ (by decide) hWchars]
  simp only
  rw [readUntil_found "-----".toList "PUBLIC KEY".toList [] (by decide) (by decide)]
  simp only
  have htags : ¬ ("PUBLIC KEY".toList.isEmpty = true ∨ "PUBLIC KEY".toList.isEmpty = true ∨ "PUBLIC KEY".toList ≠ "PUBLIC KEY".toList) := by
    decide
  rw [if_neg htags]
  have hok : okText (W ++ ['\n']) = true := by rw [← hW]; exact wrap64_ok _ _ hb hsym
  have hnocr : ∀ c ∈ W ++ ['\n'], c ≠ '\r' := by
    intro c hc
    rcases List.mem_append.mp hc with h | h
    · rw [← hW] at h
      rcases wrap64_chars _ _ c h with h' | h'
      · exact (sym_facts (hsym c h')).2.2.1
      · rw [h']; decide
    · simp only [List.mem_singleton] at h; rw [h]; decide
  rw [splitAt_nn_none _ [] hok, splitAt_rnrn_none _ [] hnocr]
  simp only
  have hfilter : (W ++ ['\n']).filter (fun c => !isUniWs c) = base64 der := by
    rw [← hW]; exact wrap64_filter _ _ hsym
  rw [hfilter, b64Decode_base64]
  simp [linesOf, linesOf.go]

/-- The PEM writer is injective (on keys, whose DER is never empty). -/
theorem pemPublicKey_injective {a b : Bytes} (ha : a ≠ []) (hb : b ≠ []) (h : pemPublicKey a = pemPublicKey b) : a = b := by
  have h1 := parse_pemPublicKey a ha
  have h2 := parse_pemPublicKey b hb
  rw [h, h2] at h1
  exact ((Prod.mk.injEq _ _ _ _).mp (Option.some.inj h1)).2.symm

theorem wrap64_length_ge : ∀ (f : Nat) (s : Str), s.length ≤ (wrap64 f s).length
  | 0, s => by simp [wrap64]
  | f + 1, s => by
    simp only [wrap64]
    split
    · exact Nat.le_refl _
    · have ih := wrap64_length_ge f (s.drop 64)
      simp only [List.length_append, List.length_cons, List.length_take, List.length_drop] at ih ⊢
      omega

theorem pemPublicKey_length (d : Bytes) :
    (pemPublicKey d).length = "-----BEGIN PUBLIC KEY-----\n".toList.length +
      (wrap64 (base64 d).length (base64 d)).length + "\n-----END PUBLIC KEY-----".toList.length := by
  unfold pemPublicKey
  simp only [List.length_append]

theorem pemPublicKey_injective_all (a b : Bytes) (h : pemPublicKey a = pemPublicKey b) : a = b := by
  have hl := congrArg List.length h
  rw [pemPublicKey_length, pemPublicKey_length] at hl
  generalize "-----BEGIN PUBLIC KEY-----\n".toList.length = c1 at hl
  generalize "\n-----END PUBLIC KEY-----".toList.length = c2 at hl
  have hempty : (wrap64 (base64 ([] : Bytes)).length (base64 [])).length = 0 := rfl
  by_cases ha : a = []
  · by_cases hb : b = []
    · rw [ha, hb]
    · exfalso
      subst ha
      have hbl := wrap64_length_ge (base64 b).length (base64 b)
      have hbn : 0 < (base64 b).length := List.length_pos_iff.mpr (base64_ne_nil hb)
      omega
  · by_cases hb : b = []
    · exfalso
      subst hb
      have hal := wrap64_length_ge (base64 a).length (base64 a)
      have han : 0 < (base64 a).length := List.length_pos_iff.mpr (base64_ne_nil ha)
      omega
    · exact pemPublicKey_injective ha hb h

end InToto.Pem
