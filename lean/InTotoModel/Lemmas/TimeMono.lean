import InTotoModel.Lemmas.VerifySpec
/-
  Time enters the specification through one comparison per layout (clause 2: `expires < now`), at the
  top and one level down for every delegated layout.  Hence acceptance is antitone in the clock: what
  is accepted at some moment is accepted, with the same summary, at every earlier moment - and an
  expired layout stays refused at every later one.  Nothing else about the moment matters: the verdict
  is a function of the documents, the keys and the position of the moment relative to the expiry dates.
-/
namespace InToto.VerifySpec
open InToto InToto.Verify InToto.Rules InToto.Threshold

variable {K : Type}

/-- `sub'` accepts whatever `sub` accepts, with the same summary -/
def SubLe (sub sub' : List Str → Block K → List K → Dir K → Str → Option Link) : Prop :=
  ∀ p b ks d n l, sub p b ks d n = some l → sub' p b ks d n = some l

theorem allSome_mono {α β : Type} {f g : α → Option β} {l : List α} {r : List β}
    (hfg : ∀ a ∈ l, ∀ b, f a = some b → g a = some b) (h : allSome f l = some r) : allSome g l = some r := by
  induction l generalizing r with
  | nil => simpa [allSome] using h
  | cons a rest ih =>
    simp only [allSome] at h ⊢
    cases hfa : f a with
    | none => rw [hfa] at h; cases h
    | some b =>
      rw [hfa] at h
      simp only at h
      cases hr : allSome f rest with
      | none => rw [hr] at h; cases h
      | some bs =>
        rw [hr] at h
        simp only at h
        rw [hfg a (by simp) b hfa, ih (fun x hx => hfg x (List.mem_cons_of_mem _ hx)) hr]
        exact h

theorem standsFor_mono {sub sub' : List Str → Block K → List K → Dir K → Str → Option Link} (hs : SubLe sub sub')
    (path : List Str) (L : Layout K) (dir : Dir K) (stepName : Str) (e : Str × Block K) (x : Str × Link)
    (h : standsFor sub path L dir stepName e = some x) : standsFor sub' path L dir stepName e = some x := by
  unfold standsFor at h ⊢
  split
  · rename_i l hl; rw [hl] at h; exact h
  · rename_i L' hl
    rw [hl] at h
    simp only at h ⊢
    cases hk : lookup e.1 L.keys with
    | none => rw [hk] at h; cases h
    | some k =>
      rw [hk] at h
      simp only at h ⊢
      cases hsub : sub (path ++ [stepName ++ '.' :: prefix8 e.1]) e.2 [k] (subDirOf dir (stepName ++ '.' :: prefix8 e.1)) stepName with
      | none => rw [hsub] at h; cases h
      | some l =>
        rw [hsub] at h
        rw [hs _ _ _ _ _ _ hsub]
        exact h

theorem stepLinks_mono {sub sub' : List Str → Block K → List K → Dir K → Str → Option Link} (hs : SubLe sub sub')
    (env : Env K) (path : List Str) (L : Layout K) (dir : Dir K) (st : Step) (x : Step × List (Str × Link))
    (h : stepLinks sub env path L dir st = some x) : stepLinks sub' env path L dir st = some x := by
  unfold stepLinks at h ⊢
  simp only at h ⊢
  split
  · rename_i hlt; rw [if_pos hlt] at h; cases h
  · rename_i hlt
    rw [if_neg hlt] at h
    cases ha : allSome (standsFor sub path L dir st.name) ((evidence dir st.name).filter (counts env L st)) with
    | none => rw [ha] at h; cases h
    | some ls =>
      rw [ha] at h
      rw [allSome_mono (fun e _ b hb => standsFor_mono hs path L dir st.name e b hb) ha]
      exact h

/-- the same environment at another moment -/
def atTime (env : Env K) (now' : List Str → Int) : Env K := { env with now := now' }

theorem accepted_earlier {sub sub' : List Str → Block K → List K → Dir K → Str → Option Link} (hs : SubLe sub sub')
    (env : Env K) (now' : List Str → Int) (hn : ∀ p, now' p ≤ env.now p)
    (path : List Str) (b : Block K) (keys : List K) (dir : Dir K) (name : Str) (out : Link)
    (h : Accepted sub env path b keys dir name out) : Accepted sub' (atTime env now') path b keys dir name out := by
  obtain ⟨L, links, reps, insp, h1, h2, h3, h4, h5, h6, h7, h8, h9, h10, h11, h12⟩ := h
  refine ⟨⟨L, links, reps, insp, h1, h2, ?_, h4, h5, ?_, h7, h8, h9, h10, h11, h12⟩⟩
  · intro hlt
    apply h3
    have := hn path
    show L.expires < env.now path
    have hlt' : L.expires < now' path := hlt
    omega
  · exact allSome_mono (fun st _ x hx => stepLinks_mono hs env path L dir st x hx) h6

/-- **Acceptance is antitone in the clock.**  What the specification accepts at some moment it accepts,
    with the same summary, at every earlier moment (at every level of delegation). -/
theorem accepts_earlier (env : Env K) (now' : List Str → Int) (hn : ∀ p, now' p ≤ env.now p) :
    ∀ (fuel : Nat) (path : List Str) (b : Block K) (keys : List K) (dir : Dir K) (name : Str) (out : Link),
      accepts env fuel path b keys dir name = some out →
        accepts (atTime env now') fuel path b keys dir name = some out
  | 0, _, _, _, _, _, _, h => by simp [accepts] at h
  | fuel + 1, path, b, keys, dir, name, out, h => by
    have ih : SubLe (accepts env fuel) (accepts (atTime env now') fuel) :=
      fun p b ks d n l hl => accepts_earlier env now' hn fuel p b ks d n l hl
    show acceptsStep (accepts (atTime env now') fuel) (atTime env now') path b keys dir name = some out
    rw [acceptsStep_iff]
    exact accepted_earlier ih env now' hn path b keys dir name out ((acceptsStep_iff _ _ _ _ _ _ _ _).mp h)

/-- ... and a layout that has expired at some moment is refused at that moment and at every later one -/
theorem refused_once_expired (env : Env K) (now' : List Str → Int) (fuel : Nat) (path : List Str) (b : Block K)
    (keys : List K) (dir : Dir K) (name : Str) (L : Layout K) (hb : b.signed = .layout L)
    (hexp : L.expires < env.now path) (hn : env.now path ≤ now' path) :
    accepts (atTime env now') fuel path b keys dir name = none := by
  cases fuel with
  | zero => rfl
  | succ f =>
    cases h : accepts (atTime env now') (f + 1) path b keys dir name with
    | none => rfl
    | some out =>
      obtain ⟨L0, _, _, _, h1, _, h3, _⟩ := ((acceptsStep_iff _ _ _ _ _ _ _ _).mp h).clauses
      rw [hb] at h1; cases h1
      exact absurd (show L.expires < now' path by omega) h3

end InToto.VerifySpec
