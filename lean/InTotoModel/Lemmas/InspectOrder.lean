import InTotoModel.Lemmas.VerifySpec
/-
  Clause 8 of the specification - the inspections - does not depend on the order in which the layout
  lists them: every inspection's rules are decided against a table that holds the link of EVERY
  inspection (and of every step), so a rule may refer to an inspection listed later as well as to one
  listed earlier.  (The order in which the commands are *started* is the layout's - `Props/C08.lean`;
  what is decided once they have all run is not a matter of order.)
-/
namespace InToto.VerifySpec
open InToto InToto.Verify InToto.Rules InToto.Threshold

variable {K : Type}

/-- clauses 8 and 9 for a list of inspections, the steps' representatives being `reps` -/
def InspectionsHold (env : Env K) (path : List Str) (L : Layout K) (reps : List (Str × Link))
    (insps : List Insp) (name : Str) (out : Link) : Prop :=
  ∃ insp : List (Str × Link),
    allSome (inspected env path) insps = some insp ∧
    rulesHold (insp.reverse ++ reps) (insps.map inspItem) = true ∧
    summary L (insp.reverse ++ reps) name = .ok out

theorem inspected_fst {env : Env K} {path : List Str} {i : Insp} {e : Str × Link}
    (h : inspected env path i = some e) : e.1 = i.name := by
  unfold inspected at h
  split at h
  · split at h
    · cases h; rfl
    · cases h
  · cases h

theorem filterMap_inspected_keys (env : Env K) (path : List Str) (insps : List Insp)
    (hall : ∀ i ∈ insps, (inspected env path i).isSome) :
    (insps.filterMap (inspected env path)).map Prod.fst = insps.map Insp.name := by
  induction insps with
  | nil => rfl
  | cons i rest ih =>
    have hi := hall i (by simp)
    cases he : inspected env path i with
    | none => rw [he] at hi; cases hi
    | some e =>
      simp only [List.filterMap_cons, he, List.map_cons]
      rw [inspected_fst he, ih (fun x hx => hall x (List.mem_cons_of_mem _ hx))]

theorem lookup_reverse_append_perm {α : Type} {a a' : List (Str × α)} (hp : a.Perm a') (hnd : KeysNodup a)
    (r : List (Str × α)) (n : Str) : lookup n (a.reverse ++ r) = lookup n (a'.reverse ++ r) := by
  rw [lookup_append, lookup_append]
  have hp' : a.reverse.Perm a'.reverse := (List.reverse_perm a).trans (hp.trans (List.reverse_perm a').symm)
  have hnd' : KeysNodup a.reverse := by
    have : (a.reverse.map Prod.fst).Perm (a.map Prod.fst) := (List.reverse_perm a).map _
    exact this.nodup_iff.mpr hnd
  rw [lookup_perm hp' hnd' n]

theorem inspectionsHold_of_perm {env : Env K} {path : List Str} {L : Layout K} {reps : List (Str × Link)}
    {insps insps' : List Insp} {name : Str} {out : Link}
    (hp : insps.Perm insps') (hnd : (insps.map Insp.name).Nodup)
    (h : InspectionsHold env path L reps insps name out) : InspectionsHold env path L reps insps' name out := by
  obtain ⟨insp, ha, hr, hs⟩ := h
  obtain ⟨e, hall⟩ := allSome_eq_some ha
  have hall' : ∀ i ∈ insps', (inspected env path i).isSome := fun i hi => hall i (hp.mem_iff.mpr hi)
  refine ⟨insps'.filterMap (inspected env path), allSome_of_all hall', ?_, ?_⟩
  all_goals
    have hpp : insp.Perm (insps'.filterMap (inspected env path)) := by rw [e]; exact hp.filterMap _
    have hk : KeysNodup insp := by
      show (insp.map Prod.fst).Nodup
      rw [e, filterMap_inspected_keys env path insps hall]; exact hnd
    have hl := lookup_reverse_append_perm hpp hk reps
  · rw [← rulesHold_congr hl]
    have : rulesHold (insp.reverse ++ reps) (insps'.map inspItem) = rulesHold (insp.reverse ++ reps) (insps.map inspItem) := by
      unfold rulesHold
      exact ((hp.map inspItem).all_eq).symm
    rw [this]; exact hr
  · rw [← summary_congr hl]; exact hs

/-- **The inspections are a set, not a sequence, as far as the decision goes.** -/
theorem inspectionsHold_perm {env : Env K} {path : List Str} {L : Layout K} {reps : List (Str × Link)}
    {insps insps' : List Insp} {name : Str} {out : Link}
    (hp : insps.Perm insps') (hnd : (insps.map Insp.name).Nodup) :
    InspectionsHold env path L reps insps name out ↔ InspectionsHold env path L reps insps' name out :=
  ⟨inspectionsHold_of_perm hp hnd,
   inspectionsHold_of_perm hp.symm ((hp.map Insp.name).nodup_iff.mp hnd)⟩

/-- the table on which every inspection's rules are decided holds the link of every inspection -
    of one the layout lists later as of one it lists earlier -/
theorem inspection_links_all_in_table {env : Env K} {path : List Str} {reps : List (Str × Link)}
    {insps : List Insp} {insp : List (Str × Link)}
    (ha : allSome (inspected env path) insps = some insp) (hnd : (insps.map Insp.name).Nodup) :
    ∀ i ∈ insps, ∃ l, env.run path i = some (0, l) ∧ lookup i.name (insp.reverse ++ reps) = some l := by
  intro i hi
  obtain ⟨e, hall⟩ := allSome_eq_some ha
  have hsome := hall i hi
  cases he : inspected env path i with
  | none => rw [he] at hsome; cases hsome
  | some p =>
    obtain ⟨n, l⟩ := p
    have hn : n = i.name := inspected_fst he
    subst hn
    refine ⟨l, ?_, ?_⟩
    · unfold inspected at he
      split at he
      · rename_i status l' hrun
        split at he
        · rename_i h0
          cases he
          rw [hrun, h0]
        · cases he
      · cases he
    · have hk : KeysNodup insp.reverse := by
        have hk0 : (insp.map Prod.fst).Nodup := by
          rw [e, filterMap_inspected_keys env path insps hall]; exact hnd
        have : (insp.reverse.map Prod.fst).Perm (insp.map Prod.fst) := (List.reverse_perm insp).map _
        exact this.nodup_iff.mpr hk0
      have hmem : (i.name, l) ∈ insp.reverse := by
        rw [List.mem_reverse, e, List.mem_filterMap]
        exact ⟨i, hi, he⟩
      rw [lookup_append, lookup_of_mem hk hmem]

/-- the acceptance predicate, with clauses 8 and 9 read as `InspectionsHold` -/
theorem accepted_iff_inspectionsHold (sub : List Str → Block K → List K → Dir K → Str → Option Link) (env : Env K)
    (path : List Str) (b : Block K) (keys : List K) (dir : Dir K) (name : Str) (out : Link) :
    Accepted sub env path b keys dir name out ↔
      ∃ (L : Layout K) (links : List (Step × List (Str × Link))) (reps : List (Str × Link)),
        b.signed = .layout L ∧
        ownersSigned env b keys = true ∧
        ¬ L.expires < env.now path ∧
        (L.steps.map Step.name).Nodup ∧
        (∀ st ∈ L.steps, globSafe st.name = true ∧ stepPatternOk st.name = true ∧ readable dir st.name = true) ∧
        allSome (stepLinks sub env path L dir) L.steps = some links ∧
        links.all agreeing = true ∧
        allSome representative links = some reps ∧
        rulesHold reps (L.steps.map stepItem) = true ∧
        InspectionsHold env path L reps L.inspect name out := by
  constructor
  · rintro ⟨L, links, reps, insp, h1, h2, h3, h4, h5, h6, h7, h8, h9, h10, h11, h12⟩
    exact ⟨L, links, reps, h1, h2, h3, h4, h5, h6, h7, h8, h9, insp, h10, h11, h12⟩
  · rintro ⟨L, links, reps, h1, h2, h3, h4, h5, h6, h7, h8, h9, insp, h10, h11, h12⟩
    exact ⟨⟨L, links, reps, insp, h1, h2, h3, h4, h5, h6, h7, h8, h9, h10, h11, h12⟩⟩

end InToto.VerifySpec
