import InTotoModel.Lemmas.Codec
import InTotoModel.Lemmas.JsonNorm
/-
  From metadata to signed bytes: the encoders of Model/Codec.lean are injective *up to JSON
  normal form* on canonical values (maps with strictly increasing keys, as `BTreeMap`s are), so
  that two different links can never be signed over the same bytes (C05).
-/
namespace InToto.Wire
open InToto InToto.Json InToto.Rules InToto.KeyId

/-! ### sorted association lists of any value type -/

/-- strictly increasing keys -/
def KeysSorted : List Str → Prop
  | [] => True
  | [_] => True
  | k :: k' :: r => strLt k k' = true ∧ KeysSorted (k' :: r)

def decKeysSorted : (l : List Str) → Decidable (KeysSorted l)
  | [] => isTrue trivial
  | [_] => isTrue trivial
  | k :: k' :: r =>
    have : Decidable (KeysSorted (k' :: r)) := decKeysSorted (k' :: r)
    inferInstanceAs (Decidable (strLt k k' = true ∧ KeysSorted (k' :: r)))

instance (l : List Str) : Decidable (KeysSorted l) := decKeysSorted l

theorem sorted_iff_keys (l : List (Str × JV)) : Sorted l ↔ KeysSorted (l.map Prod.fst) := by
  induction l with
  | nil => simp [Sorted, KeysSorted]
  | cons p r ih =>
    obtain ⟨k, v⟩ := p
    cases r with
    | nil => simp [Sorted, KeysSorted]
    | cons q r' =>
      obtain ⟨k', v'⟩ := q
      simp only [Sorted, List.map_cons, KeysSorted]
      rw [ih]
      simp

theorem sorted_map {α : Type} (f : Str × α → JV) {l : List (Str × α)} (h : KeysSorted (l.map Prod.fst)) :
    Sorted (l.map fun p => (p.1, f p)) := by
  rw [sorted_iff_keys]
  simpa [List.map_map, Function.comp_def] using h

theorem lookupS_map_val (g : JV → JV) (k : Str) (l : List (Str × JV)) :
    lookupS k (l.map fun p => (p.1, g p.2)) = (lookupS k l).map g := by
  induction l with
  | nil => rfl
  | cons p r ih =>
    obtain ⟨k', v⟩ := p
    simp only [List.map_cons, lookupS]
    split
    · rfl
    · exact ih

theorem lastFind_eq_lookupS {k : Str} {l : List (Str × JV)} (h : (l.map Prod.fst).Nodup) :
    lastFind k l = lookupS k l := by
  induction l with
  | nil => rfl
  | cons p r ih =>
    obtain ⟨k', v⟩ := p
    simp only [List.map_cons, List.nodup_cons] at h
    simp only [lastFind, lookupS]
    by_cases e : k = k'
    · subst e
      rw [lastFind_none h.1]
      simp
    · rw [ih h.2]
      simp only [e, if_false]
      cases lookupS k r <;> rfl

theorem keysSorted_allGt {k : Str} {r : List Str} (h : KeysSorted (k :: r)) : ∀ x ∈ r, strLt k x = true := by
  induction r generalizing k with
  | nil => simp
  | cons k' r ih =>
    simp only [KeysSorted] at h
    intro x hx
    simp only [List.mem_cons] at hx
    rcases hx with rfl | hx
    · exact h.1
    · exact strLt_trans h.1 (ih h.2 x hx)

theorem keysSorted_tail {k : Str} {r : List Str} (h : KeysSorted (k :: r)) : KeysSorted r := by
  cases r with
  | nil => trivial
  | cons k' r => exact h.2

theorem keysSorted_nodup {ks : List Str} (h : KeysSorted ks) : ks.Nodup := by
  induction ks with
  | nil => simp
  | cons k r ih =>
    simp only [List.nodup_cons]
    refine ⟨?_, ih (keysSorted_tail h)⟩
    intro hm
    have := keysSorted_allGt h k hm
    rw [strLt_irrefl] at this
    cases this

/-- an object whose members already come in strictly increasing key order is normalised member by
    member, in place -/
theorem normKvs_sorted {kvs : List (Str × JV)} (h : Sorted kvs) :
    normKvs kvs [] = kvs.map fun p => (p.1, norm p.2) := by
  have hk := (sorted_iff_keys kvs).mp h
  have hs : Sorted (kvs.map fun p => (p.1, norm p.2)) := sorted_map (fun p => norm p.2) hk
  apply sorted_ext (sorted_normKvs kvs [] trivial) hs
  intro k
  rw [lookupS_normKvs, lastFind_eq_lookupS (keysSorted_nodup hk), lookupS_map_val]
  cases lookupS k kvs <;> rfl

theorem norm_obj_sorted {kvs : List (Str × JV)} (h : Sorted kvs) (hv : ∀ p ∈ kvs, norm p.2 = p.2) :
    norm (.obj kvs) = .obj kvs := by
  rw [norm, normKvs_sorted h]
  congr 1
  have : ∀ p ∈ kvs, (fun p : Str × JV => (p.1, norm p.2)) p = p := by
    intro p hp; simp only [hv p hp]
  rw [List.map_congr_left this]
  simp

theorem normList_strs (l : List Str) : normList (l.map JV.str) = l.map JV.str := by
  induction l with
  | nil => rfl
  | cons x xs ih => simp only [List.map_cons, normList, norm, ih]

theorem norm_strs (l : List Str) : norm (.arr (l.map JV.str)) = .arr (l.map JV.str) := by
  rw [norm, normList_strs]

/-! ### canonical values (what `BTreeMap`s and `HashMap`s denote: one entry per key; taken in key order) -/

def DigestCanon (d : Digest) : Prop := KeysSorted (d.map Prod.fst)
def ArtsCanon (a : Artifacts) : Prop := KeysSorted (a.map Prod.fst) ∧ ∀ p ∈ a, DigestCanon p.2

theorem norm_digestToJson {d : Digest} (h : DigestCanon d) : norm (digestToJson d) = digestToJson d := by
  unfold digestToJson
  apply norm_obj_sorted (sorted_map (fun p => JV.str (hexEncode p.2)) h)
  intro p hp
  obtain ⟨q, _, rfl⟩ := List.mem_map.mp hp
  rfl

theorem norm_artsToJson {a : Artifacts} (h : ArtsCanon a) : norm (artsToJson a) = artsToJson a := by
  unfold artsToJson
  apply norm_obj_sorted (sorted_map (fun p => digestToJson p.2) h.1)
  intro p hp
  obtain ⟨q, hq, rfl⟩ := List.mem_map.mp hp
  exact norm_digestToJson (h.2 q hq)

theorem norm_strMapToJson {m : List (Str × Str)} (h : KeysSorted (m.map Prod.fst)) :
    norm (strMapToJson m) = strMapToJson m := by
  unfold strMapToJson
  apply norm_obj_sorted (sorted_map (fun p => JV.str p.2) h)
  intro p hp
  obtain ⟨q, _, rfl⟩ := List.mem_map.mp hp
  rfl

/-! ### the encoders are injective -/

theorem digestToJson_injective {d d' : Digest} (h : digestToJson d = digestToJson d') : d = d' := by
  unfold digestToJson at h
  replace h := JV.obj.inj h
  induction d generalizing d' with
  | nil => cases d' <;> simp_all
  | cons p r ih =>
    cases d' with
    | nil => simp at h
    | cons p' r' =>
      simp only [List.map_cons, List.cons.injEq, Prod.mk.injEq, JV.str.injEq] at h
      obtain ⟨⟨h1, h2⟩, h3⟩ := h
      obtain ⟨a, b⟩ := p
      obtain ⟨a', b'⟩ := p'
      simp only at h1 h2
      subst h1
      rw [hexEncode_injective h2, ih h3]

theorem artsToJson_injective {a a' : Artifacts} (h : artsToJson a = artsToJson a') : a = a' := by
  unfold artsToJson at h
  replace h := JV.obj.inj h
  induction a generalizing a' with
  | nil => cases a' <;> simp_all
  | cons p r ih =>
    cases a' with
    | nil => simp at h
    | cons p' r' =>
      simp only [List.map_cons, List.cons.injEq, Prod.mk.injEq] at h
      obtain ⟨⟨h1, h2⟩, h3⟩ := h
      obtain ⟨x, y⟩ := p
      obtain ⟨x', y'⟩ := p'
      simp only at h1 h2
      subst h1
      rw [digestToJson_injective h2, ih h3]

theorem strMapToJson_injective {m m' : List (Str × Str)} (h : strMapToJson m = strMapToJson m') : m = m' := by
  unfold strMapToJson at h
  replace h := JV.obj.inj h
  induction m generalizing m' with
  | nil => cases m' <;> simp_all
  | cons p r ih =>
    cases m' with
    | nil => simp at h
    | cons p' r' =>
      simp only [List.map_cons, List.cons.injEq, Prod.mk.injEq, JV.str.injEq] at h
      obtain ⟨⟨h1, h2⟩, h3⟩ := h
      obtain ⟨x, y⟩ := p
      obtain ⟨x', y'⟩ := p'
      simp only at h1 h2
      subst h1 h2
      rw [ih h3]

theorem strs_injective {l l' : List Str} (h : l.map JV.str = l'.map JV.str) : l = l' := by
  induction l generalizing l' with
  | nil => cases l' <;> simp_all
  | cons x xs ih =>
    cases l' with
    | nil => simp at h
    | cons y ys =>
      simp only [List.map_cons, List.cons.injEq, JV.str.injEq] at h
      rw [h.1, ih h.2]

/-! ### byproducts: injective up to normal form -/

theorem lastFind_append (k : Str) (a b : List (Str × JV)) :
    lastFind k (a ++ b) = match lastFind k b with | some w => some w | none => lastFind k a := by
  induction a with
  | nil => simp only [List.nil_append, lastFind]; cases lastFind k b <;> rfl
  | cons p r ih =>
    obtain ⟨k', v⟩ := p
    simp only [List.cons_append, lastFind, ih]
    cases lastFind k b with
    | some w => rfl
    | none => rfl

def bpMembers (b : ByProducts) : List (Str × JV) :=
  optField kReturn (fun i => JV.num (.int i)) b.returnValue ++ optField kStderr JV.str b.stderr
    ++ optField kStdout JV.str b.stdout ++ b.other.map (fun p => (p.1, JV.str p.2))

theorem lastFind_optField_self {α : Type} (k : Str) (f : α → JV) (o : Option α) :
    lastFind k (optField k f o) = o.map f := by
  cases o <;> simp [optField, lastFind]

theorem lastFind_optField_ne {α : Type} {k k' : Str} (h : k ≠ k') (f : α → JV) (o : Option α) :
    lastFind k (optField k' f o) = none := by
  cases o <;> simp [optField, lastFind, h]

theorem lastFind_other_none {k : Str} {other : List (Str × Str)} (h : ∀ p ∈ other, p.1 ≠ k) :
    lastFind k (other.map fun p => (p.1, JV.str p.2)) = none := by
  apply lastFind_none
  intro hm
  simp only [List.map_map, List.mem_map, Function.comp_apply] at hm
  obtain ⟨p, hp, e⟩ := hm
  exact h p hp e

theorem bp_lastFind_return (b : ByProducts) (h : b.WF) :
    lastFind kReturn (bpMembers b) = b.returnValue.map fun i => JV.num (.int i) := by
  unfold bpMembers
  rw [lastFind_append, lastFind_other_none (fun p hp => (h.1 p hp).1)]
  simp only
  rw [lastFind_append, lastFind_optField_ne (by decide)]
  simp only
  rw [lastFind_append, lastFind_optField_ne (by decide)]
  simp only
  exact lastFind_optField_self _ _ _

theorem bp_lastFind_stderr (b : ByProducts) (h : b.WF) :
    lastFind kStderr (bpMembers b) = b.stderr.map JV.str := by
  unfold bpMembers
  rw [lastFind_append, lastFind_other_none (fun p hp => (h.1 p hp).2.1)]
  simp only
  rw [lastFind_append, lastFind_optField_ne (by decide)]
  simp only
  rw [lastFind_append, lastFind_optField_self]
  cases b.stderr with
  | some s => rfl
  | none => simp only [Option.map_none]; exact lastFind_optField_ne (by decide) _ _

theorem bp_lastFind_stdout (b : ByProducts) (h : b.WF) :
    lastFind kStdout (bpMembers b) = b.stdout.map JV.str := by
  unfold bpMembers
  rw [lastFind_append, lastFind_other_none (fun p hp => (h.1 p hp).2.2)]
  simp only
  rw [lastFind_append, lastFind_optField_self]
  cases b.stdout with
  | some s => rfl
  | none =>
    simp only [Option.map_none]
    rw [lastFind_append, lastFind_optField_ne (by decide)]
    simp only
    exact lastFind_optField_ne (by decide) _ _

theorem bp_lastFind_other (b : ByProducts) {k : Str} (h1 : k ≠ kReturn) (h2 : k ≠ kStderr) (h3 : k ≠ kStdout) :
    lastFind k (bpMembers b) = lastFind k (b.other.map fun p => (p.1, JV.str p.2)) := by
  unfold bpMembers
  rw [lastFind_append]
  cases lastFind k (b.other.map fun p => (p.1, JV.str p.2)) with
  | some w => rfl
  | none =>
    simp only
    rw [lastFind_append, lastFind_optField_ne h3]
    simp only
    rw [lastFind_append, lastFind_optField_ne h2]
    simp only
    exact lastFind_optField_ne h1 _ _

def BpCanon (b : ByProducts) : Prop := b.WF ∧ KeysSorted (b.other.map Prod.fst)

theorem lookupS_normKvs_nil (k : Str) (kvs : List (Str × JV)) :
    lookupS k (normKvs kvs []) = (lastFind k kvs).map norm := by
  rw [lookupS_normKvs]
  cases lastFind k kvs <;> rfl

theorem byproducts_norm_injective {b b' : ByProducts} (hb : BpCanon b) (hb' : BpCanon b')
    (h : norm (byProductsToJson b) = norm (byProductsToJson b')) : b = b' := by
  have hm : normKvs (bpMembers b) [] = normKvs (bpMembers b') [] := by
    have : byProductsToJson b = .obj (bpMembers b) := rfl
    rw [this] at h
    have : byProductsToJson b' = .obj (bpMembers b') := rfl
    rw [this] at h
    simp only [norm] at h
    exact JV.obj.inj h
  have look : ∀ k, (lastFind k (bpMembers b)).map norm = (lastFind k (bpMembers b')).map norm := by
    intro k
    rw [← lookupS_normKvs_nil, ← lookupS_normKvs_nil, hm]
  obtain ⟨rv, se, so, other⟩ := b
  obtain ⟨rv', se', so', other'⟩ := b'
  have e1 : rv = rv' := by
    have := look kReturn
    rw [bp_lastFind_return _ hb.1, bp_lastFind_return _ hb'.1] at this
    simp only at this
    cases rv <;> cases rv' <;> simp [norm] at this ⊢
    exact this
  have e2 : se = se' := by
    have := look kStderr
    rw [bp_lastFind_stderr _ hb.1, bp_lastFind_stderr _ hb'.1] at this
    simp only at this
    cases se <;> cases se' <;> simp [norm] at this ⊢
    exact this
  have e3 : so = so' := by
    have := look kStdout
    rw [bp_lastFind_stdout _ hb.1, bp_lastFind_stdout _ hb'.1] at this
    simp only at this
    cases so <;> cases so' <;> simp [norm] at this ⊢
    exact this
  have e4 : other = other' := by
    have s1 : Sorted (other.map fun p => (p.1, JV.str p.2)) := sorted_map (fun p => JV.str p.2) hb.2
    have s2 : Sorted (other'.map fun p => (p.1, JV.str p.2)) := sorted_map (fun p => JV.str p.2) hb'.2
    have n1 := keysSorted_nodup hb.2
    have n2 := keysSorted_nodup hb'.2
    have key : (other.map fun p => (p.1, JV.str p.2)) = (other'.map fun p => (p.1, JV.str p.2)) := by
      apply sorted_ext s1 s2
      intro k
      have hn1 : ((other.map fun p => (p.1, JV.str p.2)).map Prod.fst).Nodup := by
        simpa [List.map_map, Function.comp_def] using n1
      have hn2 : ((other'.map fun p => (p.1, JV.str p.2)).map Prod.fst).Nodup := by
        simpa [List.map_map, Function.comp_def] using n2
      rw [← lastFind_eq_lookupS hn1, ← lastFind_eq_lookupS hn2]
      by_cases r1 : k = kReturn
      · subst r1
        rw [lastFind_other_none (fun p hp => (hb.1.1 p hp).1), lastFind_other_none (fun p hp => (hb'.1.1 p hp).1)]
      · by_cases r2 : k = kStderr
        · subst r2
          rw [lastFind_other_none (fun p hp => (hb.1.1 p hp).2.1), lastFind_other_none (fun p hp => (hb'.1.1 p hp).2.1)]
        · by_cases r3 : k = kStdout
          · subst r3
            rw [lastFind_other_none (fun p hp => (hb.1.1 p hp).2.2), lastFind_other_none (fun p hp => (hb'.1.1 p hp).2.2)]
          · have := look k
            rw [bp_lastFind_other _ r1 r2 r3, bp_lastFind_other _ r1 r2 r3] at this
            simp only at this
            -- the values are strings: norm is the identity on them
            have nm : ∀ (l : List (Str × Str)) , (lastFind k (l.map fun p => (p.1, JV.str p.2))).map norm
                = lastFind k (l.map fun p => (p.1, JV.str p.2)) := by
              intro l
              cases hl : lastFind k (l.map fun p => (p.1, JV.str p.2)) with
              | none => rfl
              | some w =>
                have := lastFind_mem hl
                obtain ⟨q, _, e⟩ := List.mem_map.mp this
                cases e
                rfl
            rw [nm, nm] at this
            exact this
    exact strMapToJson_injective (congrArg JV.obj key)
  subst e1 e2 e3 e4
  rfl

/-! ### links: injective up to normal form -/

def LinkW.Canon (l : LinkW) : Prop :=
  ArtsCanon l.materials ∧ ArtsCanon l.products ∧ (∀ m, l.env = some m → KeysSorted (m.map Prod.fst)) ∧ BpCanon l.byproducts

section linkmembers
variable (a b c d e f g : JV)
theorem lf1 : lastFind kName [(kType, a), (kName, b), (kMaterials, c), (kProducts, d),
    (kEnvironment, e), (kByproducts, f), (kCommand, g)] = some b := rfl
theorem lf2 : lastFind kMaterials [(kType, a), (kName, b), (kMaterials, c), (kProducts, d),
    (kEnvironment, e), (kByproducts, f), (kCommand, g)] = some c := rfl
theorem lf3 : lastFind kProducts [(kType, a), (kName, b), (kMaterials, c), (kProducts, d),
    (kEnvironment, e), (kByproducts, f), (kCommand, g)] = some d := rfl
theorem lf4 : lastFind kEnvironment [(kType, a), (kName, b), (kMaterials, c), (kProducts, d),
    (kEnvironment, e), (kByproducts, f), (kCommand, g)] = some e := rfl
theorem lf5 : lastFind kByproducts [(kType, a), (kName, b), (kMaterials, c), (kProducts, d),
    (kEnvironment, e), (kByproducts, f), (kCommand, g)] = some f := rfl
theorem lf6 : lastFind kCommand [(kType, a), (kName, b), (kMaterials, c), (kProducts, d),
    (kEnvironment, e), (kByproducts, f), (kCommand, g)] = some g := rfl
end linkmembers

theorem norm_obj_ne_null (kvs : List (Str × JV)) : norm (.obj kvs) ≠ .null := by
  simp [norm]

/-- Two canonical links whose JSON forms have the same normal form are equal. -/
theorem link_norm_injective {l l' : LinkW} (hc : l.Canon) (hc' : l'.Canon)
    (h : norm (linkToJson l) = norm (linkToJson l')) : l = l' := by
  obtain ⟨name, mats, prods, env, bp, cmd⟩ := l
  obtain ⟨name', mats', prods', env', bp', cmd'⟩ := l'
  obtain ⟨c1, c2, c3, c4⟩ := hc
  obtain ⟨c1', c2', c3', c4'⟩ := hc'
  simp only at c1 c2 c3 c4 c1' c2' c3' c4'
  simp only [linkToJson, norm] at h
  replace h := JV.obj.inj h
  have look := fun k => congrArg (lookupS k) h
  simp only [lookupS_normKvs_nil] at look
  have e1 : name = name' := by
    have := look kName
    rw [lf1, lf1] at this
    simpa [norm] using this
  have e2 : mats = mats' := by
    have := look kMaterials
    rw [lf2, lf2] at this
    simp only [Option.map_some, Option.some.injEq, norm_artsToJson c1, norm_artsToJson c1'] at this
    exact artsToJson_injective this
  have e3 : prods = prods' := by
    have := look kProducts
    rw [lf3, lf3] at this
    simp only [Option.map_some, Option.some.injEq, norm_artsToJson c2, norm_artsToJson c2'] at this
    exact artsToJson_injective this
  have e4 : env = env' := by
    have := look kEnvironment
    rw [lf4, lf4] at this
    simp only [Option.map_some, Option.some.injEq] at this
    cases env with
    | none =>
      cases env' with
      | none => rfl
      | some m' =>
        exfalso
        simp only [envToJson, strMapToJson] at this
        exact norm_obj_ne_null _ this.symm
    | some m =>
      cases env' with
      | none =>
        exfalso
        simp only [envToJson, strMapToJson] at this
        exact norm_obj_ne_null _ this
      | some m' =>
        simp only [envToJson, norm_strMapToJson (c3 m rfl), norm_strMapToJson (c3' m' rfl)] at this
        rw [strMapToJson_injective this]
  have e5 : bp = bp' := by
    have := look kByproducts
    rw [lf5, lf5] at this
    simp only [Option.map_some, Option.some.injEq] at this
    exact byproducts_norm_injective c4 c4' this
  have e6 : cmd = cmd' := by
    have := look kCommand
    rw [lf6, lf6] at this
    simp only [Option.map_some, Option.some.injEq, commandToJson, norm_strs] at this
    exact strs_injective (JV.arr.inj this)
  subst e1 e2 e3 e4 e5 e6
  rfl

/-! ### steps, inspections, layouts -/

theorem norm_ruleToJson (r : Rule) : norm (ruleToJson r) = ruleToJson r := norm_strs _

theorem normList_fixed {xs : List JV} (h : ∀ x ∈ xs, norm x = x) : normList xs = xs := by
  induction xs with
  | nil => rfl
  | cons x r ih =>
    simp only [normList, h x (by simp), ih (fun y hy => h y (List.mem_cons_of_mem _ hy))]

theorem norm_rulesToJson (rs : List Rule) : norm (rulesToJson rs) = rulesToJson rs := by
  unfold rulesToJson
  rw [norm, normList_fixed]
  intro x hx
  obtain ⟨r, _, rfl⟩ := List.mem_map.mp hx
  exact norm_ruleToJson r

theorem rulesToJson_injective {rs rs' : List Rule} (h : rulesToJson rs = rulesToJson rs') : rs = rs' := by
  have := congrArg rulesOfJson h
  rw [rules_round_trip, rules_round_trip] at this
  exact Option.some.inj this

theorem normList_map (f : JV → JV) : ∀ (xs : List JV), normList xs = xs.map norm
  | [] => rfl
  | x :: r => by simp only [normList, List.map_cons, normList_map f r]

section stepmembers
variable (a b c d e f g : JV)
theorem sf1 : lastFind kType [(kType, a), (kThreshold, b), (kName, c), (kExpMaterials, d),
    (kExpProducts, e), (kPubkeys, f), (kExpCommand, g)] = some a := rfl
theorem sf2 : lastFind kThreshold [(kType, a), (kThreshold, b), (kName, c), (kExpMaterials, d),
    (kExpProducts, e), (kPubkeys, f), (kExpCommand, g)] = some b := rfl
theorem sf3 : lastFind kName [(kType, a), (kThreshold, b), (kName, c), (kExpMaterials, d),
    (kExpProducts, e), (kPubkeys, f), (kExpCommand, g)] = some c := rfl
theorem sf4 : lastFind kExpMaterials [(kType, a), (kThreshold, b), (kName, c), (kExpMaterials, d),
    (kExpProducts, e), (kPubkeys, f), (kExpCommand, g)] = some d := rfl
theorem sf5 : lastFind kExpProducts [(kType, a), (kThreshold, b), (kName, c), (kExpMaterials, d),
    (kExpProducts, e), (kPubkeys, f), (kExpCommand, g)] = some e := rfl
theorem sf6 : lastFind kPubkeys [(kType, a), (kThreshold, b), (kName, c), (kExpMaterials, d),
    (kExpProducts, e), (kPubkeys, f), (kExpCommand, g)] = some f := rfl
theorem sf7 : lastFind kExpCommand [(kType, a), (kThreshold, b), (kName, c), (kExpMaterials, d),
    (kExpProducts, e), (kPubkeys, f), (kExpCommand, g)] = some g := rfl
end stepmembers

theorem step_norm_injective {s s' : StepW} (h : norm (stepToJson s) = norm (stepToJson s')) : s = s' := by
  obtain ⟨typ, name, th, em, ep, pk, cmd⟩ := s
  obtain ⟨typ', name', th', em', ep', pk', cmd'⟩ := s'
  simp only [stepToJson, norm] at h
  replace h := JV.obj.inj h
  have look := fun k => congrArg (lookupS k) h
  simp only [lookupS_normKvs_nil] at look
  have e0 : typ = typ' := by
    have := look kType; rw [sf1, sf1] at this; simpa [norm] using this
  have e1 : th = th' := by
    have := look kThreshold; rw [sf2, sf2] at this
    simp only [Option.map_some, Option.some.injEq, norm, JV.num.injEq, JNum.int.injEq] at this
    exact_mod_cast this
  have e2 : name = name' := by
    have := look kName; rw [sf3, sf3] at this; simpa [norm] using this
  have e3 : em = em' := by
    have := look kExpMaterials; rw [sf4, sf4] at this
    simp only [Option.map_some, Option.some.injEq, norm_rulesToJson] at this
    exact rulesToJson_injective this
  have e4 : ep = ep' := by
    have := look kExpProducts; rw [sf5, sf5] at this
    simp only [Option.map_some, Option.some.injEq, norm_rulesToJson] at this
    exact rulesToJson_injective this
  have e5 : pk = pk' := by
    have := look kPubkeys; rw [sf6, sf6] at this
    simp only [Option.map_some, Option.some.injEq, keyIdsToJson, norm_strs] at this
    exact strs_injective (JV.arr.inj this)
  have e6 : cmd = cmd' := by
    have := look kExpCommand; rw [sf7, sf7] at this
    simp only [Option.map_some, Option.some.injEq, commandToJson, norm_strs] at this
    exact strs_injective (JV.arr.inj this)
  subst e0 e1 e2 e3 e4 e5 e6
  rfl

section inspmembers
variable (a b c d e : JV)
theorem if1 : lastFind kType [(kType, a), (kName, b), (kExpMaterials, c), (kExpProducts, d), (kRun, e)] = some a := rfl
theorem if2 : lastFind kName [(kType, a), (kName, b), (kExpMaterials, c), (kExpProducts, d), (kRun, e)] = some b := rfl
theorem if3 : lastFind kExpMaterials [(kType, a), (kName, b), (kExpMaterials, c), (kExpProducts, d), (kRun, e)] = some c := rfl
theorem if4 : lastFind kExpProducts [(kType, a), (kName, b), (kExpMaterials, c), (kExpProducts, d), (kRun, e)] = some d := rfl
theorem if5 : lastFind kRun [(kType, a), (kName, b), (kExpMaterials, c), (kExpProducts, d), (kRun, e)] = some e := rfl
end inspmembers

theorem insp_norm_injective {i i' : InspW} (h : norm (inspToJson i) = norm (inspToJson i')) : i = i' := by
  obtain ⟨typ, name, em, ep, run⟩ := i
  obtain ⟨typ', name', em', ep', run'⟩ := i'
  simp only [inspToJson, norm] at h
  replace h := JV.obj.inj h
  have look := fun k => congrArg (lookupS k) h
  simp only [lookupS_normKvs_nil] at look
  have e0 : typ = typ' := by
    have := look kType; rw [if1, if1] at this; simpa [norm] using this
  have e2 : name = name' := by
    have := look kName; rw [if2, if2] at this; simpa [norm] using this
  have e3 : em = em' := by
    have := look kExpMaterials; rw [if3, if3] at this
    simp only [Option.map_some, Option.some.injEq, norm_rulesToJson] at this
    exact rulesToJson_injective this
  have e4 : ep = ep' := by
    have := look kExpProducts; rw [if4, if4] at this
    simp only [Option.map_some, Option.some.injEq, norm_rulesToJson] at this
    exact rulesToJson_injective this
  have e6 : run = run' := by
    have := look kRun; rw [if5, if5] at this
    simp only [Option.map_some, Option.some.injEq, commandToJson, norm_strs] at this
    exact strs_injective (JV.arr.inj this)
  subst e0 e2 e3 e4 e6
  rfl

theorem map_norm_injective {α : Type} {f : α → JV} (hf : ∀ x y, norm (f x) = norm (f y) → x = y) :
    ∀ {l l' : List α}, (l.map f).map norm = (l'.map f).map norm → l = l'
  | [], [], _ => rfl
  | [], _ :: _, h => by simp at h
  | _ :: _, [], h => by simp at h
  | x :: r, y :: r', h => by
    simp only [List.map_cons, List.cons.injEq] at h
    rw [hf x y h.1, map_norm_injective hf h.2]

section layoutinj
variable {K : Type}

/-- canonical layout: key table in key-id order; what is taken from outside behaves: the expiry
    writer and the key writer are injective up to JSON normal form -/
structure LayoutCanon (E : DocEnv K) (L : LayoutW K) : Prop where
  keys : KeysSorted (L.keys.map Prod.fst)

structure EnvInjective (E : DocEnv K) : Prop where
  time : ∀ t t', E.fmtTime t = E.fmtTime t' → t = t'
  key : ∀ k k', norm (E.keyToJson k) = norm (E.keyToJson k') → k = k'

section layoutmembers
variable (a b c d e f : JV)
theorem yf2 : lastFind kExpires [(kType, a), (kExpires, b), (kReadme, c), (kKeys, d), (kSteps, e), (kInspect, f)] = some b := rfl
theorem yf3 : lastFind kReadme [(kType, a), (kExpires, b), (kReadme, c), (kKeys, d), (kSteps, e), (kInspect, f)] = some c := rfl
theorem yf4 : lastFind kKeys [(kType, a), (kExpires, b), (kReadme, c), (kKeys, d), (kSteps, e), (kInspect, f)] = some d := rfl
theorem yf5 : lastFind kSteps [(kType, a), (kExpires, b), (kReadme, c), (kKeys, d), (kSteps, e), (kInspect, f)] = some e := rfl
theorem yf6 : lastFind kInspect [(kType, a), (kExpires, b), (kReadme, c), (kKeys, d), (kSteps, e), (kInspect, f)] = some f := rfl
end layoutmembers

theorem keys_norm_injective_mem (E : DocEnv K) {ks ks' : List (Str × K)}
    (hkey : ∀ p ∈ ks, ∀ p' ∈ ks', norm (E.keyToJson p.2) = norm (E.keyToJson p'.2) → p.2 = p'.2)
    (h1 : KeysSorted (ks.map Prod.fst)) (h2 : KeysSorted (ks'.map Prod.fst))
    (h : norm (keysToJson E ks) = norm (keysToJson E ks')) : ks = ks' := by
  unfold keysToJson at h
  rw [norm, norm, normKvs_sorted (sorted_map (fun p => E.keyToJson p.2) h1),
    normKvs_sorted (sorted_map (fun p => E.keyToJson p.2) h2)] at h
  replace h := JV.obj.inj h
  simp only [List.map_map] at h
  clear h1 h2
  induction ks generalizing ks' with
  | nil => cases ks' <;> simp_all
  | cons p r ih =>
    cases ks' with
    | nil => simp at h
    | cons p' r' =>
      simp only [List.map_cons, Function.comp_apply, List.cons.injEq, Prod.mk.injEq] at h
      obtain ⟨⟨e1, e2⟩, e3⟩ := h
      have hp := hkey p (by simp) p' (by simp) e2
      obtain ⟨x, y⟩ := p
      obtain ⟨x', y'⟩ := p'
      simp only at e1 hp
      subst e1 hp
      rw [ih (fun q hq q' hq' => hkey q (by simp [hq]) q' (by simp [hq'])) e3]

theorem keys_norm_injective (E : DocEnv K)
    (hkey : ∀ k k', norm (E.keyToJson k) = norm (E.keyToJson k') → k = k') {ks ks' : List (Str × K)}
    (h1 : KeysSorted (ks.map Prod.fst)) (h2 : KeysSorted (ks'.map Prod.fst))
    (h : norm (keysToJson E ks) = norm (keysToJson E ks')) : ks = ks' :=
  keys_norm_injective_mem E (fun p _ p' _ e => hkey p.2 p'.2 e) h1 h2 h

/-- Layout encoder injective up to JSON normal form, given that the key writer is injective and that
    the expiry writer tells these two expiries apart. -/
theorem layout_norm_injective_mem (E : DocEnv K) {L L' : LayoutW K}
    (hkey : ∀ p ∈ L.keys, ∀ p' ∈ L'.keys, norm (E.keyToJson p.2) = norm (E.keyToJson p'.2) → p.2 = p'.2)
    (htime : E.fmtTime L.expires = E.fmtTime L'.expires → L.expires = L'.expires)
    (hc : LayoutCanon E L) (hc' : LayoutCanon E L')
    (h : norm (layoutToJson E L) = norm (layoutToJson E L')) : L = L' := by
  obtain ⟨exp, readme, keys, steps, insp⟩ := L
  obtain ⟨exp', readme', keys', steps', insp'⟩ := L'
  have k1 := hc.keys
  have k2 := hc'.keys
  simp only at k1 k2
  simp only [layoutToJson, norm] at h
  replace h := JV.obj.inj h
  have look := fun k => congrArg (lookupS k) h
  simp only [lookupS_normKvs_nil] at look
  have e1 : exp = exp' := by
    have := look kExpires; rw [yf2, yf2] at this
    simp only [Option.map_some, Option.some.injEq, norm, JV.str.injEq] at this
    exact htime this
  have e2 : readme = readme' := by
    have := look kReadme; rw [yf3, yf3] at this; simpa [norm] using this
  have e3 : keys = keys' := by
    have := look kKeys; rw [yf4, yf4] at this
    simp only [Option.map_some, Option.some.injEq] at this
    exact keys_norm_injective_mem E hkey k1 k2 this
  have e4 : steps = steps' := by
    have := look kSteps; rw [yf5, yf5] at this
    simp only [Option.map_some, Option.some.injEq, norm, JV.arr.injEq, normList_map id] at this
    exact map_norm_injective (fun x y hxy => step_norm_injective hxy) this
  have e5 : insp = insp' := by
    have := look kInspect; rw [yf6, yf6] at this
    simp only [Option.map_some, Option.some.injEq, norm, JV.arr.injEq, normList_map id] at this
    exact map_norm_injective (fun x y hxy => insp_norm_injective hxy) this
  subst e1 e2 e3 e4 e5
  rfl

theorem layout_norm_injective_of (E : DocEnv K)
    (hkey : ∀ k k', norm (E.keyToJson k) = norm (E.keyToJson k') → k = k') {L L' : LayoutW K}
    (htime : E.fmtTime L.expires = E.fmtTime L'.expires → L.expires = L'.expires)
    (hc : LayoutCanon E L) (hc' : LayoutCanon E L')
    (h : norm (layoutToJson E L) = norm (layoutToJson E L')) : L = L' :=
  layout_norm_injective_mem E (fun p _ p' _ e => hkey p.2 p'.2 e) htime hc hc' h

theorem layout_norm_injective (E : DocEnv K) (hE : EnvInjective E) {L L' : LayoutW K}
    (hc : LayoutCanon E L) (hc' : LayoutCanon E L')
    (h : norm (layoutToJson E L) = norm (layoutToJson E L')) : L = L' :=
  layout_norm_injective_of E hE.key (hE.time _ _) hc hc' h

end layoutinj

end InToto.Wire
