import InTotoModel.Model.Json
namespace InToto.Json

theorem char_toNat_inj {a b : Char} (h : a.toNat = b.toNat) : a = b := by
  apply Char.ext
  apply UInt32.toNat_inj.mp
  exact h

theorem strLt_irrefl (a : Str) : strLt a a = false := by
  induction a with
  | nil => rfl
  | cons x xs ih => simp [strLt, ih]

theorem strLt_asymm {a b : Str} (h : strLt a b = true) : strLt b a = false := by
  induction a generalizing b with
  | nil => cases b <;> simp_all [strLt]
  | cons x xs ih =>
    cases b with
    | nil => simp_all [strLt]
    | cons y ys =>
      simp only [strLt] at h ⊢
      by_cases h1 : x.toNat < y.toNat
      · have : ¬ y.toNat < x.toNat := by omega
        simp [this, h1]
      · by_cases h2 : y.toNat < x.toNat
        · simp [h1, h2] at h
        · simp [h1, h2] at h ⊢
          exact ih h

theorem strLt_trans {a b c : Str} (h1 : strLt a b = true) (h2 : strLt b c = true) : strLt a c = true := by
  induction a generalizing b c with
  | nil =>
    cases b with
    | nil => simp [strLt] at h1
    | cons y ys => cases c <;> simp_all [strLt]
  | cons x xs ih =>
    cases b with
    | nil => simp [strLt] at h1
    | cons y ys =>
      cases c with
      | nil => simp [strLt] at h2
      | cons z zs =>
        simp only [strLt] at h1 h2 ⊢
        by_cases hxy : x.toNat < y.toNat
        · by_cases hyz : y.toNat < z.toNat
          · have : x.toNat < z.toNat := by omega
            simp [this]
          · by_cases hzy : z.toNat < y.toNat
            · simp [hyz, hzy] at h2
            · have : x.toNat < z.toNat := by omega
              simp [this]
        · by_cases hyx : y.toNat < x.toNat
          · simp [hxy, hyx] at h1
          · simp [hxy, hyx] at h1
            by_cases hyz : y.toNat < z.toNat
            · have : x.toNat < z.toNat := by omega
              simp [this]
            · by_cases hzy : z.toNat < y.toNat
              · simp [hyz, hzy] at h2
              · simp [hyz, hzy] at h2
                have e1 : ¬ x.toNat < z.toNat := by omega
                have e2 : ¬ z.toNat < x.toNat := by omega
                simp [e1, e2]
                exact ih h1 h2

theorem strLt_total {a b : Str} (h1 : strLt a b = false) (h2 : strLt b a = false) : a = b := by
  induction a generalizing b with
  | nil => cases b <;> simp_all [strLt]
  | cons x xs ih =>
    cases b with
    | nil => simp_all [strLt]
    | cons y ys =>
      simp only [strLt] at h1 h2
      by_cases hxy : x.toNat < y.toNat
      · simp [hxy] at h1
      · by_cases hyx : y.toNat < x.toNat
        · simp [hyx] at h2
        · simp [hxy, hyx] at h1 h2
          have : x = y := char_toNat_inj (by omega)
          rw [this, ih h1 h2]

/-- strictly increasing keys -/
def Sorted : List (Str × JV) → Prop
  | [] => True
  | [_] => True
  | (k, _) :: (k', v') :: r => strLt k k' = true ∧ Sorted ((k', v') :: r)

/-- every key of `l` is above `k` -/
def AllGt (k : Str) (l : List (Str × JV)) : Prop := ∀ p ∈ l, strLt k p.1 = true

theorem sorted_cons_iff {k : Str} {v : JV} {l : List (Str × JV)} :
    Sorted ((k, v) :: l) ↔ AllGt k l ∧ Sorted l := by
  induction l generalizing k v with
  | nil => simp [Sorted, AllGt]
  | cons p r ih =>
    obtain ⟨k', v'⟩ := p
    simp only [Sorted]
    constructor
    · rintro ⟨hk, hs⟩
      refine ⟨?_, hs⟩
      intro q hq
      simp at hq
      rcases hq with rfl | hq
      · exact hk
      · exact strLt_trans hk ((ih.mp hs).1 q hq)
    · rintro ⟨hg, hs⟩
      exact ⟨hg (k', v') (by simp), hs⟩

theorem allGt_insertKV {k0 k : Str} {v : JV} {l : List (Str × JV)}
    (h0 : strLt k0 k = true) (hl : AllGt k0 l) : AllGt k0 (insertKV k v l) := by
  induction l with
  | nil => intro p hp; simp [insertKV] at hp; subst hp; exact h0
  | cons q r ih =>
    obtain ⟨k', v'⟩ := q
    simp only [insertKV]
    split
    · intro p hp
      simp at hp
      rcases hp with rfl | rfl | hp
      · exact h0
      · exact hl (k', v') (by simp)
      · exact hl p (by simp [hp])
    · split
      · intro p hp
        simp at hp
        rcases hp with rfl | hp
        · exact hl (k', v') (by simp)
        · exact ih (fun p hp => hl p (by simp [hp])) p hp
      · intro p hp
        simp at hp
        rcases hp with rfl | hp
        · exact h0
        · exact hl p (by simp [hp])

theorem sorted_insertKV {k : Str} {v : JV} {l : List (Str × JV)} (hs : Sorted l) :
    Sorted (insertKV k v l) := by
  induction l with
  | nil => simp [insertKV, Sorted]
  | cons q r ih =>
    obtain ⟨k', v'⟩ := q
    have ⟨hg, hr⟩ := sorted_cons_iff.mp hs
    simp only [insertKV]
    split
    · rename_i hlt
      exact sorted_cons_iff.mpr ⟨by
        intro p hp
        simp at hp
        rcases hp with rfl | hp
        · exact hlt
        · exact strLt_trans hlt (hg p hp), hs⟩
    · split
      · rename_i _ hgt
        exact sorted_cons_iff.mpr ⟨allGt_insertKV hgt hg, ih hr⟩
      · rename_i h1 h2
        have : k = k' := strLt_total (by simpa using h1) (by simpa using h2)
        subst this
        exact sorted_cons_iff.mpr ⟨hg, hr⟩

theorem sorted_normKvs (kvs acc : List (Str × JV)) (h : Sorted acc) : Sorted (normKvs kvs acc) := by
  induction kvs generalizing acc with
  | nil => simpa [normKvs]
  | cons p r ih =>
    obtain ⟨k, v⟩ := p
    simp only [normKvs]
    exact ih _ (sorted_insertKV h)

end InToto.Json
