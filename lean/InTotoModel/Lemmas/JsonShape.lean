import InTotoModel.Lemmas.JsonWrite
import InTotoModel.Lemmas.Codec
import InTotoModel.Lemmas.KeyJson
/-
  The JSON values the document encoders produce can be written as text and read back:
  they hold integers within `i64`/`u64` only and nest far below serde_json's recursion limit.

  `fits d v` = "`v` has no number outside the integer range and nests at most `d` deep".
-/
namespace InToto.JsonShape
open InToto InToto.Json InToto.JsonText InToto.JsonWrite InToto.Wire InToto.KeyId InToto.KeyJson InToto.Rules

mutual
def fits : Nat → JV → Bool
  | _, .null => true
  | _, .bool _ => true
  | _, .str _ => true
  | _, .num .nonInt => false
  | _, .num (.int i) => decide (-(2 ^ 63 : Int) ≤ i) && decide (i < (2 ^ 64 : Int))
  | 0, .arr _ => false
  | 0, .obj _ => false
  | d + 1, .arr xs => fitsList d xs
  | d + 1, .obj kvs => fitsKvs d kvs
def fitsList : Nat → List JV → Bool
  | _, [] => true
  | d, x :: xs => fits d x && fitsList d xs
def fitsKvs : Nat → List (Str × JV) → Bool
  | _, [] => true
  | d, (_, v) :: r => fits d v && fitsKvs d r
end

mutual
theorem fits_sound (d : Nat) (v : JV) (h : fits d v = true) : hasNonInt v = false ∧ depth v ≤ d := by
  cases v with
  | null => simp [hasNonInt, depth]
  | bool b => simp [hasNonInt, depth]
  | str s => simp [hasNonInt, depth]
  | num n =>
    cases n with
    | nonInt => simp [fits] at h
    | int i =>
      simp only [fits, Bool.and_eq_true, decide_eq_true_eq] at h
      obtain ⟨h1, h2⟩ := h
      simp only [hasNonInt, depth, Bool.not_eq_false', Bool.and_eq_true, decide_eq_true_eq]
      exact ⟨⟨h1, h2⟩, by omega⟩
  | arr xs =>
    cases d with
    | zero => simp [fits] at h
    | succ d =>
      simp only [fits] at h
      obtain ⟨h1, h2⟩ := fitsList_sound d xs h
      simp only [hasNonInt, depth]; exact ⟨h1, by omega⟩
  | obj kvs =>
    cases d with
    | zero => simp [fits] at h
    | succ d =>
      simp only [fits] at h
      obtain ⟨h1, h2⟩ := fitsKvs_sound d kvs h
      simp only [hasNonInt, depth]; exact ⟨h1, by omega⟩
theorem fitsList_sound (d : Nat) (xs : List JV) (h : fitsList d xs = true) :
    hasNonIntList xs = false ∧ depthList xs ≤ d := by
  cases xs with
  | nil => simp [hasNonIntList, depthList]
  | cons x xs =>
    simp only [fitsList, Bool.and_eq_true] at h
    have h1 := fits_sound d x h.1
    have h2 := fitsList_sound d xs h.2
    simp only [hasNonIntList, depthList, h1.1, h2.1, Bool.or_self, true_and]; omega
theorem fitsKvs_sound (d : Nat) (r : List (Str × JV)) (h : fitsKvs d r = true) :
    hasNonIntKvs r = false ∧ depthKvs r ≤ d := by
  cases r with
  | nil => simp [hasNonIntKvs, depthKvs]
  | cons p r =>
    obtain ⟨k, v⟩ := p
    simp only [fitsKvs, Bool.and_eq_true] at h
    have h1 := fits_sound d v h.1
    have h2 := fitsKvs_sound d r h.2
    simp only [hasNonIntKvs, depthKvs, h1.1, h2.1, Bool.or_self, true_and]; omega
end

mutual
theorem fits_mono (d : Nat) (v : JV) (h : fits d v = true) : fits (d + 1) v = true := by
  cases v with
  | null => rfl
  | bool b => rfl
  | str s => rfl
  | num n => cases n with
    | nonInt => simp [fits] at h
    | int i => simpa [fits] using h
  | arr xs =>
    cases d with
    | zero => simp [fits] at h
    | succ d => simp only [fits] at h ⊢; exact fitsList_mono d xs h
  | obj kvs =>
    cases d with
    | zero => simp [fits] at h
    | succ d => simp only [fits] at h ⊢; exact fitsKvs_mono d kvs h
theorem fitsList_mono (d : Nat) (xs : List JV) (h : fitsList d xs = true) : fitsList (d + 1) xs = true := by
  cases xs with
  | nil => rfl
  | cons x xs =>
    simp only [fitsList, Bool.and_eq_true] at h ⊢
    exact ⟨fits_mono d x h.1, fitsList_mono d xs h.2⟩
theorem fitsKvs_mono (d : Nat) (r : List (Str × JV)) (h : fitsKvs d r = true) : fitsKvs (d + 1) r = true := by
  cases r with
  | nil => rfl
  | cons p r =>
    obtain ⟨k, v⟩ := p
    simp only [fitsKvs, Bool.and_eq_true] at h ⊢
    exact ⟨fits_mono d v h.1, fitsKvs_mono d r h.2⟩
end

theorem fits_le {d e : Nat} (hde : d ≤ e) {v : JV} (h : fits d v = true) : fits e v = true := by
  induction hde with
  | refl => exact h
  | step _ ih => exact fits_mono _ v ih

theorem fitsList_map {α : Type} (d : Nat) (f : α → JV) (l : List α) (h : ∀ a ∈ l, fits d (f a) = true) :
    fitsList d (l.map f) = true := by
  induction l with
  | nil => rfl
  | cons a l ih =>
    simp only [List.map_cons, fitsList, Bool.and_eq_true]
    exact ⟨h a (by simp), ih fun b hb => h b (by simp [hb])⟩

theorem fitsKvs_map {α : Type} (d : Nat) (f : α → Str × JV) (l : List α) (h : ∀ a ∈ l, fits d (f a).2 = true) :
    fitsKvs d (l.map f) = true := by
  induction l with
  | nil => rfl
  | cons a l ih =>
    simp only [List.map_cons]
    rw [show f a = ((f a).1, (f a).2) from rfl, fitsKvs, Bool.and_eq_true]
    exact ⟨h a (by simp), ih fun b hb => h b (by simp [hb])⟩

theorem fitsKvs_append (d : Nat) (a b : List (Str × JV)) :
    fitsKvs d (a ++ b) = (fitsKvs d a && fitsKvs d b) := by
  induction a with
  | nil => simp [fitsKvs]
  | cons p a ih => obtain ⟨k, v⟩ := p; simp [fitsKvs, ih, Bool.and_assoc]

theorem fits_strs (l : List Str) : fits 1 (.arr (l.map .str)) = true := by
  simp only [fits]; exact fitsList_map 0 _ l fun _ _ => rfl

/-! ### the encoders -/

theorem fits_strMap (m : List (Str × Str)) : fits 1 (strMapToJson m) = true := by
  simp only [strMapToJson, fits]; exact fitsKvs_map 0 _ m fun _ _ => rfl

theorem fits_digest (dg : Digest) : fits 1 (digestToJson dg) = true := by
  simp only [digestToJson, fits]; exact fitsKvs_map 0 _ dg fun _ _ => rfl

theorem fits_arts (a : Artifacts) : fits 2 (artsToJson a) = true := by
  simp only [artsToJson, fits]; exact fitsKvs_map 1 _ a fun p _ => fits_digest p.2

theorem fits_command (c : List Str) : fits 1 (commandToJson c) = true := fits_strs c

theorem fits_rule (r : Rule) : fits 1 (ruleToJson r) = true := fits_strs _

theorem fits_rules (rs : List Rule) : fits 2 (rulesToJson rs) = true := by
  simp only [rulesToJson, fits]; exact fitsList_map 1 _ rs fun r _ => fits_rule r

theorem inI32_range {i : Int} (h : inI32 i = true) : -(2 ^ 63 : Int) ≤ i ∧ i < (2 ^ 64 : Int) := by
  simp only [inI32, Bool.and_eq_true, decide_eq_true_eq] at h; omega

theorem fits_byproducts (b : ByProducts) (h : b.WF) : fits 1 (byProductsToJson b) = true := by
  simp only [byProductsToJson, fits, fitsKvs_append, Bool.and_eq_true]
  refine ⟨⟨⟨?_, ?_⟩, ?_⟩, fitsKvs_map 0 _ b.other fun _ _ => rfl⟩
  · cases hr : b.returnValue with
    | none => rfl
    | some i =>
      obtain ⟨h1, h2⟩ := inI32_range (h.2 i hr)
      simp only [optField, fitsKvs, fits, Bool.and_true, Bool.and_eq_true, decide_eq_true_eq]
      exact ⟨h1, h2⟩
  · cases b.stderr <;> rfl
  · cases b.stdout <;> rfl

theorem fits_link (l : LinkW) (h : l.WF) : fits 3 (linkToJson l) = true := by
  have e : fits 2 (envToJson l.env) = true := by
    cases l.env with
    | none => rfl
    | some m => exact fits_le (by omega) (fits_strMap m)
  simp only [linkToJson, fits, fitsKvs, fits_arts, e, fits_le (show 1 ≤ 2 by omega) (fits_byproducts _ h.2.2),
    fits_le (show 1 ≤ 2 by omega) (fits_command l.command), Bool.and_self]

theorem fits_step (s : StepW) (h : s.WF) : fits 3 (stepToJson s) = true := by
  have ht : (-(2 ^ 63 : Int) ≤ (s.threshold : Int)) ∧ ((s.threshold : Int) < 2 ^ 64) := by
    have := h.1; omega
  have hp : fits 2 (keyIdsToJson s.pubkeys) = true := fits_le (show 1 ≤ 2 by omega) (fits_strs s.pubkeys)
  simp only [stepToJson, fits, fitsKvs, fits_rules, hp,
    fits_le (show 1 ≤ 2 by omega) (fits_command s.expCommand), ht.1, ht.2, decide_true, Bool.and_self]

theorem fits_insp (i : InspW) : fits 3 (inspToJson i) = true := by
  simp only [inspToJson, fits, fitsKvs, fits_rules, fits_le (show 1 ≤ 2 by omega) (fits_command i.run), Bool.and_self]

theorem fits_sig (s : SigW) : fits 1 (sigToJson s) = true := rfl

theorem fits_key (d : KeyDesc) : fits 2 (keyToJson d) = true := by
  unfold keyToJson keyJson
  simp only [fits, fitsKvs_append, fitsKvs, Bool.and_true, Bool.true_and]
  cases d.hashAlgs with
  | none => rfl
  | some l => simp only [fitsKvs, Bool.and_true]; exact fits_strs l

/-- the environment's key writer produces plain values -/
def KeysFit {K : Type} (E : DocEnv K) : Prop := ∀ k : K, fits 2 (E.keyToJson k) = true

theorem fits_layout {K : Type} (E : DocEnv K) (hk : KeysFit E) (L : LayoutW K) (hs : ∀ s ∈ L.steps, s.WF) :
    fits 5 (layoutToJson E L) = true := by
  have h1 : fits 4 (keysToJson E L.keys) = true := by
    simp only [keysToJson, fits]; exact fitsKvs_map 3 _ L.keys fun p _ => fits_le (by omega) (hk p.2)
  have h2 : fits 4 (.arr (L.steps.map stepToJson)) = true := by
    simp only [fits]; exact fitsList_map 3 _ L.steps fun s hs' => fits_step s (hs s hs')
  have h3 : fits 4 (.arr (L.inspect.map inspToJson)) = true := by
    simp only [fits]; exact fitsList_map 3 _ L.inspect fun i _ => fits_insp i
  simp only [layoutToJson, fits, fitsKvs, Bool.and_self, Bool.true_and, Bool.and_true]
  simp only [fits] at h1 h2 h3
  simp [h1, h2, h3]

theorem keysFit_std : KeysFit stdKeyEnv := by
  intro k
  have : stdKeyEnv.keyToJson = keyToJson := by unfold stdKeyEnv; rfl
  rw [this]; exact fits_key k

end InToto.JsonShape
