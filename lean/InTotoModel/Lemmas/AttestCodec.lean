import InTotoModel.Model.AttestExt
import InTotoModel.Lemmas.Codec
import InTotoModel.Props.C19
/-
  Round trip of the generic attestation codec: for every well-typed value (`WT`), decoding its
  encoding returns it — over the schemas translated from the source, whose well-formedness
  (distinct struct names, distinct member names, `skip_serializing_if` only on `Option` members,
  "required" = "not an `Option`") is checked by the kernel on the generated table.
-/
namespace InToto.AttestCodec
open InToto InToto.Generated InToto.Attest InToto.Wire

/-! ### well-formedness of the generated schemas -/

def isOpt : FTy → Bool
  | .opt _ => true
  | _ => false

def nodupB : List Str → Bool
  | [] => true
  | x :: r => !(r.contains x) && nodupB r

theorem nodupB_spec : ∀ {l : List Str}, nodupB l = true → l.Nodup
  | [], _ => List.nodup_nil
  | x :: r, h => by
    simp only [nodupB, Bool.and_eq_true, Bool.not_eq_true', List.contains_eq_mem, decide_eq_false_iff_not] at h
    exact List.nodup_cons.mpr ⟨h.1, nodupB_spec h.2⟩

def schemaWF (s : StructSpec) : Bool :=
  nodupB (fieldNames s) && s.fields.all fun f => (f.required == !isOpt f.ty) && (!f.skipNone || !f.required)

theorem schemas_wf : schemas.all schemaWF = true ∧ nodupB (schemas.map (·.name)) = true := by decide

theorem findSchema_mem {n : Str} {s : StructSpec} (h : findSchema n = some s) : s ∈ schemas ∧ s.name = n := by
  unfold findSchema at h
  exact ⟨List.mem_of_find?_eq_some h, by simpa using List.find?_some h⟩

theorem schema_facts {n : Str} {s : StructSpec} (h : findSchema n = some s) :
    (fieldNames s).Nodup ∧ ∀ f ∈ s.fields, f.required = !isOpt f.ty ∧ (f.skipNone = true → f.required = false) := by
  have hm := (findSchema_mem h).1
  have := List.all_eq_true.mp schemas_wf.1 s hm
  simp only [schemaWF, Bool.and_eq_true, List.all_eq_true, beq_iff_eq, Bool.or_eq_true, Bool.not_eq_true'] at this
  refine ⟨nodupB_spec this.1, fun f hf => ⟨(this.2 f hf).1, fun hs => ?_⟩⟩
  rcases (this.2 f hf).2 with h' | h'
  · rw [hs] at h'; cases h'
  · exact h'

/-! ### well-typed values -/

def WT (E : Ext) : Nat → FTy → AVal → Prop
  | 0, _, _ => False
  | _ + 1, .str, .str _ => True
  | _ + 1, .bool, .bool _ => True
  | _ + 1, .usize, .nat n => n < 2 ^ 64
  | _ + 1, .strMap, .map m => strMapOfJson (strMapToJson m) = some m ∧ sortSS m = m
  | _ + 1, .opt _, .none => True
  | f + 1, .opt t, .some v => WT E f t v ∧ enc f t v ≠ .null
  | f + 1, .list t, .list vs => ∀ v ∈ vs, WT E f t v
  | f + 1, .ref n, .struct n' fields =>
    0 < f ∧ n' = n ∧ ∃ s, findSchema n = some s ∧ fields.map (·.1) = fieldNames s ∧
      (∀ p ∈ s.fields.zip fields, (p.2.2 = AVal.none → isOpt p.1.ty = true) ∧ (p.2.2 ≠ AVal.none → WT E f p.1.ty p.2.2)) ∧
      (n = sStateV01 → stateV01Consistent fields = true)
  | _ + 1, .ext n, .ext n' j => n' = n ∧ n ≠ sPredicate ∧ E.norm n j = some j
  | f + 1, .ext n, .struct st fields => n = sPredicate ∧ st ∈ predicateFormats ∧ WT E f (.ref st) (.struct st fields)
  | _ + 1, _, _ => False

/-! ### members -/

theorem lookupJ_filterMap {e : FTy → AVal → JV} :
    ∀ (fs : List FieldSpec) (vals : List (Str × AVal)) (k : Str),
      (∀ f ∈ fs, f.name ≠ k) → lookupJ k ((fs.zip vals).filterMap (encFieldWith e)) = none
  | [], _, _, _ => by simp [lookupJ]
  | _ :: _, [], _, _ => by simp [lookupJ]
  | f :: fs, v :: vals, k, h => by
    have hf : f.name ≠ k := h f (by simp)
    have ih := lookupJ_filterMap (e := e) fs vals k (fun g hg => h g (by simp [hg]))
    simp only [List.zip_cons_cons, List.filterMap_cons]
    cases hg : encFieldWith e (f, v) with
    | none => simpa using ih
    | some p =>
      have hp : p.1 = f.name := by
        unfold encFieldWith at hg
        split at hg
        · split at hg
          · cases hg
          · cases hg; rfl
        · cases hg; rfl
      simp only [lookupJ]
      rw [if_neg (by rw [hp]; exact hf)]
      exact ih

/-- every member name produced by the encoder is a member name of the schema -/
theorem enc_keys_known {e : FTy → AVal → JV} :
    ∀ (fs : List FieldSpec) (vals : List (Str × AVal)) (p : Str × JV),
      p ∈ (fs.zip vals).filterMap (encFieldWith e) → p.1 ∈ fs.map (·.name)
  | [], _, _, h => by simp at h
  | _ :: _, [], _, h => by simp at h
  | f :: fs, v :: vals, p, h => by
    simp only [List.zip_cons_cons, List.filterMap_cons] at h
    cases hg : encFieldWith e (f, v) with
    | none =>
      rw [hg] at h
      exact List.mem_cons_of_mem _ (enc_keys_known fs vals p h)
    | some q =>
      rw [hg] at h
      rcases List.mem_cons.mp h with rfl | h'
      · have : p.1 = f.name := by
          unfold encFieldWith at hg
          split at hg
          · split at hg
            · cases hg
            · cases hg; rfl
          · cases hg; rfl
        simp [this]
      · exact List.mem_cons_of_mem _ (enc_keys_known fs vals p h')

theorem lookupJ_append (k : Str) (a b : List (Str × JV)) (h : lookupJ k a = none) :
    lookupJ k (a ++ b) = lookupJ k b := by
  induction a with
  | nil => rfl
  | cons p r ih =>
    obtain ⟨x, y⟩ := p
    simp only [lookupJ] at h
    split at h
    · cases h
    · rename_i hx
      simp only [List.cons_append, lookupJ, if_neg hx]
      exact ih h

theorem lookupJ_snoc_ne (k k' : Str) (v : JV) (a : List (Str × JV)) (h : lookupJ k a = none) (hne : k' ≠ k) :
    lookupJ k (a ++ [(k', v)]) = none := by
  rw [lookupJ_append k a _ h]
  simp [lookupJ, hne]

theorem encFieldWith_name {e : FTy → AVal → JV} {f : FieldSpec} {v : Str × AVal} {q : Str × JV}
    (h : encFieldWith e (f, v) = some q) : q.1 = f.name := by
  unfold encFieldWith at h
  split at h
  · split at h
    · cases h
    · cases h; rfl
  · cases h; rfl

/-- The members of a struct read back, given that the member decoder inverts the member encoder on
    each value. -/
theorem fields_round_trip (d : FTy → JV → Option AVal) (e : FTy → AVal → JV)
    (hnull : ∀ t, d (.opt t) .null = some AVal.none) :
    ∀ (fs : List FieldSpec) (vals : List (Str × AVal)) (pre : List (Str × JV)),
      (fs.map (·.name)).Nodup → vals.map (·.1) = fs.map (·.name) →
      (∀ f ∈ fs, lookupJ f.name pre = none) →
      (∀ f ∈ fs, f.required = !isOpt f.ty ∧ (f.skipNone = true → f.required = false)) →
      (∀ p ∈ fs.zip vals, (p.2.2 = AVal.none → isOpt p.1.ty = true) ∧
        (p.2.2 ≠ AVal.none → d p.1.ty (e p.1.ty p.2.2) = some p.2.2)) →
      allOpt (decFieldWith d (pre ++ (fs.zip vals).filterMap (encFieldWith e))) fs = some vals
  | [], vals, pre, _, hn, _, _, _ => by
    cases vals with
    | nil => rfl
    | cons v r => simp at hn
  | f :: fs, [], _, _, hn, _, _, _ => by simp at hn
  | f :: fs, (nm, val) :: vals, pre, hnd, hn, hpre, hwf, hv => by
    simp only [List.map_cons, List.cons.injEq] at hn
    obtain ⟨hnm, hn'⟩ := hn
    subst hnm
    have hnd' := List.nodup_cons.mp hnd
    have hne : ∀ g ∈ fs, g.name ≠ f.name := by
      intro g hg e'
      exact hnd'.1 (List.mem_map.mpr ⟨g, hg, e'⟩)
    have hpf := hpre f (by simp)
    obtain ⟨hreq, hskip⟩ := hwf f (by simp)
    obtain ⟨hvn, hvs⟩ := hv (f, (f.name, val)) (by simp)
    simp only at hvn hvs
    have htail_none : lookupJ f.name ((fs.zip vals).filterMap (encFieldWith e)) = none :=
      lookupJ_filterMap fs vals f.name hne
    simp only [List.zip_cons_cons, List.filterMap_cons]
    cases hq : encFieldWith e (f, (f.name, val)) with
    | none =>
      -- the member is skipped: it is `None` under `skip_serializing_if`
      have hval : val = AVal.none ∧ f.skipNone = true := by
        unfold encFieldWith at hq
        split at hq
        · rename_i hv0
          split at hq
          · rename_i hs; exact ⟨hv0, hs⟩
          · cases hq
        · cases hq
      obtain ⟨rfl, hsk⟩ := hval
      have hr := hskip hsk
      have hthis : decFieldWith d (pre ++ (fs.zip vals).filterMap (encFieldWith e)) f = some (f.name, AVal.none) := by
        unfold decFieldWith
        rw [lookupJ_append _ _ _ hpf, htail_none]
        simp [hr]
      have ih := fields_round_trip d e hnull fs vals pre hnd'.2 hn' (fun g hg => hpre g (by simp [hg]))
        (fun g hg => hwf g (by simp [hg])) (fun p hp => hv p (by simp [hp]))
      simp only [allOpt, hthis, ih]
    | some q =>
      have hq1 := encFieldWith_name hq
      obtain ⟨q1, q2⟩ := q
      simp only at hq1
      subst hq1
      have hthis : decFieldWith d (pre ++ (f.name, q2) :: (fs.zip vals).filterMap (encFieldWith e)) f = some (f.name, val) := by
        unfold decFieldWith
        rw [lookupJ_append _ _ _ hpf]
        simp only [lookupJ, if_true]
        by_cases hval : val = AVal.none
        · subst hval
          have hop := hvn rfl
          have hq2 : q2 = JV.null := by
            unfold encFieldWith at hq
            simp only at hq
            split at hq
            · cases hq
            · cases hq; rfl
          subst hq2
          cases hty : f.ty with
          | opt t => simp [hnull]
          | str => rw [hty] at hop; cases hop
          | bool => rw [hty] at hop; cases hop
          | usize => rw [hty] at hop; cases hop
          | strMap => rw [hty] at hop; cases hop
          | list t => rw [hty] at hop; cases hop
          | ref n => rw [hty] at hop; cases hop
          | ext n => rw [hty] at hop; cases hop
        · have hq2 : q2 = e f.ty val := by
            unfold encFieldWith at hq
            cases val <;> first | (simp only [Option.some.injEq, Prod.mk.injEq] at hq; exact hq.2.symm) | exact absurd rfl hval
          subst hq2
          simp only [hvs hval, Option.map_some]
      have ih := fields_round_trip d e hnull fs vals (pre ++ [(f.name, q2)]) hnd'.2 hn'
        (fun g hg => lookupJ_snoc_ne _ _ _ _ (hpre g (by simp [hg])) (fun e' => hne g hg e'.symm))
        (fun g hg => hwf g (by simp [hg])) (fun p hp => hv p (by simp [hp]))
      have hrew : pre ++ (f.name, q2) :: (fs.zip vals).filterMap (encFieldWith e) =
          (pre ++ [(f.name, q2)]) ++ (fs.zip vals).filterMap (encFieldWith e) := by simp
      simp only [allOpt, hthis]
      rw [hrew, ih]

/-! ### equations of the decoder -/

theorem dec_opt_nonnull (E : Ext) (f : Nat) (t : FTy) {j : JV} (h : j ≠ .null) :
    dec E (f + 1) (.opt t) j = (dec E f t j).map .some := by
  cases j <;> first | exact absurd rfl h | rfl

theorem dec_ref (E : Ext) (f : Nat) (n : Str) (kvs : List (Str × JV)) :
    dec E (f + 1) (.ref n) (.obj kvs) =
      (match findSchema n with
      | Option.none => Option.none
      | Option.some s =>
        if s.denyUnknown && !(kvs.all fun p => decide (p.1 ∈ fieldNames s)) then Option.none
        else
          match allOpt (decFieldWith (dec E f) kvs) s.fields with
          | Option.none => Option.none
          | Option.some fields =>
            if n = sStateV01 && stateV01ChecksPredicateType && !stateV01Consistent fields then Option.none
            else Option.some (.struct n fields)) := by
  rfl

theorem enc_ref (f : Nat) (n n' : Str) (fields : List (Str × AVal)) :
    enc (f + 1) (.ref n') (.struct n fields) =
      (match findSchema n with
      | Option.none => .null
      | Option.some s => .obj ((s.fields.zip fields).filterMap (encFieldWith (enc f)))) := by
  rfl

theorem dec_opt_null (E : Ext) (f : Nat) (t : FTy) : dec E (f + 1) (.opt t) .null = some AVal.none := rfl

/-! ### a struct that decodes has an admitted member set -/

theorem lookupJ_some_mem {k : Str} {kvs : List (Str × JV)} {j : JV} (h : lookupJ k kvs = some j) :
    k ∈ kvs.map (·.1) := by
  induction kvs with
  | nil => simp [lookupJ] at h
  | cons p r ih =>
    obtain ⟨a, b⟩ := p
    simp only [lookupJ] at h
    split at h
    · rename_i e; simp [e]
    · simp [ih h]

theorem allOpt_some_each {α β : Type} {g : α → Option β} {l : List α} {r : List β} (h : allOpt g l = some r) :
    ∀ a ∈ l, (g a).isSome = true := by
  induction l generalizing r with
  | nil => intro a ha; cases ha
  | cons x xs ih =>
    simp only [allOpt] at h
    cases hx : g x with
    | none => simp [hx] at h
    | some y =>
      simp only [hx] at h
      cases hxs : allOpt g xs with
      | none => simp [hxs] at h
      | some ys =>
        intro a ha
        rcases List.mem_cons.mp ha with rfl | ha'
        · simp [hx]
        · exact ih hxs a ha'

theorem dec_ref_admits (E : Ext) (f : Nat) (n : Str) (kvs : List (Str × JV)) (v : AVal)
    (h : dec E (f + 1) (.ref n) (.obj kvs) = some v) :
    ∃ s, findSchema n = some s ∧ admits s (kvs.map (·.1)) = true := by
  rw [dec_ref] at h
  cases hs : findSchema n with
  | none => simp [hs] at h
  | some s =>
    refine ⟨s, rfl, ?_⟩
    simp only [hs] at h
    split at h
    · cases h
    · rename_i hdeny
      cases hall : allOpt (decFieldWith (dec E f) kvs) s.fields with
      | none => simp [hall] at h
      | some fields =>
        have heach := allOpt_some_each hall
        simp only [admits, Bool.and_eq_true, List.all_eq_true, decide_eq_true_eq, Bool.or_eq_true, Bool.not_eq_true']
        constructor
        · intro k hk
          simp only [requiredNames, List.mem_map, List.mem_filter] at hk
          obtain ⟨fs, ⟨hfs, hreq⟩, rfl⟩ := hk
          have := heach fs hfs
          unfold decFieldWith at this
          cases hl : lookupJ fs.name kvs with
          | none => simp [hl, hreq] at this
          | some j => exact lookupJ_some_mem hl
        · by_cases hd : s.denyUnknown = true
          · right
            intro k hk
            simp only [hd, Bool.true_and, Bool.not_eq_true', Bool.not_eq_false] at hdeny
            have := List.all_eq_true.mp hdeny
            obtain ⟨p, hp, rfl⟩ := List.mem_map.mp hk
            simpa using this p hp
          · left; simpa using hd

theorem firstSome_unique {α β : Type} (g : α → Option β) (sel : α → Prop) (x : β) :
    ∀ (l : List α), (∃ a ∈ l, sel a) → (∀ a ∈ l, (sel a → g a = some x) ∧ (¬ sel a → g a = none)) →
      firstSome (l.map g) = some x
  | [], h, _ => by obtain ⟨a, ha, _⟩ := h; cases ha
  | a :: r, h, hall => by
    by_cases hs : sel a
    · simp [firstSome, (hall a (by simp)).1 hs]
    · have hn := (hall a (by simp)).2 hs
      simp only [List.map_cons, hn, firstSome]
      apply firstSome_unique g sel x r
      · obtain ⟨b, hb, hsb⟩ := h
        rcases List.mem_cons.mp hb with rfl | hb'
        · exact absurd hsb hs
        · exact ⟨b, hb', hsb⟩
      · intro b hb; exact hall b (by simp [hb])

theorem trial_order_is_format_list : predicateTrialOrder.map (·.2) = predicateFormats ∧
    statementTrialOrder.map (·.2) = statementFormats := by decide

/-! ### round trip -/

theorem dec_enc (E : Ext) : ∀ (f : Nat) (ty : FTy) (v : AVal), WT E f ty v → dec E f ty (enc f ty v) = some v
  | 0, _, _, h => by simp [WT] at h
  | f + 1, ty, v, h => by
    cases ty with
    | str => cases v <;> simp only [WT] at h; rfl
    | bool => cases v <;> simp only [WT] at h; rfl
    | usize =>
      cases v <;> simp only [WT] at h
      rename_i n
      have h1 : (0 : Int) ≤ (n : Int) ∧ (n : Int) < (2 ^ 64 : Int) := ⟨by omega, by omega⟩
      simp only [enc, dec, h1, and_self, if_true, Int.toNat_natCast]
    | strMap =>
      cases v <;> simp only [WT] at h
      rename_i m
      simp only [enc, dec, h.1, Option.map_some, h.2]
    | opt t =>
      cases v <;> simp only [WT] at h
      · rfl
      · rename_i v
        have ih := dec_enc E f t v h.1
        show dec E (f + 1) (.opt t) (enc f t v) = _
        rw [dec_opt_nonnull E f t h.2, ih]; rfl
    | list t =>
      cases v <;> simp only [WT] at h
      rename_i vs
      have : allOpt (dec E f t) (vs.map (enc f t)) = some vs :=
        allOpt_map_of_inv (fun a ha => dec_enc E f t a (h a ha))
      simp only [enc, dec, this, Option.map_some]
    | ref n =>
      cases v <;> simp only [WT] at h
      rename_i n' fields
      obtain ⟨hf0, rfl, s, hs, hnames, hvals, hchk⟩ := h
      obtain ⟨f', rfl⟩ : ∃ f', f = f' + 1 := ⟨f - 1, by omega⟩
      obtain ⟨hnd, hwf⟩ := schema_facts hs
      rw [enc_ref, hs]
      simp only
      rw [dec_ref, hs]
      simp only
      have hkeys : (((s.fields.zip fields).filterMap (encFieldWith (enc (f' + 1)))).all
          fun p => decide (p.1 ∈ fieldNames s)) = true := by
        rw [List.all_eq_true]
        intro p hp
        simpa [fieldNames] using enc_keys_known s.fields fields p hp
      have hrt := fields_round_trip (dec E (f' + 1)) (enc (f' + 1)) (fun t => dec_opt_null E f' t)
        s.fields fields [] hnd (by simpa [fieldNames] using hnames) (fun _ _ => rfl) hwf
        (fun p hp => ⟨(hvals p hp).1, fun hne => dec_enc E (f' + 1) p.1.ty p.2.2 ((hvals p hp).2 hne)⟩)
      rw [List.nil_append] at hrt
      simp only [hkeys, Bool.not_true, Bool.and_false, Bool.false_eq_true, if_false, hrt]
      by_cases hn : n' = sStateV01
      · simp [hchk hn]
      · simp [hn]
    | ext n =>
      cases v <;> simp only [WT] at h
      · -- a predicate held by a statement: the first format of the trial order that decodes is its own
        rename_i st fields
        obtain ⟨rfl, hst, hwt⟩ := h
        have ih := dec_enc E f (.ref st) (.struct st fields) hwt
        obtain ⟨f', rfl⟩ : ∃ f', f = f' + 1 := by
          cases f with
          | zero => simp [WT] at hwt
          | succ f' => exact ⟨f', rfl⟩
        have hj : ∃ kvs, enc (f' + 1) (.ref st) (.struct st fields) = .obj kvs := by
          rw [enc_ref]
          simp only [WT] at hwt
          obtain ⟨_, _, s, hs, _⟩ := hwt
          rw [hs]; exact ⟨_, rfl⟩
        obtain ⟨kvs, hkvs⟩ := hj
        show dec E (f' + 1 + 1) (.ext sPredicate) (enc (f' + 1) (.ref st) (.struct st fields)) = _
        rw [hkvs] at ih ⊢
        have hdec : dec E (f' + 1 + 1) (.ext sPredicate) (.obj kvs) =
            firstSome (predicateTrialOrder.map fun p => dec E (f' + 1) (.ref p.2) (.obj kvs)) := by
          simp [dec]
        rw [hdec]
        obtain ⟨s0, hs0, hadm0⟩ := dec_ref_admits E f' st kvs _ ih
        apply firstSome_unique _ (fun p : Str × Str => p.2 = st)
        · have : st ∈ predicateTrialOrder.map (·.2) := by rw [trial_order_is_format_list.1]; exact hst
          obtain ⟨p, hp, rfl⟩ := List.mem_map.mp this
          exact ⟨p, hp, rfl⟩
        · intro p hp
          refine ⟨fun e => by rw [e]; exact ih, fun hne => ?_⟩
          cases hd : dec E (f' + 1) (.ref p.2) (.obj kvs) with
          | none => rfl
          | some w =>
            exfalso
            obtain ⟨s1, hs1, hadm1⟩ := dec_ref_admits E f' p.2 kvs w hd
            have hp2 : p.2 ∈ predicateFormats := by
              rw [← trial_order_is_format_list.1]; exact List.mem_map_of_mem hp
            have c1 : p.2 ∈ candidates predicateFormats (kvs.map (·.1)) := by
              simp only [candidates, List.mem_filter]; exact ⟨hp2, by rw [hs1]; exact hadm1⟩
            have c0 : st ∈ candidates predicateFormats (kvs.map (·.1)) := by
              simp only [candidates, List.mem_filter]; exact ⟨hst, by rw [hs0]; exact hadm0⟩
            exact hne (c19_predicate_formats_disjoint _ _ _ c1 c0)
      · rename_i n' j
        obtain ⟨rfl, hnp, hnorm⟩ := h
        simp only [enc, dec, if_neg hnp, hnorm, Option.map_some]

end InToto.AttestCodec
