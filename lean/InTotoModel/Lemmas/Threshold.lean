import InTotoModel.Model.Threshold
namespace InToto.Threshold

variable {K : Type} {α : Type}

theorem lastFind_mem {k : Str} {w : α} {r : List (Str × α)} (h : lastFind k r = some w) : (k, w) ∈ r := by
  induction r with
  | nil => simp [lastFind] at h
  | cons p r ih =>
    obtain ⟨k', v'⟩ := p
    simp only [lastFind] at h
    cases hl : lastFind k r with
    | some w' =>
      rw [hl] at h
      cases h
      exact List.mem_cons_of_mem _ (ih hl)
    | none =>
      rw [hl] at h
      by_cases e : k = k'
      · subst e; simp at h; subst h; simp
      · simp [e] at h

theorem lastFind_none {k : Str} {r : List (Str × α)} (h : k ∉ r.map Prod.fst) : lastFind k r = none := by
  cases hl : lastFind k r with
  | none => rfl
  | some w =>
    exfalso
    apply h
    exact List.mem_map.mpr ⟨(k, w), lastFind_mem hl, rfl⟩

theorem lastFind_isSome_of_mem {k : Str} {v : α} {r : List (Str × α)} (h : (k, v) ∈ r) :
    ∃ w, lastFind k r = some w := by
  induction r with
  | nil => simp at h
  | cons p r ih =>
    obtain ⟨k', v'⟩ := p
    simp only [lastFind]
    cases hl : lastFind k r with
    | some w => exact ⟨w, rfl⟩
    | none =>
      simp only [List.mem_cons, Prod.mk.injEq] at h
      rcases h with ⟨rfl, rfl⟩ | h
      · exact ⟨v, by simp⟩
      · obtain ⟨w, hw⟩ := ih h
        rw [hl] at hw; cases hw

theorem dedupLast_subset (l : List (Str × α)) : ∀ p ∈ dedupLast l, p ∈ l := by
  induction l with
  | nil => simp [dedupLast]
  | cons q r ih =>
    obtain ⟨k, v⟩ := q
    simp only [dedupLast]
    split
    · intro p hp; exact List.mem_cons_of_mem _ (ih p hp)
    · intro p hp
      simp only [List.mem_cons] at hp ⊢
      rcases hp with rfl | hp
      · exact Or.inl rfl
      · exact Or.inr (ih p hp)

theorem dedupLast_keys_nodup (l : List (Str × α)) : ((dedupLast l).map Prod.fst).Nodup := by
  induction l with
  | nil => simp [dedupLast]
  | cons q r ih =>
    obtain ⟨k, v⟩ := q
    simp only [dedupLast]
    split
    · exact ih
    · rename_i hany
      simp only [List.map_cons, List.nodup_cons]
      refine ⟨?_, ih⟩
      intro hm
      obtain ⟨p, hp, hpk⟩ := List.mem_map.mp hm
      apply hany
      simp only [List.any_eq_true]
      exact ⟨p, dedupLast_subset r p hp, by simp [hpk]⟩

theorem dedupLast_of_nodup {l : List (Str × α)} (h : (l.map Prod.fst).Nodup) : dedupLast l = l := by
  induction l with
  | nil => rfl
  | cons q r ih =>
    obtain ⟨k, v⟩ := q
    simp only [List.map_cons, List.nodup_cons] at h
    simp only [dedupLast]
    have : r.any (fun p => p.1 == k) = false := by
      cases hb : r.any (fun p => p.1 == k) with
      | false => rfl
      | true =>
        exfalso
        simp only [List.any_eq_true] at hb
        obtain ⟨p, hp, hk⟩ := hb
        apply h.1
        exact List.mem_map.mpr ⟨p, hp, by simpa using hk⟩
    rw [this, ih h.2]
    simp

theorem loop_eq (valid : K → Bytes → Bool) (tbl : List (Str × K)) (l : List (Str × Bytes)) (n : Nat) (hn : 1 ≤ n) :
    loop valid tbl n l = n - (l.filter (good valid tbl)).length := by
  induction l generalizing n with
  | nil => simp [loop]
  | cons e es ih =>
    simp only [loop, List.filter_cons]
    by_cases hg : good valid tbl e = true
    · simp only [hg, if_true, List.length_cons]
      by_cases h0 : n - 1 = 0
      · simp [h0]; omega
      · simp only [h0, if_false]
        rw [ih (n - 1) (by omega)]
        omega
    · simp only [hg, Bool.false_eq_true, if_false]
      have : ¬ n = 0 := by omega
      simp only [this, if_false]
      exact ih n hn

theorem goodCount_perm (valid : K → Bytes → Bool) (tbl : List (Str × K)) {l l' : List (Str × Bytes)}
    (h : l'.Perm l) : (l'.filter (good valid tbl)).length = (l.filter (good valid tbl)).length :=
  (h.filter _).length_eq

end InToto.Threshold
